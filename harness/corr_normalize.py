"""correspondence of the Lean model of ngo/normalize.py (lean/NgoVerif/Model/Normalize.lean) with the real code

ops
  A  (pre_unpool <prog> <agglocs>)  vs  replace_old_aggregates + remove_unecessary_bounds + expand_comparisons
  B  (exline <prog>)                vs  exline_arithmetic            (inputs: real preprocess(prg))
  C  (inline_arith <prog> <globals>) vs inline_arithmetic            (inputs: real preprocess(prg) and the real
                                                                      exline_arithmetic of it)
`global_vars_inside_body` (C) and the location of old-style aggregates (A) are parameters of the model; they are
recorded on the Python side and sent along.
"""
from __future__ import annotations

import random
import sys
import zlib

from clingo.ast import ASTType, parse_string

import corpus
import gen
import leanio
import ser

import ngo.normalize as N

# ---------------------------------------------------------------- real side


def parse(text):
    out = []
    try:
        parse_string(text, out.append, logger=lambda c, m: None)
    except RuntimeError:
        return None
    return out


def real_pre_unpool(prg):
    """`new_prg` of normalize() just before the unpool loop"""
    p = N.replace_old_aggregates(prg)
    p = N.remove_unecessary_bounds(p)
    return [N.expand_comparisons(stm) for stm in p]


def agg_locs(prg) -> str:
    """per statement the begin (line col) of the old-style aggregate body literals, in body order"""
    res = []
    for stm in prg:
        ls = []
        if stm.ast_type in (ASTType.Rule, ASTType.Minimize):
            for b in stm.body:
                if b.ast_type == ASTType.Literal and b.atom.ast_type == ASTType.Aggregate:
                    ls.append(f"({b.atom.location.begin.line} {b.atom.location.begin.column})")
        res.append("(" + " ".join(ls) + ")")
    return "(" + " ".join(res) + ")"


class GvFailure(Exception):
    pass


def real_inline(prg):
    """inline_arithmetic statement by statement, recording what global_vars_inside_body returned.
    returns (result, globals-sexp); raises GvFailure if the external parameter itself raised"""
    orig = N.global_vars_inside_body
    calls = []

    cache = {}

    def wrapped(lits):
        # the function is pure and is called once per body literal with the same body: memoise per statement
        key = tuple(str(x) for x in lits)
        if key in cache:
            r = cache[key]
        else:
            try:
                r = orig(lits)
            except BaseException as e:  # the parameter failed, not the function under test
                raise GvFailure(repr(e)) from e
            cache[key] = r
        calls.append(sorted(v.name for v in r))
        return set(r)

    res = []
    gl = []
    differs = False
    N.global_vars_inside_body = wrapped
    try:
        for stm in prg:
            calls.clear()
            cache.clear()
            out = N.inline_arithmetic([stm])
            assert len(out) == 1
            res.append(out[0])
            if stm.ast_type not in (ASTType.Rule, ASTType.Minimize):
                assert not calls
                gl.append("()")
                continue
            n = len(out[0].body)
            assert len(calls) == 2 * n, (len(calls), n, str(stm))
            first, second = calls[:n], calls[n:]
            assert all(c == first[0] for c in first) and all(c == second[0] for c in second)
            a = first[0] if n else []
            c = second[0] if n else []
            differs = differs or a != c
            gl.append("((" + " ".join(ser.q(x) for x in a) + ") (" + " ".join(ser.q(x) for x in c) + "))")
    finally:
        N.global_vars_inside_body = orig
    return res, "(" + " ".join(gl) + ")", differs


# ---------------------------------------------------------------- extra generator (features of normalize.py)

V = ["X", "Y", "Z", "W", "AUX", "AUX0", "_"]
ARITH = ["+", "-", "*", "/", "\\"]
P = [("a", 1), ("b", 1), ("c", 2), ("p", 1), ("q", 2), ("s", 3), ("e", 0)]


def n_term(rng, d=0):
    r = rng.random()
    if r < 0.45:
        return rng.choice(V)
    if r < 0.6:
        return rng.choice(["1", "2", "0", "a", "-3"])
    if d > 1:
        return rng.choice(V[:4])
    if r < 0.75:
        return f"{n_term(rng, d + 1)}{rng.choice(ARITH)}{n_term(rng, d + 1)}"
    if r < 0.8:
        return f"-{n_term(rng, d + 1)}"
    if r < 0.84:
        return f"|{n_term(rng, d + 1)}|"
    if r < 0.9:
        return f"{n_term(rng, d + 1)}..{n_term(rng, d + 1)}"
    if r < 0.95:
        return f"f({n_term(rng, d + 1)},{n_term(rng, d + 1)})"
    if r < 0.98:
        return f"({n_term(rng, d + 1)};{n_term(rng, d + 1)})"
    return rng.choice(["#inf", "#sup"])


def n_atom(rng):
    name, ar = rng.choice(P)
    if ar == 0:
        return name
    a = f"{name}({','.join(n_term(rng) for _ in range(ar))})"
    return ("-" if rng.random() < 0.05 else "") + a


def n_sign(rng):
    return rng.choice(["", "", "", "not ", "not ", "not not "])


def n_cmp(rng):
    k = rng.choice([1, 1, 1, 2, 3])
    s = n_term(rng, 1)
    for _ in range(k):
        s += f" {rng.choice(['<', '<=', '>', '>=', '!=', '=', '=', '='])} {n_term(rng, 1)}"
    return s


def n_cond(rng, n):
    out = []
    for _ in range(n):
        r = rng.random()
        if r < 0.5:
            out.append(n_sign(rng) + n_atom(rng))
        elif r < 0.9:
            out.append(n_sign(rng) + n_cmp(rng))
        else:
            out.append(n_sign(rng) + rng.choice(["#true", "#false"]))
    return ", ".join(out)


def n_guard_l(rng):
    r = rng.random()
    if r < 0.35:
        return ""
    if r < 0.55:
        return rng.choice(["#inf <= ", "#sup >= ", "#inf < ", "#sup <= ", "#inf >= "])
    return f"{rng.choice(['1', '2', 'X', 'Y+1', '#inf', '#sup'])} {rng.choice(['<', '<=', '>', '>=', '!=', '='])} "


def n_guard_r(rng):
    r = rng.random()
    if r < 0.45:
        return ""
    if r < 0.65:
        return rng.choice([" <= #sup", " >= #inf", " < #sup", " >= #sup", " <= #inf"])
    return f" {rng.choice(['<', '<=', '>', '>=', '!=', '='])} {rng.choice(['1', '2', 'X', 'Z*2', '#inf', '#sup'])}"


def n_old_agg(rng):
    els = []
    for _ in range(rng.choice([1, 1, 2, 3])):
        r = rng.random()
        if r < 0.6:
            l = n_sign(rng) + n_atom(rng)
        elif r < 0.85:
            l = n_sign(rng) + n_cmp(rng)
        else:
            l = n_sign(rng) + rng.choice(["#true", "#false"])
        c = n_cond(rng, rng.choice([0, 0, 1, 2]))
        els.append(f"{l} : {c}" if c else l)
    r = rng.random()
    if r < 0.5:
        lo = rng.choice(["", "1 ", "2 ", "X ", "#inf ", "#sup "])
        hi = rng.choice(["", " 2", " 1", " Y", " #sup", " #inf"])
        return f"{lo}{{ {'; '.join(els)} }}{hi}"
    return f"{n_guard_l(rng)}{{ {'; '.join(els)} }}{n_guard_r(rng)}"


def n_body_agg(rng):
    f = rng.choice(["#sum", "#count", "#count", "#min", "#max", "#sum+"])
    els = []
    for _ in range(rng.choice([1, 1, 2, 3])):
        ts = ",".join(n_term(rng, 1) for _ in range(rng.choice([1, 2])))
        c = n_cond(rng, rng.choice([0, 1, 2, 3]))
        els.append(f"{ts} : {c}" if c else ts)
    if rng.random() < 0.1 and len(els) > 1:
        els.append(els[0])
    return f"{n_guard_l(rng)}{f} {{ {'; '.join(els)} }}{n_guard_r(rng)}"


def n_body_lit(rng):
    r = rng.random()
    if r < 0.35:
        return n_sign(rng) + n_atom(rng)
    if r < 0.55:
        return n_sign(rng) + n_cmp(rng)
    if r < 0.7:
        return n_sign(rng) + n_body_agg(rng)
    if r < 0.85:
        return n_sign(rng) + n_old_agg(rng)
    if r < 0.97:
        return f"{n_sign(rng)}{n_atom(rng)} : {n_cond(rng, rng.choice([1, 2, 3]))}"
    return rng.choice(["#true", "not #false"])


def n_head(rng):
    r = rng.random()
    if r < 0.5:
        return n_atom(rng)
    if r < 0.6:
        return ""
    if r < 0.75:
        els = []
        for _ in range(rng.choice([1, 2])):
            c = n_cond(rng, rng.choice([0, 1]))
            els.append(f"{n_atom(rng)} : {c}" if c else n_atom(rng))
        return f"{rng.choice(['', '1 ', 'X '])}{{ {'; '.join(els)} }}{rng.choice(['', ' 1', ' Y'])}"
    if r < 0.85:
        return "; ".join(f"{n_atom(rng)} : {n_cond(rng, 1)}" for _ in range(2))
    if r < 0.95:
        els = [f"{n_term(rng, 1)} : {n_atom(rng)} : {n_cond(rng, 1)}" for _ in range(rng.choice([1, 2]))]
        return f"#sum {{ {'; '.join(els)} }} {rng.choice(['<= X', '= 1', '>= Y'])}"
    return "not " + n_atom(rng)


def n_body(rng, lo=0):
    ls = [n_body_lit(rng) for _ in range(rng.choice([lo, 1, 2, 3, 4]))]
    if ls and rng.random() < 0.1:
        ls.append(rng.choice(ls))  # duplicate literal: `x != blit` drops all copies
    return "; ".join(ls)


def n_rule(rng):
    h, b = n_head(rng), n_body(rng)
    if not h and not b:
        b = n_atom(rng)
    return f"{h} :- {b}." if b else f"{h}."


def n_objective(rng):
    b = n_body(rng, 1) or n_atom(rng)
    ts = ",".join(n_term(rng, 1) for _ in range(rng.choice([0, 1, 2])))
    w, p = n_term(rng, 0), rng.choice(["1", "X", "Y+1", "2", "-Z"])
    if rng.random() < 0.5 or "{" in b or ";" in b or " : " in b:
        return f":~ {b}. [{w}@{p}{',' + ts if ts else ''}]"
    return f"{rng.choice(['#minimize', '#maximize'])} {{ {w}@{p}{',' + ts if ts else ''} : {b} }}."


def n_other(rng):
    r = rng.random()
    if r < 0.4:
        return f"#show {n_term(rng, 1)} : {n_body(rng, 1) or n_atom(rng)}."
    if r < 0.7:
        return f"#external {rng.choice(['a(X)', 'e', 'q(X,Y)'])} : {n_body(rng, 1) or n_atom(rng)}."
    if r < 0.8:
        return "#show a/1."
    if r < 0.95:
        return f"#heuristic a(X) : {n_body_agg(rng)}. [1, true]"
    return "&diff { X - Y } <= 3 :- p(X), q(Y,_)."


def norm_program(rng):
    out = []
    for _ in range(rng.choice([1, 2, 3, 4])):
        r = rng.random()
        out.append(n_rule(rng) if r < 0.7 else (n_objective(rng) if r < 0.9 else n_other(rng)))
    return "\n".join(out)


def i_eq(rng, loc):
    """an (in)equality that `_equality` may accept; `loc` = variables that are likely local"""
    v = rng.choice(loc + ["X", "_"])
    t = rng.choice(["Y+1", "X", "Y", "3", "f(Y)", "Z*2", "(1;2)", "1..2", "L", "L+L", "_", "-Y", "a"])
    r = rng.random()
    if r < 0.45:
        return f"{v} = {t}"
    if r < 0.65:
        return f"{t} = {v}"
    if r < 0.8:
        return f"not {v} != {t}"
    if r < 0.88:
        return f"not {t} != {v}"
    if r < 0.94:
        return f"{v} != {t}"
    return f"not {v} = {t}"


def i_cond(rng, loc):
    cs = [rng.choice([f"p({rng.choice(loc)})", f"q({rng.choice(loc)},Y)", "a(X)", f"not b({rng.choice(loc)})"])]
    for _ in range(rng.choice([1, 1, 2, 3])):
        cs.append(i_eq(rng, loc))
    if rng.random() < 0.3:
        cs.append(rng.choice(cs))
    rng.shuffle(cs)
    return ", ".join(cs)


def i_blit(rng):
    r = rng.random()
    if r < 0.3:
        return rng.choice(["p(X)", "q(X,Y)", "a(Y)", "not b(Z)", "s(X,Y,Z)", "c(L,M)", "p(X+1)", "q(M,X*Y)"])
    if r < 0.55:
        return i_eq(rng, ["X", "Y", "Z", "L", "M"])
    if r < 0.8:
        els = []
        for _ in range(rng.choice([1, 2, 3])):
            els.append(f"{rng.choice(['L', 'M', 'L,M', 'X,L', '1,L+M'])} : {i_cond(rng, ['L', 'M'])}")
        if rng.random() < 0.4:
            els.append(rng.choice(els))
        g = rng.choice(["Z = ", "X < ", "", "1 <= "])
        return f"{g}{rng.choice(['#sum', '#count', '#min'])} {{ {'; '.join(els)} }}"
    return f"{rng.choice(['p(L)', 'not q(L,M)', 'c(L,X)', 'L < M'])} : {i_cond(rng, ['L', 'M'])}"


def inl_program(rng):
    """statements aimed at inline_arithmetic: equalities at body level, in aggregate elements (with copies), in
    conditional literals; on global and local variables"""
    out = []
    for _ in range(rng.choice([1, 2, 3])):
        ls = [i_blit(rng) for _ in range(rng.choice([1, 2, 3, 4]))]
        if rng.random() < 0.2:
            ls.append(rng.choice(ls))
        b = "; ".join(ls)
        r = rng.random()
        if r < 0.6:
            h = rng.choice(["h(X)", "h(X,Y,Z)", "", "{ h(X) : a(X), X = Y }", "h(L) : p(L); g(Z)", "h(M+1)",
                            "#sum { X : h(X) : a(Y) } <= Z"])
            out.append(f"{h} :- {b}.")
        else:
            out.append(f":~ {b}. [{rng.choice(['X', 'Z+1', '1', 'L'])}@{rng.choice(['1', 'Y', 'Z'])},{rng.choice(['X', 'Y,Z', 'M'])}]")
    return "\n".join(out)


# ---------------------------------------------------------------- features (histogram)

def features_a(prg):
    fs = set()
    for stm in prg:
        body = getattr(stm, "body", None) if stm.ast_type in (ASTType.Rule, ASTType.Minimize) else None
        for b in body or []:
            if b.ast_type == ASTType.ConditionalLiteral:
                if any(c.atom.ast_type == ASTType.Comparison and len(c.atom.guards) > 1 for c in b.condition):
                    fs.add("A:chain_in_condition")
                continue
            at = b.atom
            if at.ast_type == ASTType.Aggregate:
                fs.add("A:old_agg")
                for e in at.elements:
                    if N.collect_ast(e, "Interval"):
                        fs.add("A:old_agg_interval")
                    if any(v.name == "_" for v in N.collect_ast(e.literal, "Variable")):
                        fs.add("A:old_agg_anon")
                    if e.literal.atom.ast_type == ASTType.Comparison:
                        fs.add("A:old_agg_cmp")
                    if e.literal.atom.ast_type == ASTType.BooleanConstant:
                        fs.add("A:old_agg_bool")
            if at.ast_type == ASTType.BodyAggregate and at.function == 0:
                fs.add("A:count")
            if at.ast_type in (ASTType.Aggregate, ASTType.BodyAggregate):
                for g in (at.left_guard, at.right_guard):
                    if g is not None and g.term.ast_type == ASTType.SymbolicTerm and str(g.term) in ("#inf", "#sup"):
                        fs.add("A:inf_sup_guard")
                if at.right_guard is not None and at.left_guard is None:
                    fs.add("A:right_guard_only")
            if at.ast_type == ASTType.Comparison and len(at.guards) > 1:
                fs.add("A:chain")
    return fs


# ---------------------------------------------------------------- hand-made ASTs outside clingo's grammar
# (the mirror type allows them; they reach the `assert False` of _convert_old_agg, aggregates inside conditions…)

def _bagg(l, c, lg, f, elems, rg):
    return f'(bagg {l} {c} {lg} {f} ({" ".join(elems)}) {rg})'


def _elem(terms, lits):
    return f'(({" ".join(terms)}) ({" ".join(lits)}))'


def _agg(inner):
    return '(agg (g le (sym (num 1))) ((clit ' + inner + ' ())) (none))'


def handcrafted():
    px = '(lit 0 (satom (fn "p" ((var "X")) 0)))'
    ch = '(lit 0 (cmp (var "X") ((lt (var "Y")) (lt (sym (num 3))))))'
    b = _bagg(2, 7, '(g le (sym (inf)))', 'count', [_elem(['(var "X")'], [px, ch])], '(g le (var "Z"))')
    b2 = _bagg(3, 9, '(none)', 'sum', [_elem(['(var "X")'], [px, '(lit 1 ' + b + ')'])], '(g ge (sym (inf)))')
    ha = '(lit 0 (satom (fn "a" () 0)))'
    hb = '(lit 0 (satom (fn "b" () 0)))'
    return [
        '((rule 1 1 ' + ha + ' ((lit 0 ' + _agg("(lit 0 " + b + ")") + '))))',
        '((rule 1 1 ' + ha + ' ((clit (lit 0 (satom (fn "q" () 0))) ((lit 2 ' + b + '))))))',
        '((rule 1 1 ' + ha + ' ((lit 0 ' + b2 + '))))',
        '((rule 1 1 (disj ((clit ' + ha + ' ((lit 0 ' + b + '))))) (' + hb + ')))',
        '((rule 1 1 (agg (none) ((clit ' + ha + ' ((lit 0 ' + b + ')))) (none)) (' + hb + ')))',
        '((rule 1 1 (hagg (none) sum ((((var "X")) (clit ' + ha + ' ((lit 0 ' + b + '))))) (none)) (' + hb + ')))',
        '((rule 1 1 ' + ha + ' ((lit 0 (cmp (var "X") ())))))',
        '((rule 1 1 ' + ha + ' ((lit 0 ' + _agg('(lit 0 (satom (ival (var "_") (sym (num 2)))))') + '))))',
        '((rule 1 1 ' + ha + ' ((lit 0 ' + _agg('(lit 2 (satom (var "_")))') + '))))',
        '((min 1 1 (var "X") (sym (num 0)) () ((lit 0 ' + _agg("(lit 0 " + _agg("(lit 0 (bool 1))") + ")") + '))))',
        '((showterm (var "X") ((clit (lit 0 (satom (fn "q" () 0))) ((lit 2 ' + b + '))))))',
        '((external (fn "q" () 0) ((lit 2 ' + b + ') (lit 0 ' + _agg("(lit 0 (bool 1))") + ')) (sym (fun "false" () 1))))',
    ]


# programs written for branches the random inputs hit rarely
EXTRA = [
    # global_vars_inside_body differs between inline_aggregates and inline_conditionals, and it matters
    ":~ Z = #min { M: M = (L+L), M = -Y, M = X, M = -Y, a(X) }; p(Y) : q(Y), Y = 3. [(Z+1)@Y,Y,Z]",
    "h(X) :- 1 <= #sum { L: not M != Y, p(M), not M != (L+L) }, p(Y) : Y = 2, q(Y).",
    # the anonymous variable on either side of an equality
    "a(X) :- p(X), X = _.",
    "a(X) :- p(X), _ = X, q(Y), not Y != _.",
    "a :- #sum{ L : p(L), L = _; M : M = _, q(M,_) }, p(L) : q(L), L = _.",
    # objective: weight, priority, tuple and body share one UniqueVariables object
    ":~ p(X+1), q(-X). [X*2@Y+1, X-1]",
    ":~ p(AUX+1), q(AUX0) : r(AUX0*2). [AUX*2@AUX1, -AUX]",
    # negated chain, chain in conditions
    "a :- X=1, Y=3, Z=2, not X < Y < Z.",
    "a :- 2 { not X < 3 < 2 : d(X), 1 < X < 4 }, b : 1 < 2 < 3 ; not not 1 < 2 < 3.",
]

# ---------------------------------------------------------------- the run

def _sx(p):
    return ser.parse_sexp(ser.prog(p))


class Job:
    __slots__ = ("op", "text", "request", "impl", "feats", "nontrivial")

    def __init__(self, op, text, request, impl, feats, nontrivial):
        self.op, self.text, self.request, self.impl, self.feats, self.nontrivial = op, text, request, impl, feats, nontrivial


def jobs_for(text, res, prg=None):
    """build the jobs (requests + real results) for one program text; bookkeeping into res"""
    jobs = []
    if prg is None:
        prg = parse(text)
    if prg is None:
        res["histogram"]["unparsable"] = res["histogram"].get("unparsable", 0) + 1
        return jobs

    def unsupported(why):
        res["unsupported"] += 1
        k = "unsupported:" + why
        res["histogram"][k] = res["histogram"].get(k, 0) + 1

    # ---- A
    try:
        req = f"(pre_unpool {ser.prog(prg)} {agg_locs(prg)})"
        inp = _sx(prg)
    except ser.Unsupported:
        unsupported("ser")
        return jobs
    try:
        out = real_pre_unpool(prg)
        impl = _sx(out)
    except ser.Unsupported:
        impl = None
        unsupported("ser")
    except Exception:  # pylint: disable=broad-except
        impl = "error"
    if impl is not None:
        jobs.append(Job("pre_unpool", text, req, impl, features_a(prg), impl == "error" or impl != inp))

    def job_exline(tag, p, sp):
        xin = ser.parse_sexp(sp)
        try:
            out = N.exline_arithmetic(p)
            impl = _sx(out)
        except ser.Unsupported:
            unsupported("ser")
            return None
        except Exception:  # pylint: disable=broad-except
            out, impl = None, "error"
        fs = {tag}
        if impl != xin:
            fs.add(tag + ":changed")
            if any(s.ast_type == ASTType.Minimize for s in p):
                fs.add(tag + ":changed_with_minimize")
        jobs.append(Job("exline", text, f"(exline {sp})", impl, fs, impl != xin))
        return out

    def job_inline(tag, p):
        try:
            sp = ser.prog(p)
        except ser.Unsupported:
            unsupported("ser")
            return
        try:
            out, gl, differs = real_inline(p)
            if zlib.crc32(sp.encode("utf8")) % 10 == 0:  # statement-wise = whole program (sampled: expensive)
                whole = N.inline_arithmetic(p)
                assert [str(x) for x in whole] == [str(x) for x in out]
            impl = _sx(out)
        except GvFailure:
            unsupported("global_vars_inside_body raises")
            return
        except ser.Unsupported:
            unsupported("ser")
            return
        except Exception:  # pylint: disable=broad-except
            impl, differs = "error", False
            gl = "(" + " ".join("()" for _ in p) + ")"
        xin = ser.parse_sexp(sp)
        fs = {tag}
        if impl != xin:
            fs.add(tag + ":changed")
        if differs:
            fs.add("C:gv_differs_between_the_two_calls")
        jobs.append(Job("inline_arith", text, f"(inline_arith {sp} {gl})", impl, fs, impl != xin))

    # ---- B, C on the raw program (pools are still there: the `collect_ast(lit, "Pool")` branches)
    sraw = ser.prog(prg)
    job_exline("B:raw", prg, sraw)
    job_inline("C:raw", prg)

    # ---- B, C on the really preprocessed program
    try:
        pre = N.preprocess(prg)
        spre = ser.prog(pre)
    except ser.Unsupported:
        unsupported("ser")
        return jobs
    except Exception:  # pylint: disable=broad-except
        res["histogram"]["preprocess_raises"] = res["histogram"].get("preprocess_raises", 0) + 1
        return jobs
    ex = job_exline("B:pre", pre, spre)
    job_inline("C:pre", pre)
    if ex is not None:
        job_inline("C:exlined", ex)
    return jobs


def texts(rng, n_gen):
    """n_gen generated/mutated program texts"""
    base = [t for _, t in corpus.harvest()]
    out = []
    for _ in range(n_gen):
        r = rng.random()
        if r < 0.3:
            out.append(gen.random_program(rng))
        elif r < 0.5:
            t = rng.choice(base) if rng.random() < 0.6 else gen.random_program(rng)
            for _ in range(rng.choice([1, 1, 2])):
                t = gen.mutate(rng, t)
            out.append(t)
        elif r < 0.75:
            out.append(norm_program(rng))
        elif r < 0.92:
            out.append(inl_program(rng))
        else:
            t = norm_program(rng)
            out.append(gen.mutate(rng, t))
    return out


def evaluate(all_texts, res, hand=()):
    jobs = []
    for t in all_texts:
        jobs.extend(jobs_for(t, res))
    for sx in hand:
        for j in jobs_for(sx, res, ser.from_sexp_prog(sx)):
            j.feats.add("handcrafted")
            jobs.append(j)
    CH = 1500
    for i in range(0, len(jobs), CH):
        chunk = jobs[i:i + CH]
        answers = leanio.run_batch([j.request for j in chunk])
        for j, a in zip(chunk, answers):
            if a and a[0] == "unsupported":
                res["unsupported"] += 1
                k = "unsupported:lean:" + (a[1][1] if len(a) > 1 else "")
                res["histogram"][k] = res["histogram"].get(k, 0) + 1
                continue
            res["evaluations"] += 1
            if j.nontrivial:
                res["nontrivial"] += 1
            k = j.op
            res["histogram"][k] = res["histogram"].get(k, 0) + 1
            for f in j.feats:
                res["histogram"][f] = res["histogram"].get(f, 0) + 1
            if a[0] == "err":
                model = "error"
                res["histogram"][j.op + ":error"] = res["histogram"].get(j.op + ":error", 0) + 1
            elif a[0] == "ok":
                model = a[1]
            else:
                model = a
            if model != j.impl:
                res["mismatches"].append({"op": j.op, "program": j.text, "impl": j.impl, "model": model})
    return res


def new_result():
    return {"evaluations": 0, "nontrivial": 0, "mismatches": [], "unsupported": 0, "histogram": {}}


def run(rng, n_gen, with_corpus=True, corpus_limit=None) -> dict:
    res = new_result()
    harvested = [t for _, t in corpus.harvest()]
    if corpus_limit is not None and len(harvested) > corpus_limit:
        harvested = rng.sample(harvested, corpus_limit)
    ts = (harvested + EXTRA) if with_corpus else []
    ts += texts(rng, n_gen)
    return evaluate(ts, res, handcrafted() if with_corpus else ())


def _show(x, n=1500):
    def p(v):
        if isinstance(v, tuple):
            return ser.q(v[1])
        if isinstance(v, list):
            return "(" + " ".join(p(y) for y in v) + ")"
        return str(v)
    s = p(x)
    return s if len(s) <= n else s[:n] + "…"


def first_diff(a, b, path=""):
    if isinstance(a, list) and isinstance(b, list):
        for i, (x, y) in enumerate(zip(a, b)):
            if x != y:
                return first_diff(x, y, f"{path}/{i}")
        return f"{path}: lengths {len(a)} vs {len(b)}"
    return f"{path}: impl {_show(a, 300)}  model {_show(b, 300)}"


def main():
    n_gen = int(sys.argv[1]) if len(sys.argv) > 1 else 2000
    total = new_result()
    for seed in (0, 1, 2):
        r = run(random.Random(seed), n_gen, with_corpus=(seed == 0))
        for k in ("evaluations", "nontrivial", "unsupported"):
            total[k] += r[k]
        total["mismatches"].extend(r["mismatches"])
        for k, v in r["histogram"].items():
            total["histogram"][k] = total["histogram"].get(k, 0) + v
        print(f"seed {seed}: evaluations={r['evaluations']} nontrivial={r['nontrivial']} "
              f"unsupported={r['unsupported']} mismatches={len(r['mismatches'])}", flush=True)
    print("TOTAL evaluations", total["evaluations"], "nontrivial", total["nontrivial"], "unsupported", total["unsupported"],
          "mismatches", len(total["mismatches"]))
    for k in sorted(total["histogram"]):
        print(f"  {k:55s} {total['histogram'][k]}")
    for m in total["mismatches"][:8]:
        print("---- MISMATCH", m["op"])
        print(m["program"])
        if isinstance(m["impl"], list) and isinstance(m["model"], list):
            print("  first difference at", first_diff(m["impl"], m["model"]))
        else:
            print("  impl ", _show(m["impl"], 600))
            print("  model", _show(m["model"], 600))
    return 1 if total["mismatches"] else 0


if __name__ == "__main__":
    sys.exit(main())
