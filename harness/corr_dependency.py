"""correspondence of the Lean model Model/Dependency.lean with ngo.dependency.DomainPredicates

    PYTHONPATH=/tmp/model/dependency/harness:/repo/src /venv/bin/python corr_dependency.py

`run(rng, n_gen)` evaluates, on every program of corpus.harvest() and on `n_gen` generated / mutated programs
(after `ngo.normalize.preprocess`; a fraction also as parsed):

 * `dep_static`, `dep_info`: `_not_static`, `has_domain` over the predicates of the program, `_too_complex`,
   `domains` (sets compared as sorted lists, `domains.items()` in insertion order);
 * `dep_domain` for every predicate of the program (+ a foreign one), each on a fresh object;
 * `dep_next`, `dep_chain` for predicates x annotated positions x position (+ sloppy annotations), fresh objects;
 * `dep_seq` / `dep_seq_each`: a random sequence of create_domain / next / chain / add_domain_rule requests
   (with repetitions) on ONE object.

Rule lists are compared exactly and in order after `ser.stm`.  A Python exception corresponds to
`(err "py: …")` (type not compared); `(err "fuel: …")` is always a mismatch; `(unsupported …)` answers are counted
and never compared.  The model treats `x.unpool(condition=True)` as the identity on the programs it accepts: if
Python's unpooling changes a program the model accepted, that is reported as a mismatch too.
"""
from __future__ import annotations

import itertools
import logging
import os
import random
import sys

sys.path.insert(0, os.path.dirname(os.path.abspath(__file__)))

from clingo.ast import ASTType, SymbolicAtom  # noqa: E402

import corpus  # noqa: E402
import gen  # noqa: E402
import leanio  # noqa: E402
import ser  # noqa: E402

from ngo.dependency import DomainPredicates  # noqa: E402
from ngo.normalize import preprocess  # noqa: E402
from ngo.utils import ast as U  # noqa: E402
from ngo.utils.ast import AnnotatedPredicate, Predicate  # noqa: E402
from ngo.utils.globals import UniqueNames  # noqa: E402

logging.disable(logging.CRITICAL)

ERROR = "error"
FULL_ORIGINS = ("dependency", "minmax_aggregates", "sum_aggregates", "symmetry")


# ---------------------------------------------------------------- generator: programs with domains

def d_args(rng, pool, ar, arith=0.1):
    out = []
    for _ in range(ar):
        r = rng.random()
        if r < 0.78:
            out.append(rng.choice(pool))
        elif r < 0.86:
            out.append(rng.choice(["1", "2", "a", "_"]))
        elif r < 0.86 + arith:
            out.append(f"{rng.choice(pool)}{rng.choice(['+1', '*2', '-1'])}")
        elif r < 0.97:
            out.append(f"f({rng.choice(pool)})")
        else:
            out.append("1..3")
    return out


D_PREDS = [("a", 1), ("b", 1), ("c", 2), ("d", 1), ("e", 2), ("g", 1), ("h", 3), ("p", 1), ("p1", 1), ("q", 2),
           ("r", 1), ("s", 0), ("t", 1)]
EVIL = [("__dom_a", 1), ("__dom_p", 1), ("__dom_p1", 1), ("__dom_c", 2), ("__min_0_0a", 1), ("__max_0_0a", 1),
        ("__next_0_0a", 2), ("__min_0_0__dom_a", 1), ("__next_0_0__dom_a", 2), ("__chain_0_0__max___dom_a", 1),
        ("__chain_0_0__min_a", 1), ("__dom_a1", 1), ("__min__0a", 1)]


def d_atom(rng, pool, preds, arith=0.1):
    name, ar = rng.choice(preds)
    if ar == 0:
        return name
    return f"{name}({','.join(d_args(rng, pool, ar, arith))})"


def d_body_lit(rng, pool, preds):
    r = rng.random()
    if r < 0.6:
        return d_atom(rng, pool, preds, 0.04)
    if r < 0.72:
        return rng.choice(["not ", "not ", "not not "]) + d_atom(rng, pool, preds, 0.04)
    if r < 0.82:
        return f"{rng.choice(pool)} {rng.choice(['<', '!=', '=', '<=', '='])} {rng.choice(pool + ['1', '2'])}" \
               f"{rng.choice(['', '', '+1'])}"
    if r < 0.9:
        v = rng.choice(pool + ["L"])
        return (f"{rng.choice(pool)} {rng.choice(['=', '=', '<='])} "
                f"{rng.choice(['#sum', '#count', '#max', '#min'])} {{ {v},{rng.choice(pool)} : "
                f"{d_atom(rng, pool + ['L'], preds, 0)}{rng.choice(['', ', ' + d_atom(rng, pool + ['L'], preds, 0)])} }}")
    if r < 0.96:
        return f"{rng.choice(['', '', 'not '])}{d_atom(rng, pool + ['L'], preds, 0)} : {d_atom(rng, pool + ['L'], preds, 0)}"
    if r < 0.98:
        return f"-{d_atom(rng, pool, [p for p in preds if p[1] > 0] or [('a', 1)], 0)}"
    return f"{rng.choice(['', '1 '])}{{ {d_atom(rng, pool, preds, 0)} : {d_atom(rng, pool, preds, 0)} }}{rng.choice(['', ' 1'])}"


def split_preds(rng, preds, layered):
    """(head predicates, body predicates); layered: body predicates come before the head predicates in `preds`"""
    if layered and len(preds) > 1 and rng.random() < 0.92:
        k = rng.randrange(1, len(preds))
        hp, bp = preds[k:], preds[:k]
    else:
        hp, bp = preds, preds
    if not [q for q in bp if q[1] > 0]:
        bp = bp + [("b", 1)]
    if not [q for q in hp if q[1] > 0]:
        hp = hp + [("t", 1)]
    return hp, bp


def d_rule(rng, preds, layered=False):
    hp, bp = split_preds(rng, preds, layered)
    pool = rng.sample(["X", "Y", "Z", "W"], rng.choice([1, 2, 2, 3]))
    n = rng.choice([0, 1, 1, 2, 2, 3])
    body = [d_body_lit(rng, pool, bp) for _ in range(n)]
    r = rng.random()
    if r < 0.5:
        head = d_atom(rng, pool, hp, 0.12)
    elif r < 0.8:
        els = []
        for _ in range(rng.choice([1, 1, 2])):
            a = rng.choice(["", "", "", "not "]) + d_atom(rng, pool + ["L"], hp, 0.05)
            c = ", ".join(d_atom(rng, pool + ["L"], bp, 0) for _ in range(rng.choice([0, 1, 1, 2])))
            els.append(f"{a} : {c}" if c else a)
        head = f"{rng.choice(['', '', '1 '])}{{ {'; '.join(els)} }}{rng.choice(['', '', ' 1'])}"
    elif r < 0.88:
        els = []
        for _ in range(rng.choice([2, 2, 3])):
            a = rng.choice(["", "", "", "not "]) + d_atom(rng, pool, hp, 0.05)
            c = d_atom(rng, pool, bp, 0) if rng.random() < 0.4 else ""
            els.append(f"{a} : {c}" if c else a)
        if rng.random() < 0.06:
            els.append(rng.choice(["#false", "X = 1", "-a(X)"]))
        head = "; ".join(els)
    elif r < 0.95:
        els = []
        for _ in range(rng.choice([1, 2])):
            a = rng.choice(["", "", "", "not "]) + d_atom(rng, pool + ["L"], hp, 0.05)
            c = d_atom(rng, pool + ["L"], bp, 0) if rng.random() < 0.6 else ""
            els.append(f"{rng.choice(pool + ['1'])},{rng.choice(pool + ['L'])} : {a}" + (f" : {c}" if c else ""))
        head = f"{rng.choice(['', '1 <= '])}{rng.choice(['#sum', '#count', '#max'])} {{ {'; '.join(els)} }} {rng.choice(['<= 2', '>= 1'])}"
    elif r < 0.97:
        head = ""
    elif r < 0.985:
        head = "-" + d_atom(rng, pool, [q for q in hp if q[1] > 0], 0)
    else:
        head = "not " + d_atom(rng, pool, hp, 0)
    if not head and not body:
        body = [d_atom(rng, pool, bp)]
    return f"{head} :- {'; '.join(body)}." if body else f"{head}."


def d_safe_rule(rng, preds, layered=False):
    """a rule whose head variables are bound by positive body atoms: the shape that gets a domain"""
    hp, bp = split_preds(rng, preds, layered)
    pool = rng.sample(["X", "Y", "Z"], rng.choice([1, 2, 2, 3]))
    name, ar = rng.choice(hp)
    hv = [rng.choice(pool) for _ in range(ar)]
    hargs = [v if rng.random() < 0.9 else rng.choice([f"{v}+1", f"f({v})", "1", "1..2"]) for v in hv]
    body = []
    need = list(dict.fromkeys(hv))
    rng.shuffle(need)
    while need:
        bn, bar = rng.choice([q for q in bp if q[1] > 0])
        args = [need.pop() if need and rng.random() < 0.8 else rng.choice(pool + ["_", "1"]) for _ in range(bar)]
        body.append(f"{bn}({','.join(args)})")
    for _ in range(rng.choice([0, 0, 1, 2])):
        body.append(d_body_lit(rng, pool, bp))
    rng.shuffle(body)
    h = f"{name}({','.join(hargs)})" if ar else name
    r = rng.random()
    if r < 0.45:
        head = h
    elif r < 0.85:
        c = d_atom(rng, pool + ["L"], bp, 0) if rng.random() < 0.4 else ""
        head = f"{{ {h}{' : ' + c if c else ''}{rng.choice(['', '', '; ' + d_atom(rng, pool, hp, 0)])} }}"
    elif r < 0.93:
        head = f"{h} ; {d_atom(rng, pool, hp, 0)}"
    else:
        head = f"1 <= #sum {{ 1,{rng.choice(pool)} : {h} }} <= 2"
    return f"{head} :- {'; '.join(body)}." if body else f"{head}."


def dep_program(rng) -> str:
    preds = rng.sample(D_PREDS, rng.choice([3, 4, 5, 6, 8]))
    if rng.random() < 0.3:
        preds += rng.sample(EVIL, rng.choice([1, 2, 3]))
        rng.shuffle(preds)
    n = rng.choice([2, 3, 4, 5, 6, 8, 10])
    layered = rng.random() < 0.7
    rules = [d_safe_rule(rng, preds, layered) if rng.random() < (0.8 if layered else 0.65) else d_rule(rng, preds, layered)
             for _ in range(n)]
    for _ in range(rng.choice([0, 1, 2, 3])):
        name, ar = rng.choice(preds[:3] if layered else preds)
        rules.append(f"{name}({','.join(rng.choice(['1', '2', 'a', '1..3']) for _ in range(ar))})." if ar else f"{name}.")
    if rng.random() < 0.15:
        rules.append(rng.choice(["#show a/1.", ":~ a(X). [X@1]", "#minimize { X : p(X) }.", "#external t(X) : a(X).",
                                 "#const n = 3."]))
    rng.shuffle(rules)
    return "\n".join(rules)


TEST_PROGRAMS = [
    # several defining rules, the dynamic sum / the cyclic predicate NOT in the last one (too_complex_rules looks at every rule)
    "{assign(T,W)} :- task(T), worker(W). load(W,L) :- worker(W), L = #sum{D,T : assign(T,W), dur(T,D)}. load(W,0) :- idle(W). m(M) :- M = #max{L : load(_,L)}.",
    "{a(X)} :- d(X). c(X,N) :- d(X), N = #count{Y : a(Y), Y < X}. c(X,0) :- e(X). c(X,1) :- f(X). g :- c(X,N), c(Y,N), X != Y.",
    "{a(X)} :- d(X). p(X) :- q(X), a(X). q(X) :- p(X), d(X). r(X) :- q(X). r(X) :- d(X), e(X). m(M) :- M = #min{X : r(X)}.",
    "{a(X)} :- d(X). s(X) :- d(X), 1 <= #sum{Y : a(Y)}. s(X) :- e(X). s(X) :- f(X), not g(X). h :- s(A), s(B), A != B.",
    "{a(X)} :- c(X). b(X) :- -q(X), a(X).",
    "{ -a }.",
    "a ; #false.",
    "-p(X) :- q(X).",
    "{a(X)} :- b(X). __dom_a(X) :- b(X).",
    "{p(X)} :- b(X). {p1(X)} :- b(X). __dom_p(X) :- b(X).",
    "{p1(X)} :- b(X). {p(X)} :- p1(X). __dom_p(X) :- b(X). c(X) :- p(X).",
    "{a(X)} :- b(X). c(X) :- a(X). d(X) :- c(X), a(X). {e(X,Y)} :- d(X), c(Y).",
    "{a(X)} :- b(X). c(X,Y) :- a(X), a(Y). c(X,X) :- b(X).",
    "{a(X)} :- b(X). c(X) :- a(X), not c(X).",
    "{a(X)} :- b(X). c(X) :- a(X), X = #sum { Y : a(Y) }.",
    "{a(X)} :- b(X). c(X) :- b(X), X = #sum { Y : a(Y) }.",
    "{a(X)} :- b(X). c(X) :- b(X), a(Y) : b(Y).",
    "{a(X)} :- b(X). c(_) :- a(X).",
    "{a(X) : b(X)}. c(X) :- a(X). {d(X) : c(X)} :- c(Y).",
    "a(X) :- b(X). b(X) :- a(X). {c(X)} :- a(X). d(X) :- c(X).",
    "{a(X)} :- b(X). __min_0_0__dom_a(1). __next_0_0__dom_a(1,2). c(X) :- a(X).",
    "{a(X,Y)} :- b(X), b(Y). {c(X,Y,Z)} :- a(X,Y), b(Z).",
    "{a(X)} :- b(X), { c(X) } 1.",
    "{a(X)} :- b(X). :~ a(X). [X@1]",
]


# ---------------------------------------------------------------- real side

def real(f):
    try:
        return f()
    except Exception:  # pylint: disable=broad-except  (type not compared)
        return ERROR


def all_preds(prg) -> set:
    res = set()
    for stm in prg:
        for sp in U.predicates(stm):
            res.add(sp.pred)
    return res


def plist(ps):
    return [[p.name, str(p.arity)] for p in ps]


def rules_val(rules):
    return [ser.parse_sexp(ser.stm(r)) for r in rules]


def flat(x):
    if isinstance(x, list):
        for y in x:
            yield from flat(y)
    else:
        yield x


def build(prg, inputs):
    return DomainPredicates(UniqueNames(prg, inputs), prg)


def run_request(dp, req):
    """one request on the object -> list of rules (may raise)"""
    k = req[0]
    if k == "domain":
        return rules_val(list(dp.create_domain(req[1])))
    if k == "next":
        return rules_val(list(dp.create_next_pred_for_annotated_pred(AnnotatedPredicate(req[1], tuple(req[2])), req[3])))
    if k == "chain":
        return rules_val(list(dp.create_chain_pred_for_annotated_pred(AnnotatedPredicate(req[1], tuple(req[2])), req[3],
                                                                      req[4])))
    if k == "add_rule":
        dp.add_domain_rule(req[1], [(SymbolicAtom(h), list(c)) for h, c in req[2]])
        return []
    raise ValueError(req)


def q_apred(p, positions):
    return f"({ser.q(p.name)} {p.arity} ({' '.join(str(i) for i in positions)}))"


def q_request(req) -> str:
    k = req[0]
    if k == "domain":
        return f"(domain {ser.pred(req[1])})"
    if k == "next":
        return f"(next {q_apred(req[1], req[2])} {req[3]})"
    if k == "chain":
        return f"(chain {q_apred(req[1], req[2])} {req[3]} {1 if req[4] else 0})"
    if k == "add_rule":
        return f"(add_rule {ser.pred(req[1])} ({' '.join(f'({ser.term(h)} {ser.body(c)})' for h, c in req[2])}))"
    raise ValueError(req)


# ---------------------------------------------------------------- model answers

def is_py_error(msg: str) -> bool:
    """`py: …` (Model/Dependency.lean) and `assert: …` (Model/Binding.lean) are Python exceptions"""
    return msg.startswith("py:") or msg.startswith("assert")


def decode(op, ans):
    k = ans[0]
    if k == "unsupported":
        return None
    if k == "err":
        msg = ser._s(ans[1])  # pylint: disable=protected-access
        return ERROR if is_py_error(msg) else "MODEL-" + msg
    assert k == "ok", ans
    if op == "dep_static":
        return [[[ser._s(p[0]), p[1]] for p in ans[1]], [[ser._s(p[0]), p[1]] for p in ans[2]]]  # pylint: disable=protected-access
    if op == "dep_info":
        return [[[ser._s(p[0]), p[1]] for p in ans[1]], [[ser._s(p[0]), p[1]] for p in ans[2]],  # pylint: disable=protected-access
                [[ser._s(kv[0][0]), kv[0][1], ser._s(kv[1][0]), kv[1][1]] for kv in ans[3]]]  # pylint: disable=protected-access
    if op in ("dep_domain", "dep_next", "dep_chain", "dep_seq"):
        return list(ans[1:])
    if op == "dep_seq_each":
        res = []
        for a in ans[1:]:
            if a[0] == "ok":
                res.append(list(a[1:]))
            else:
                msg = ser._s(a[1])  # pylint: disable=protected-access
                res.append(ERROR if is_py_error(msg) else "MODEL-" + msg)
        return res
    raise ValueError(op)


class Collector:
    def __init__(self):
        self.reqs: list[str] = []
        self.meta: list[tuple] = []
        self.unsupported = 0
        self.hist: dict[str, int] = {}

    def bump(self, key, n=1):
        self.hist[key] = self.hist.get(key, 0) + n

    def add(self, op, text, build_req, value, nontrivial, branch, unpool_changed):
        try:
            req = build_req()
        except ser.Unsupported:
            self.unsupported += 1
            self.bump("unsupported:ser")
            return
        self.reqs.append(req)
        self.meta.append((op, text, value, nontrivial, branch, unpool_changed))


def position_choices(rng, pred, full):
    """(annotated positions, position) pairs for a predicate"""
    n = pred.arity
    res = []
    if n <= 3:
        for k in range(n + 1):
            for ann in itertools.combinations(range(n), k):
                for pos in range(n + 1):
                    res.append((ann, pos))
    else:
        for _ in range(6):
            ann = tuple(sorted(rng.sample(range(n), rng.randint(0, n))))
            res.append((ann, rng.randrange(n + 1)))
    # sloppy annotations: unsorted, duplicates, out of range
    res.append(((0, 0), 0))
    res.append(((n, 0), 0))
    res.append(((n + 1,), n + 1))
    if n >= 2:
        res.append(((1, 0), 1))
    if not full and len(res) > 4:
        res = rng.sample(res, 4)
    return res


def program_cases(col: Collector, rng, text, prg, tag, full):
    """all ops on one (already preprocessed or raw) program"""
    unp = [y for x in prg for y in x.unpool(condition=True)]
    unpool_changed = [str(x) for x in unp] != [str(x) for x in prg]
    universe = sorted(all_preds(prg))
    r = rng.random()
    if r < 0.5:
        inputs = []
    elif r < 0.8:
        inputs = [Predicate(n, a) for n, a in rng.sample(EVIL, 3)]
    else:
        inputs = [p for p in universe if rng.random() < 0.3] + [Predicate("__dom_zz", 1)]
    try:
        sp = ser.prog(prg)
    except ser.Unsupported:
        col.unsupported += 1
        col.bump("unsupported:ser")
        return
    sin = ser.preds(inputs)
    uni = sorted(set(universe) | set(inputs))

    def add(op, req_tail, value, nontrivial, branch):
        col.add(op, text, lambda: f"({op} {sp} {sin}{req_tail})", value, nontrivial, f"{branch}", unpool_changed)

    # ---- analysis
    dp = real(lambda: build(prg, inputs))
    if dp == ERROR:
        add("dep_static", "", ERROR, True, f"static:{tag}:constructor raises")
        add("dep_domain", f" {ser.pred(Predicate('a', 1))}", ERROR, True, f"domain:{tag}:constructor raises")
        add("dep_seq", " ((domain (\"a\" 1)))", ERROR, True, f"seq:{tag}:constructor raises")
        return
    nonstatic = sorted(dp._not_static)  # pylint: disable=protected-access
    hasdom = [p for p in uni if dp.has_domain(p)]
    add("dep_static", "", [plist(nonstatic), plist(hasdom)], bool(nonstatic), f"static:{tag}")
    doms = [[k.name, str(k.arity), v.name, str(v.arity)] for k, v in dp.domains.items()]
    add("dep_info", "", [plist(nonstatic), plist(sorted(dp._too_complex)), doms], bool(doms),  # pylint: disable=protected-access
        f"info:{tag}:{'domains' if doms else 'no domains'}")
    if doms:
        col.bump(f"programs with a computed domain ({tag})")
    if any(v.name != "__dom_" + k.name for k, v in dp.domains.items()):
        col.bump("cov: domain name needed a counter")
    if dp._too_complex:  # pylint: disable=protected-access
        col.bump("cov: programs with cyclic (too complex) predicates")
    domnames = {v.name for v in dp.domains.values()}
    # ---- create_domain, every predicate, fresh object
    targets = list(uni) + [Predicate("zz", 1)] + [v for v in dp.domains.values()][:1]
    for p in targets:
        v = real(lambda p=p: rules_val(list(build(prg, inputs).create_domain(p))))
        add("dep_domain", f" {ser.pred(p)}", v, v != ERROR and bool(v),
            f"domain:{tag}:" + ("raises" if v == ERROR else ("rules" if v else "empty")))
        if v != ERROR and len({ser._s(r[3][2][1][1]) for r in v}) > 1:  # pylint: disable=protected-access
            col.bump("cov: create_domain emitted the domain of another predicate (nested)")
        if v != ERROR and any(("s", n) in flat(r[4]) for r in v for n in domnames):
            col.bump("cov: create_domain rule with a replaced condition predicate")
    # ---- templates
    cands = [p for p in targets if p.arity <= 4]
    if not full and len(cands) > 3:
        cands = rng.sample(cands, 3)
    all_reqs = []
    good_reqs = []
    good_targets = [p for p in targets if dp.has_domain(p)]
    for p in cands:
        for ann, pos in position_choices(rng, p, full):
            vn = real(lambda p=p, ann=ann, pos=pos: run_request(build(prg, inputs), ("next", p, ann, pos)))
            add("dep_next", f" {q_apred(p, ann)} {pos}", vn, vn != ERROR, f"next:{tag}:" + ("raises" if vn == ERROR else "rules"))
            mx = rng.random() < 0.5
            v = real(lambda p=p, ann=ann, pos=pos, mx=mx: run_request(build(prg, inputs), ("chain", p, ann, pos, mx)))
            add("dep_chain", f" {q_apred(p, ann)} {pos} {1 if mx else 0}", v, v != ERROR,
                f"chain:{tag}:" + ("raises" if v == ERROR else "rules"))
            if len(ann) <= p.arity + 1:
                all_reqs.append(("next", p, ann, pos))
                all_reqs.append(("chain", p, ann, pos, mx))
                all_reqs.append(("chain", p, ann, pos, not mx))
                if vn != ERROR:
                    good_reqs.append(("next", p, ann, pos))
                if v != ERROR:
                    good_reqs.append(("chain", p, ann, pos, mx))
                    good_reqs.append(("chain", p, ann, pos, not mx))
    # ---- sequences on one object
    rules = [s for s in prg if s.ast_type == ASTType.Rule]
    for i_seq in range(4 if full else 2):
        seq = []
        good = i_seq % 2 == 0  # only requests that do not raise on a fresh object
        for _ in range(rng.choice([3, 5, 8, 12])):
            x = rng.random()
            if x < 0.4 or not all_reqs:
                seq.append(("domain", rng.choice(good_targets if good and good_targets else targets)))
            elif x < 0.9:
                seq.append(rng.choice(good_reqs if good and good_reqs else all_reqs))
            else:
                # add_domain_rule with the head / body of a rule of the program
                heads = [s for s in rules if s.head.ast_type == ASTType.Literal
                         and s.head.atom.ast_type == ASTType.SymbolicAtom and s.head.atom.symbol.ast_type == ASTType.Function]
                if heads:
                    s = rng.choice(heads)
                    sym = s.head.atom.symbol
                    if rng.random() < 0.6:
                        sym = sym.update(name=rng.choice(["nw", "__dom_nw", "a"]))
                    pr = Predicate(sym.name, len(sym.arguments))
                    seq.append(("add_rule", pr, [(sym, list(s.body))]))
                    seq.append(("domain", pr))
                    if pr.arity:
                        seq.append(("next", pr, tuple(range(pr.arity)), 0))
        if rng.random() < 0.5 and seq:
            seq = seq + rng.sample(seq, min(len(seq), 3))  # repetitions
        dp2 = build(prg, inputs)
        each = [real(lambda rq=rq: run_request(dp2, rq)) for rq in seq]
        try:
            tail = f" ({' '.join(q_request(rq) for rq in seq)})"
        except ser.Unsupported:
            col.unsupported += 1
            col.bump("unsupported:ser")
            continue
        n_err = sum(1 for e in each if e == ERROR)
        add("dep_seq_each", tail, each, any(e != ERROR and e for e in each),
            f"seq_each:{tag}:" + ("some raise" if n_err else "no exception"))
        if n_err:
            cat = ERROR
        else:
            cat = [r for e in each for r in e]
        add("dep_seq", tail, cat, cat != ERROR and bool(cat), f"seq:{tag}:" + ("raises" if cat == ERROR else "rules"))
        if any(rq[0] == "add_rule" for rq in seq):
            col.bump("sequences with add_domain_rule")


def text_cases(col: Collector, rng, label, text):
    kind = label.split(":")[0]
    full = kind in ("tests",) or (kind == "corpus" and label.split(":")[1] in FULL_ORIGINS)
    prg = corpus.parses(text)
    if prg is None:
        col.bump("skip:unparsable")
        return
    try:
        pre = preprocess(prg)
    except Exception:  # pylint: disable=broad-except
        col.bump("skip:preprocess raised")
        pre = None
    if pre is not None:
        program_cases(col, rng, text, pre, "pre", full)
    if rng.random() < 0.15:
        program_cases(col, rng, text, prg, "raw", False)


def make_texts(rng, n_gen, corpus_limit=None):
    harvested = corpus.harvest()
    texts = [(f"corpus:{o}", t) for o, t in harvested]
    if corpus_limit is not None and len(texts) > corpus_limit:
        texts = rng.sample(texts, corpus_limit)
    texts += [("tests", t) for t in TEST_PROGRAMS]
    for i in range(n_gen):
        r = rng.random()
        if r < 0.25:
            texts.append((f"gen:{i}", gen.random_program(rng)))
        elif r < 0.45:
            base = rng.choice(harvested)[1] if rng.random() < 0.6 else gen.random_program(rng)
            for _ in range(rng.choice([1, 1, 2, 3])):
                base = gen.mutate(rng, base)
            texts.append((f"mut:{i}", base))
        elif r < 0.9:
            texts.append((f"dep:{i}", dep_program(rng)))
        else:
            base = dep_program(rng)
            for _ in range(rng.choice([1, 2])):
                base = gen.mutate(rng, base)
            texts.append((f"depmut:{i}", base))
    return texts


def evaluate(col: Collector, answers) -> dict:
    res = {"evaluations": 0, "nontrivial": 0, "mismatches": [], "unsupported": col.unsupported,
           "histogram": col.hist}
    for (op, text, value, nontrivial, branch, unpool_changed), ans, req in zip(col.meta, answers, col.reqs):
        model = decode(op, ans)
        if model is None:
            res["unsupported"] += 1
            col.bump("unsupported:lean:" + ser._s(ans[1])[:40])  # pylint: disable=protected-access
            continue
        res["evaluations"] += 1
        col.bump("op:" + op)
        col.bump(branch)
        if value == ERROR:
            col.bump("python raised")
        if nontrivial:
            res["nontrivial"] += 1
        if unpool_changed:
            res["mismatches"].append({"op": op + ":unpool is not the identity", "program": text, "impl": value,
                                      "model": model, "request": req})
        elif model != value:
            res["mismatches"].append({"op": op, "program": text, "impl": value, "model": model, "request": req})
    return res


def _work(items, chunk=3000) -> dict:
    """items: list of (label, text, seed of the private rng of this text)"""
    col = Collector()
    for label, text, seed in items:
        text_cases(col, random.Random(seed), label, text)
    answers = []
    for i in range(0, len(col.reqs), chunk):
        answers.extend(leanio.run_batch(col.reqs[i:i + chunk], timeout=7200))
    return evaluate(col, answers)


def merge(results) -> dict:
    total = {"evaluations": 0, "nontrivial": 0, "mismatches": [], "unsupported": 0, "histogram": {}}
    for r in results:
        for k in ("evaluations", "nontrivial", "unsupported"):
            total[k] += r[k]
        total["mismatches"].extend(r["mismatches"])
        for k, v in r["histogram"].items():
            total["histogram"][k] = total["histogram"].get(k, 0) + v
    return total


def run(rng, n_gen, corpus_limit=None, workers=None) -> dict:
    """every random choice derives from `rng`: the texts, then one private seed per text (so the work can be
    spread over `workers` processes, env WORKERS, without changing the cases)"""
    workers = workers if workers is not None else int(os.environ.get("WORKERS", "8"))
    items = [(label, text, rng.getrandbits(64)) for label, text in make_texts(rng, n_gen, corpus_limit)]
    size = 20
    chunks = [items[i:i + size] for i in range(0, len(items), size)]
    if workers > 1 and len(chunks) > 1:
        import multiprocessing
        with multiprocessing.Pool(workers) as pool:
            results = pool.map(_work, chunks, chunksize=1)
    else:
        results = [_work(c) for c in chunks]
    return merge(results)


def main():
    n_gen = int(os.environ.get("N_GEN", "2000"))
    seeds = [int(s) for s in os.environ.get("SEEDS", "0,1,2").split(",")]
    limit = os.environ.get("CORPUS_LIMIT")
    results = [run(random.Random(seed), n_gen, corpus_limit=int(limit) if limit is not None else None) for seed in seeds]
    for seed, r in zip(seeds, results):
        print(f"seed {seed}: evaluations={r['evaluations']} nontrivial={r['nontrivial']} "
              f"mismatches={len(r['mismatches'])} unsupported={r['unsupported']}", flush=True)
    total = merge(results)
    print(f"TOTAL: evaluations={total['evaluations']} nontrivial={total['nontrivial']} "
          f"mismatches={len(total['mismatches'])} unsupported={total['unsupported']}")
    for k in sorted(total["histogram"]):
        print(f"  {k:60s} {total['histogram'][k]}")
    for m in total["mismatches"][:10]:
        print("MISMATCH", m["op"])
        print("  program:", m["program"].replace("\n", " ")[:400])
        print("  request:", m["request"][-300:])
        print("  impl   :", str(m["impl"])[:700])
        print("  model  :", str(m["model"])[:700])
    return 1 if total["mismatches"] else 0


if __name__ == "__main__":
    sys.exit(main())
