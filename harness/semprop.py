"""shared runner for the semantic (equivalence) properties: Lean obligations + pass correspondence + clingo oracle"""
from __future__ import annotations

import json

import core
import corpus
import gen
import hyp
import semcheck


def oracle_cases(ctx, flags_list, relation, n_corpus, n_mut, origins=None, n_inst=4, facts_over="in", outp="auto",
                 extra_programs=(), one_to_one=True, inp="auto", decl_mix=False, n_hand=None):
    rng = ctx.rng
    if decl_mix:
        # declarations vary per case: ngo's own detection, detected inputs plus some derived predicates, random outputs
        class _Mix:
            def __init__(self, kind):
                self.kind = kind
        inp, outp = _Mix("in"), _Mix("out")

    def pick(x, k):
        if hasattr(x, "kind"):
            r = rng.random()
            if x.kind == "in":
                return "auto" if r < 0.6 else ("auto+", k)
            return "auto" if r < 0.5 else ("random", k)
        return x
    H = corpus.harvest()
    if origins:
        pref = [x for x in H if x[0] in origins]
        rest = [x for x in H if x[0] not in origins]
    else:
        pref, rest = H, []
    cases = []
    k = 0
    chosen = list(pref)
    rng.shuffle(chosen)
    chosen = chosen[:n_corpus]
    if len(chosen) < n_corpus and rest:
        chosen += rng.sample(rest, min(len(rest), n_corpus - len(chosen)))
    # the first `n_hand` extra programs are the hand-written ones of the property module: they get five cases (two when
    # several flag vectors are run) of 14 instances each; generator programs and programs handed over by a correspondence get one case of 14 instances
    given = {}
    fixed_inp = {}
    for i, text in enumerate(extra_programs):
        if isinstance(text, dict):            # {"program":…, "inp": [[name, arity]…], "instances": […]}: declared inputs are part of the case
            fixed_inp[text["program"]] = [list(x) for x in text["inp"]]
            given[text["program"]] = list(text.get("instances", []))
            text = text["program"]
        elif isinstance(text, (tuple, list)):   # (program, [instances that must be among those tried])
            text, insts = text[0], list(text[1])
            given[text] = insts
        chosen.append(("hand" if n_hand is None or i < n_hand else "extra", text))
    for origin, text in chosen:
        for flags in flags_list:
            # the hand-written and targeted programs get more instances: two cases with 14 instances each
            for _ in range((5 if len(flags_list) == 1 else 2) if origin == "hand" else 1):
                k += 1
                cases.append(dict(program=text, inp=fixed_inp.get(text) or pick(inp, k), outp=pick(outp, k), flags=flags, relation=relation,
                                  seed=ctx.seed * 1000003 + k, n_inst=(14 if origin in ("extra", "hand") else n_inst), facts_over=facts_over,
                                  label=f"corpus:{origin}", one_to_one=one_to_one, extra_instances=given.get(text, [])))
    pool = pref or H
    for j in range(n_mut):
        base = rng.choice(pool)[1]
        m = base
        for _ in range(rng.choice([1, 1, 2])):
            m = gen.mutate(rng, m)
        flags = rng.choice(flags_list)
        k += 1
        cases.append(dict(program=m, inp=pick(inp, k), outp=pick(outp, k), flags=flags, relation=relation, seed=ctx.seed * 1000003 + k,
                          n_inst=n_inst, facts_over=facts_over, label="mutated", one_to_one=one_to_one))
    return cases


def run_oracle(ctx, cases, pid_keys):
    """evaluate cases on the real code; classify failures against the known findings of this property"""
    known = {f["id"]: f for f in core.findings_by_site(ctx)}
    import os, time
    _t = time.time()
    results = semcheck.pool_map(semcheck.evaluate_case, cases)
    if os.environ.get("VERIF_PROFILE"):
        print(f"[profile]   oracle evaluation of {len(cases)} cases: {time.time() - _t:.1f} s", flush=True)
    failures = []
    for case, r in zip(cases, results):
        st = r.get("status")
        if st in ("unparsable", "killed", None):
            ctx.cov["skipped"] += 1
            continue
        if st == "crash":
            # an exception is C03's business; it is counted here and not attributed to this property
            ctx.cov["skipped"] += 1
            ctx.cov["histogram"]["oracle:crash(C03)"] = ctx.cov["histogram"].get("oracle:crash(C03)", 0) + 1
            continue
        ctx.cov["skipped"] += r.get("skipped", 0)
        nontriv = bool(r.get("changed")) and r.get("compared", 0) > 0
        ctx.count("oracle:" + case["program"] + json.dumps(case["flags"], sort_keys=True), nontriv,
                  branch="oracle:" + ("changed" if r.get("changed") else "unchanged"),
                  sample={"program": case["program"][:200], "traits": [t for t, v in case["flags"].items() if v],
                          "result": (r.get("result") or "")[:200], "instances_compared": r.get("compared", 0)})
        if st in ("mismatch", "broken-result"):
            failures.append((case, r))
    # minimisation + classification of the failing cases is independent per case: do it in the pool, too
    # exact duplicates (same program, traits, instance - e.g. the same hand-written program run twice) are classified once
    seen, uniq = set(), []
    for case, r in failures:
        key = (r.get("program"), json.dumps(r.get("flags"), sort_keys=True), r.get("instance"), str(r.get("inp")), str(r.get("outp")))
        if key not in seen:
            seen.add(key)
            uniq.append((case, r))
    failures = uniq
    _t = time.time()
    classified = semcheck.pool_map(_classify, [r for _, r in failures], task_timeout=600) if failures else []
    if os.environ.get("VERIF_PROFILE"):
        print(f"[profile]   minimisation + classification of {len(failures)} failing cases: {time.time() - _t:.1f} s", flush=True)
    for (case, r), c in zip(failures, classified):
        if not isinstance(c, dict) or "small" not in c:
            c = _classify(r)   # a killed classification is repeated in the parent: a failure is never dropped
        apply_classification(ctx, case, c["small"], c["keys"], known)
    return results


def _classify(r):
    small = semcheck.minimise(r)
    return {"small": small, "keys": sorted(hyp.falsified(small["program"], small["flags"], small))}


def handle_failure(ctx, case, r, known):
    c = _classify(r)
    apply_classification(ctx, case, c["small"], c["keys"], known)


def apply_classification(ctx, case, small, keys, known):
    keys = set(keys)
    fid = None
    for k, f in known.items():
        if f.get("key") in keys:
            fid = k
            break
    if fid is not None:
        ctx.known_hits.setdefault(fid, {"what": known[fid]["what"]})
        return
    ctx.violations.append({"kind": "the optimised program is not equivalent to the source on this instance (real code, clingo)",
                           "why": small.get("why"), "program": small["program"], "instance": small.get("instance"),
                           "flags": small["flags"], "inp": small["inp"], "outp": small["outp"], "relation": small["relation"],
                           "result": small.get("result"), "source_only_models": small.get("source_models"),
                           "result_only_models": small.get("result_models"), "falsified_hypotheses": sorted(keys),
                           "original_case": case.get("label")})


def replay_known(ctx):
    """replay every listed witness of this property on the real code; print KNOWN-FINDING only while it still fails"""
    for f in core.findings_for(ctx):
        w = f.get("witness", {})
        if "instance" not in w and "instances" not in w:
            continue
        case = dict(program=w["program"], inp=w.get("inp", "auto"), outp=w.get("outp", "auto"),
                    flags=semcheck.flags_only(*w.get("traits", [])), relation=w.get("relation", "voc"), seed=0,
                    instances=w.get("instances") or [w["instance"]], label="known:" + f["id"])
        r = semcheck.evaluate_case(case)
        if r.get("status") in ("mismatch", "broken-result"):
            ctx.known_hits.setdefault(f["id"], {"what": f["what"]})


def _decl(x):
    return tuple(x) if isinstance(x, list) and len(x) == 2 and x[0] in ("auto+", "random") else x


def replay(ctx, data) -> int:
    case = dict(program=data["program"], inp=_decl(data.get("inp", "auto")), outp=_decl(data.get("outp", "auto")), flags=data["flags"],
                relation=data.get("relation", "voc"), seed=0, instances=[data.get("instance", "")], label="replay")
    r = semcheck.evaluate_case(case)
    print(json.dumps({k: r.get(k) for k in ("status", "why", "instance", "result", "source_models", "result_models")}, indent=1))
    return 1 if r.get("status") in ("mismatch", "broken-result") else 0
