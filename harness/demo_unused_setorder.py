"""demo: the result of UnusedTranslator.remove_single_copies can depend on the iteration order of a Python set
(Mapper.__init__ calls make_unique for the head variables in hash order); the order even changes between processes.
Prints, for shuffled head-variable orders, the real result next to the model's answer (`unsupported`: order-dependent).
Run: PYTHONPATH=harness:/repo/src /venv/bin/python harness/demo_unused_setorder.py"""
import random

from clingo.ast import parse_string

import leanio
import ser
from ngo.normalize import preprocess
from ngo.unused import UnusedTranslator
from ngo.utils.globals import auto_detect_input, auto_detect_output


def both(text):
    prg = []
    parse_string(text, prg.append)
    prg = preprocess(prg)
    ins, outs = auto_detect_input(prg), auto_detect_output(prg)
    req = f"(unused {ser.prog(prg)} {ser.preds(ins)} {ser.preds(outs)})"
    impl = " ".join(map(str, UnusedTranslator(prg, ins, outs).execute(prg)))
    a = leanio.run_batch([req])[0]
    model = " ".join(map(str, ser.r_prog(a[1]))) if a[0] == "ok" else str(a)
    print(text, "\n  impl :", impl, "\n  model:", model)


rng = random.Random(1)
base = ["X"] + [f"X{i}" for i in range(10)]
for _ in range(4):
    vs = base[:]
    rng.shuffle(vs)
    for fresh in ("X10", "X11"):
        use = [str(i) for i in range(11)]
        use[vs.index("X")] = fresh
        use[vs.index("X1")] = "Z"
        both(f"a({','.join(vs)}) :- b({','.join(vs)}). c({fresh},Z) :- a({','.join(use)}). #show c/2.")
