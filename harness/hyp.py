"""Decidable hypotheses of the `_partial` theorems, evaluated on a (minimised) failing input.

`falsified(program_text, flags, record)` returns the set of keys that are FALSE for this input.  A failing input is
attributed to a known finding only if it falsifies that finding's key; an input that satisfies every hypothesis lies
where the property is proved for the model, so its failure is a new violation.
"""
from __future__ import annotations

import re

from clingo.ast import AggregateFunction, ASTType, ComparisonOperator, Sign, UnaryOperator, BinaryOperator

import astspec
import corpus

TEMPLATE_VARS = {"X", "P", "N", "B", "L", "AUX", "__NEXT", "__PREV"}


def walk(node):
    yield node
    for c in astspec.children(node):
        yield from walk(c)


def variables(node):
    return [n.name for n in walk(node) if n.ast_type == ASTType.Variable]


def body_of(stm):
    return list(stm.body) if stm.ast_type in (ASTType.Rule, ASTType.Minimize) else []


def is_eq_lit(lit):
    """X = t or t = X (or not X != t) with X a variable; returns (var name, other term) candidates"""
    out = []
    if lit.ast_type != ASTType.Literal or lit.atom.ast_type != ASTType.Comparison or len(lit.atom.guards) != 1:
        return out
    g = lit.atom.guards[0]
    ok = (lit.sign == Sign.NoSign and g.comparison == ComparisonOperator.Equal) or \
         (lit.sign == Sign.Negation and g.comparison == ComparisonOperator.NotEqual)
    if not ok:
        return out
    if lit.atom.term.ast_type == ASTType.Variable:
        out.append((lit.atom.term.name, g.term))
    if g.term.ast_type == ASTType.Variable:
        out.append((g.term.name, lit.atom.term))
    return out


def all_literals(stm):
    """every Literal node below the statement (bodies, conditions, aggregate elements)"""
    return [n for n in walk(stm) if n.ast_type == ASTType.Literal]


def falsified(text, flags, rec=None):
    prg = corpus.parses(text) or []
    keys = set()
    on = {t for t, v in (flags or {}).items() if v}
    rules = [s for s in prg if s.ast_type in (ASTType.Rule, ASTType.Minimize)]
    for stm in rules:
        lits = all_literals(stm)
        for lit in lits:
            # D3: occurs check
            for v, t in is_eq_lit(lit):
                if v in variables(t) and t.ast_type != ASTType.Variable:
                    keys.add("Hyp_occurs_check")
            # D8: negated chain
            if lit.atom.ast_type == ASTType.Comparison and lit.sign != Sign.NoSign and len(lit.atom.guards) >= 2:
                keys.add("Hyp_no_neg_chain")
            # D5: non-unit coefficients / non-linear arithmetic next to math
            if "math" in on and lit.atom.ast_type == ASTType.Comparison:
                for n in walk(lit.atom):
                    if n.ast_type == ASTType.BinaryOperation and n.operator_type in (
                            BinaryOperator.Multiplication, BinaryOperator.Division, BinaryOperator.Modulo, BinaryOperator.Power):
                        if variables(n):
                            keys.add("Hyp_unit_coeff")
                    if n.ast_type == ASTType.UnaryOperation and n.operator_type == UnaryOperator.Absolute:
                        keys.add("Hyp_unit_coeff")
        # pools / classical negation
        for sg, sym in astspec.sym_atoms(stm):
            if sym.ast_type == ASTType.Pool:
                keys.add("Hyp_no_pool")
            if sym.ast_type == ASTType.UnaryOperation:
                keys.add("Hyp_no_classical_negation")
        # D7: template variables in a rule with a min/max aggregate
        if "minmax_chains" in on or "sum_chains" in on or "symmetry" in on:
            if TEMPLATE_VARS & set(variables(stm)):
                keys.add("Hyp_template_vars")
        if stm.ast_type == ASTType.Rule:
            h = stm.head
            # D24: several head elements derive the same predicate
            if h.ast_type in (ASTType.Aggregate, ASTType.Disjunction, ASTType.HeadAggregate):
                sigs = []
                for e in h.elements:
                    l = e.condition.literal if h.ast_type == ASTType.HeadAggregate else e.literal
                    for _, s in astspec.sym_atoms(l):
                        sigs.extend(astspec.sigs(s))
                if len(sigs) != len(set(sigs)):
                    keys.add("Hyp_one_element_per_pred")
            # D25: interval in a head argument
            for sg, s in astspec.head_derived(stm):
                if any(n.ast_type == ASTType.Interval for n in walk(s)):
                    keys.add("Hyp_no_head_interval")
    # D26: #external over a derived predicate
    derived = set()
    for stm in prg:
        derived.update(astspec.pos_head(stm))
    for stm in prg:
        if stm.ast_type == ASTType.External:
            if set(astspec.sigs(stm.atom.symbol)) & derived:
                keys.add("Hyp_no_external_derived")
    # D15: two min/max aggregates on one source line
    lines = {}
    for stm in rules:
        for n in walk(stm):
            if n.ast_type == ASTType.BodyAggregate and n.function in (AggregateFunction.Min, AggregateFunction.Max):
                lines.setdefault(stm.location.begin.line, set()).add(str(stm))
    if any(len(v) > 1 for v in lines.values()):
        keys.add("Hyp_one_agg_per_line")
    # D19 (evaluated operationally): ngo's own normal form (all traits off) of a safe program is rejected by clingo
    if rec is not None and rec.get("status") == "broken-result":
        try:
            import oracle
            import semcheck
            _, base, _, _, err = semcheck.run_optimize(text, rec.get("inp", "auto"), rec.get("outp", "auto"), semcheck.flags_only())
            if err is None:
                try:
                    oracle.solve_text(semcheck.text_of(base) + "\n" + (rec.get("instance") or ""), None, with_cost=False)
                except oracle.Broken:
                    keys.add("Hyp_inline_safe")
                except oracle.Skip:
                    pass
        except RuntimeError:
            pass
    return keys
