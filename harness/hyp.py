"""Decidable hypotheses of the `_partial` theorems, evaluated on a (minimised) failing input.

`falsified(program_text, flags, record)` returns the set of keys that are FALSE for this input.  A failing input is
attributed to a known finding only if it falsifies that finding's key; an input that satisfies every hypothesis lies
where the property is proved for the model, so its failure is a new violation.
"""
from __future__ import annotations

import re

from clingo.ast import AggregateFunction, ASTType, ComparisonOperator, Sign, UnaryOperator, BinaryOperator

import astspec
import corpus

TEMPLATE_VARS = {"X", "P", "N", "B", "L", "AUX", "__NEXT", "__PREV"}


def walk(node):
    yield node
    for c in astspec.children(node):
        yield from walk(c)


def variables(node):
    return [n.name for n in walk(node) if n.ast_type == ASTType.Variable]


def _preds_of(node):
    return {(sym.name, len(sym.arguments)) for _, sym in astspec.sym_atoms(node) if sym.ast_type == ASTType.Function}


def body_of(stm):
    return list(stm.body) if stm.ast_type in (ASTType.Rule, ASTType.Minimize) else []


def variables_of_body(stm):
    out = []
    for l in body_of(stm):
        out.extend(variables(l))
    return out


def variables_of_outer(stm, agg):
    """variables of the statement outside the given aggregate (they are global, hence fixed per instance)"""
    out = []
    def rec(n):
        if n.ast_type == ASTType.BodyAggregate and n == agg:
            return
        if n.ast_type == ASTType.Variable:
            out.append(n.name)
        for c in astspec.children(n):
            rec(c)
    rec(stm)
    return out


def is_eq_lit(lit):
    """X = t or t = X (or not X != t) with X a variable; returns (var name, other term) candidates"""
    out = []
    if lit.ast_type != ASTType.Literal or lit.atom.ast_type != ASTType.Comparison or len(lit.atom.guards) != 1:
        return out
    g = lit.atom.guards[0]
    ok = (lit.sign == Sign.NoSign and g.comparison == ComparisonOperator.Equal) or \
         (lit.sign == Sign.Negation and g.comparison == ComparisonOperator.NotEqual)
    if not ok:
        return out
    if lit.atom.term.ast_type == ASTType.Variable:
        out.append((lit.atom.term.name, g.term))
    if g.term.ast_type == ASTType.Variable:
        out.append((g.term.name, lit.atom.term))
    return out


def all_literals(stm):
    """every Literal node below the statement (bodies, conditions, aggregate elements)"""
    return [n for n in walk(stm) if n.ast_type == ASTType.Literal]


def _antitone_domain_rule(text, rec):
    try:
        import semcheck
        from ngo.dependency import DomainPredicates
        from ngo.normalize import preprocess
        from ngo.utils.ast import Predicate
        from ngo.utils.globals import UniqueNames
        prg = semcheck.parse(text)
        inputs, _ = semcheck.resolve_declarations(prg, text, rec.get("inp", "auto"), rec.get("outp", "auto"))
        prg = preprocess(prg)
        dp = DomainPredicates(UniqueNames(prg, inputs), prg)

        def dynamic(node):
            for n in walk(node):
                if n.ast_type == ASTType.SymbolicAtom and n.symbol.ast_type == ASTType.Function:
                    name = n.symbol.name
                    orig = [k for k, v in dp.domains.items() if v.name == name and v.arity == len(n.symbol.arguments)]
                    if any(not dp.is_static(k) for k in orig) or not dp.is_static(Predicate(name, len(n.symbol.arguments))):
                        return True
            return False
        for rules in dp.domain_rules.values():
            for _, condition in rules:
                for c in condition:
                    if c.ast_type == ASTType.Literal and c.sign == Sign.Negation and dynamic(c):
                        return True
                    if c.ast_type == ASTType.ConditionalLiteral and (
                            any(dynamic(x) for x in c.condition) or (c.literal.sign == Sign.Negation and dynamic(c.literal))):
                        return True
    except Exception:  # noqa - attribution must never crash a check; an unattributed failure stays a violation
        return False
    return False


def _derived_input_domain(text, rec):
    try:
        import semcheck
        from ngo.dependency import DomainPredicates
        from ngo.normalize import preprocess
        from ngo.utils.globals import UniqueNames
        prg = semcheck.parse(text)
        inputs, _ = semcheck.resolve_declarations(prg, text, rec.get("inp", "auto"), rec.get("outp", "auto"))
        prg = preprocess(prg)
        dp = DomainPredicates(UniqueNames(prg, inputs), prg)
        # (later passes rename / project the domain predicate, so its own name need not survive in the result: the
        # call site is "DomainPredicates computed a domain for a declared input predicate from its rules alone" and the
        # caller already requires that the result uses domain predicates)
        for p in inputs:
            if p in dp.domains:
                return True
    except Exception:  # noqa
        return False
    return False


def _copy_rule_in_trace(text, flags, rec):
    try:
        import semcheck
        stages = []
        semcheck.run_optimize(text, rec.get("inp", "auto"), rec.get("outp", "auto"), flags,
                              trace=lambda stage, it, prg: stages.append((stage, list(prg))))
        for (s0, p0), (s1, _) in zip(stages, stages[1:]):
            if s1 != "unused":
                continue
            for stm in p0:
                if stm.ast_type == ASTType.Rule and stm.head.ast_type == ASTType.Literal and len(stm.body) == 1 and \
                        stm.head.atom.ast_type == ASTType.SymbolicAtom and stm.head.atom.symbol.ast_type == ASTType.Function:
                    hv = [a.name for a in stm.head.atom.symbol.arguments if a.ast_type == ASTType.Variable]
                    if len(hv) != len(set(hv)):
                        return True
    except Exception:  # noqa
        return False
    return False


def falsified(text, flags, rec=None):
    prg = corpus.parses(text) or []
    keys = set()
    on = {t for t, v in (flags or {}).items() if v}
    rules = [s for s in prg if s.ast_type in (ASTType.Rule, ASTType.Minimize)]
    for stm in rules:
        lits = all_literals(stm)
        for lit in lits:
            # D3: occurs check
            for v, t in is_eq_lit(lit):
                if v in variables(t) and t.ast_type != ASTType.Variable:
                    keys.add("Hyp_occurs_check")
            # D8: negated chain
            if lit.atom.ast_type == ASTType.Comparison and lit.sign != Sign.NoSign and len(lit.atom.guards) >= 2:
                keys.add("Hyp_no_neg_chain")
        # D3, transitively: the equalities of one body depend on each other in a cycle ('Y = X*3, X = Y+1'): inlining them
        # one after the other substitutes a variable into its own definition (the same missing occurs check)
        deps = {}
        compound = False
        for lit in lits:
            for v, t in is_eq_lit(lit):
                deps.setdefault(v, set()).update(x for x in variables(t) if x != v)
                compound = compound or t.ast_type != ASTType.Variable

        def _reach(a, b, seen):
            for n in deps.get(a, ()):
                if n == b:
                    return True
                if n not in seen:
                    seen.add(n)
                    if _reach(n, b, seen):
                        return True
            return False
        if compound and any(_reach(v, v, set()) for v in deps):
            keys.add("Hyp_occurs_check")
        # D5: non-unit coefficients / non-linear arithmetic next to math (in comparisons or ex-lined atom arguments)
        if "math" in on:
            for n in walk(stm):
                if n.ast_type == ASTType.BinaryOperation and n.operator_type in (
                        BinaryOperator.Multiplication, BinaryOperator.Division, BinaryOperator.Modulo, BinaryOperator.Power):
                    if variables(n):
                        keys.add("Hyp_unit_coeff")
                if n.ast_type == ASTType.UnaryOperation and n.operator_type == UnaryOperator.Absolute:
                    keys.add("Hyp_unit_coeff")
        # pools / classical negation
        for sg, sym in astspec.sym_atoms(stm):
            if sym.ast_type == ASTType.Pool:
                keys.add("Hyp_no_pool")
            if sym.ast_type == ASTType.UnaryOperation:
                keys.add("Hyp_no_classical_negation")
        baggs = [n for n in walk(stm) if n.ast_type == ASTType.BodyAggregate]
        minmax = [a for a in baggs if a.function in (AggregateFunction.Min, AggregateFunction.Max)]
        # (D7, hard-wired __PREV/__NEXT/X of the min/max chain: repaired in /repo, e4b7945 and c4aa55f; no key any more)
        # D12 / C12a: a negated #min/#max literal
        if "minmax_chains" in on:
            for lit in lits:
                if lit.sign != Sign.NoSign and lit.atom.ast_type == ASTType.BodyAggregate and \
                        lit.atom.function in (AggregateFunction.Min, AggregateFunction.Max):
                    keys.add("Hyp_no_neg_minmax")
        # D13: an objective whose body assigns aggregate values, with body variables missing from the tuple
        if stm.ast_type == ASTType.Minimize and ("inline" in on or "math" in on):
            assigned = [l for l in stm.body if l.ast_type == ASTType.Literal and l.atom.ast_type == ASTType.BodyAggregate]
            if assigned:
                tuple_vars = set(variables(stm.weight)) | set(v for t in stm.terms for v in variables(t))
                body_vars = set()
                for l in stm.body:
                    if l.ast_type == ASTType.Literal and l.atom.ast_type == ASTType.SymbolicAtom:
                        body_vars |= set(variables(l))
                if (body_vars - tuple_vars - {"_"}) or stm.weight.ast_type != ASTType.Variable:
                    keys.add("Hyp_tuple_covers")
        # D16 / C13b: an anonymous argument in an atom inside a #sum element or an objective body (group of a chain)
        if "sum_chains" in on:
            places = []
            for a in baggs:
                for e in a.elements:
                    places.extend(e.condition)
            if stm.ast_type == ASTType.Minimize:
                places.extend(stm.body)
            for l in places:
                if l.ast_type == ASTType.Literal and l.atom.ast_type == ASTType.SymbolicAtom and "_" in variables(l):
                    keys.add("Hyp_no_anon_group")
        # D37: a #sum element whose tuple does not contain every variable of its condition atoms: equal values of
        #      different groups are one tuple in the source and distinct chain tuples afterwards
        if "sum_chains" in on:
            for a in baggs:
                if a.function in (AggregateFunction.Sum, AggregateFunction.SumPlus):
                    for e in a.elements:
                        tv = set(v for t in e.terms for v in variables(t))
                        cv = set()
                        for l in e.condition:
                            if l.ast_type == ASTType.Literal and l.atom.ast_type == ASTType.SymbolicAtom:
                                cv |= set(variables(l))
                        if (cv - tv - {"_"}) - set(variables_of_outer(stm, a)):
                            keys.add("Hyp_tuple_covers_group")
        # C11b: symmetry next to an aggregate that mentions a compared variable
        if "symmetry" in on and baggs:
            cmpvars = set()
            for l in stm.body if hasattr(stm, "body") else []:
                if l.ast_type == ASTType.Literal and l.atom.ast_type == ASTType.Comparison:
                    cmpvars |= set(variables(l))
            aggvars = set(v for a in baggs for v in variables(a))
            if cmpvars & aggvars:
                keys.add("Hyp_sym_vars_outside_agg")
        # D39: three or more pairwise different variables are ordered as ONE chain although the other literals of the rule
        # do not treat them alike (one of them occurs in fewer / more literals than another)
        if "symmetry" in on and hasattr(stm, "body"):
            neq = set()
            for l in stm.body:
                if l.ast_type == ASTType.Literal and l.atom.ast_type == ASTType.Comparison and len(l.atom.guards) == 1 \
                        and l.atom.term.ast_type == ASTType.Variable and l.atom.guards[0].term.ast_type == ASTType.Variable:
                    op = l.atom.guards[0].comparison
                    if (l.sign == Sign.NoSign and op == ComparisonOperator.NotEqual) or \
                            (l.sign == Sign.Negation and op == ComparisonOperator.Equal):
                        neq.add(frozenset((l.atom.term.name, l.atom.guards[0].term.name)))
            vs_ = sorted(set(v for p_ in neq for v in p_))
            import itertools
            for trio in itertools.combinations(vs_, 3):
                if all(frozenset(pr) in neq for pr in itertools.combinations(trio, 2)):
                    def uses(v):
                        return sum(1 for l in stm.body if v in variables(l) and not (
                            l.ast_type == ASTType.Literal and l.atom.ast_type == ASTType.Comparison
                            and set(variables(l)) <= set(trio)))
                    if len({uses(v) for v in trio}) > 1:
                        keys.add("Hyp_sym_clique_uniform")
        # D40: two variables compared with each other (!=, <, >, not =) that symmetry may exchange are not used alike by the
        # symbolic literals of the body: one of them also sits at another position of the copies, or in a literal of
        # another group (positions as a multiset of (predicate, arity, sign, argument position))
        if "symmetry" in on and hasattr(stm, "body"):
            def _uses(v, lits_):
                out = []
                for l in lits_:
                    if l.ast_type == ASTType.Literal and l.atom.ast_type == ASTType.SymbolicAtom and \
                            l.atom.symbol.ast_type == ASTType.Function:
                        for k_, a_ in enumerate(l.atom.symbol.arguments):
                            for _ in range(variables(a_).count(v)):
                                out.append((l.atom.symbol.name, len(l.atom.symbol.arguments), int(l.sign), k_))
                return sorted(out)
            scopes = [list(stm.body)]
            for a in baggs:
                for e in a.elements:
                    scopes.append(list(e.condition) + list(stm.body))
            for sc in scopes:
                for l in sc:
                    if l.ast_type == ASTType.Literal and l.atom.ast_type == ASTType.Comparison and len(l.atom.guards) == 1 \
                            and l.atom.term.ast_type == ASTType.Variable and l.atom.guards[0].term.ast_type == ASTType.Variable:
                        a_, b_ = l.atom.term.name, l.atom.guards[0].term.name
                        ua, ub = _uses(a_, sc), _uses(b_, sc)
                        if a_ != b_ and ua and ub and ua != ub and {x[:3] for x in ua} & {x[:3] for x in ub}:
                            keys.add("Hyp_sym_pair_uniform")
        # D41: inline into an aggregate with sibling elements, or of several objectives: the `unique` padding of the new
        # tuples is computed from the wrong length, unfolded tuples can collide with a sibling / with each other
        if "inline" in on:
            helper_preds = set()
            for s2 in rules:
                if s2.ast_type == ASTType.Rule and s2.head.ast_type == ASTType.Literal and \
                        s2.head.atom.ast_type == ASTType.SymbolicAtom and s2.head.atom.symbol.ast_type == ASTType.Function and \
                        any(l.ast_type == ASTType.Literal and l.atom.ast_type == ASTType.BodyAggregate for l in s2.body):
                    helper_preds.add((s2.head.atom.symbol.name, len(s2.head.atom.symbol.arguments)))
            for a in baggs:
                if len(a.elements) >= 2 and any(q in helper_preds for e in a.elements for c_ in e.condition
                                                for q in _preds_of(c_)):
                    keys.add("Hyp_inline_padding")
            mins = [s2 for s2 in rules if s2.ast_type == ASTType.Minimize]
            if stm.ast_type == ASTType.Minimize and len(mins) >= 2 and len({len(m.terms) for m in mins}) >= 2 and \
                    sum(1 for m in mins if any(l.ast_type == ASTType.Literal and l.atom.ast_type == ASTType.BodyAggregate
                                               for l in m.body) or any(q in helper_preds for l in m.body for q in _preds_of(l))) >= 2:
                keys.add("Hyp_inline_padding")
        # D42: duplication factors out a conditional literal / an aggregate whose condition uses a variable that is global
        # only through a literal that stays behind (the expected output of a stored test pins the shape)
        if "duplication" in on and hasattr(stm, "body"):
            for l in stm.body:
                scoped = l.ast_type == ASTType.ConditionalLiteral or (
                    l.ast_type == ASTType.Literal and l.atom.ast_type in (ASTType.BodyAggregate, ASTType.Aggregate))
                if scoped:
                    others = set()
                    for l2 in stm.body:
                        if l2 is not l:
                            others |= set(variables(l2))
                    if stm.ast_type == ASTType.Rule:
                        others |= set(variables(stm.head))
                    if (set(variables(l)) - {"_"}) & others:
                        keys.add("Hyp_dup_scoped_globals")
        # D43: a #const name in an objective's tuple: `n` and its value are different terms for `potentially_unifying`
        if stm.ast_type == ASTType.Minimize:
            consts = {d.name for d in prg if d.ast_type == ASTType.Definition}
            tuple_text = " ".join(str(t) for t in [stm.weight, stm.priority, *stm.terms])
            if any(re.search(rf"(?<![A-Za-z0-9_]){re.escape(c)}(?![A-Za-z0-9_(])", tuple_text) for c in consts):
                keys.add("Hyp_no_const_in_tuple")
        # C05a: boolean constants as elements of an old-style aggregate
        for n in walk(stm):
            if n.ast_type == ASTType.Aggregate and stm.ast_type in (ASTType.Rule, ASTType.Minimize) and \
                    not (stm.ast_type == ASTType.Rule and n is stm.head):
                bools = [e for e in n.elements if e.literal.atom.ast_type == ASTType.BooleanConstant]
                if len(bools) > 1:
                    keys.add("Hyp_no_bool_oldagg")
                for e in n.elements:
                    if e.literal.sign == Sign.DoubleNegation and "_" in variables(e.literal):
                        keys.add("Hyp_no_anon_dneg_oldagg")
        if stm.ast_type == ASTType.Rule and "unused" in on:
            h0 = stm.head
            if h0.ast_type == ASTType.Literal and h0.atom.ast_type == ASTType.SymbolicAtom and len(stm.body) == 1 and \
                    h0.atom.symbol.ast_type == ASTType.Function:
                hv = [a.name for a in h0.atom.symbol.arguments if a.ast_type == ASTType.Variable]
                if len(hv) != len(set(hv)):
                    keys.add("Hyp_copy_distinct_head_vars")
        if stm.ast_type == ASTType.Rule:
            h = stm.head
            # D17: a bounded head aggregate whose element tuple does not determine the element atom
            if "sum_chains" in on and h.ast_type == ASTType.HeadAggregate:
                for e in h.elements:
                    tv = set(v for t in e.terms for v in variables(t))
                    if set(variables(e.condition.literal)) - tv - set(variables_of_body(stm)):
                        keys.add("Hyp_tuple_injective")
            # D24: several head elements derive the same predicate
            if h.ast_type in (ASTType.Aggregate, ASTType.Disjunction, ASTType.HeadAggregate):
                sigs = []
                for e in h.elements:
                    l = e.condition.literal if h.ast_type == ASTType.HeadAggregate else e.literal
                    for _, s in astspec.sym_atoms(l):
                        sigs.extend(astspec.sigs(s))
                if len(sigs) != len(set(sigs)):
                    keys.add("Hyp_one_element_per_pred")
            # D25: interval in a head argument
            for sg, s in astspec.head_derived(stm):
                if any(n.ast_type == ASTType.Interval for n in walk(s)):
                    keys.add("Hyp_no_head_interval")
    # D35: a copy rule next to a variable that looks like a made-unique name
    if "unused" in on:
        allv = set()
        for stm in rules:
            allv |= set(variables(stm))
        copyrule = any(stm.ast_type == ASTType.Rule and stm.head.ast_type == ASTType.Literal and len(stm.body) == 1 and
                       stm.body[0].ast_type == ASTType.Literal and stm.body[0].atom.ast_type == ASTType.SymbolicAtom and
                       stm.head.atom.ast_type == ASTType.SymbolicAtom for stm in rules)
        if copyrule and any(re.fullmatch(r"(.+?)\d+", v) and re.fullmatch(r"(.+?)\d+", v).group(1) in allv for v in allv):
            keys.add("Hyp_copy_no_capture")
    # D26: #external over a derived predicate
    derived = set()
    for stm in prg:
        derived.update(astspec.pos_head(stm))
    for stm in prg:
        if stm.ast_type == ASTType.External:
            if set(astspec.sigs(stm.atom.symbol)) & derived:
                keys.add("Hyp_no_external_derived")
    # D15: two min/max aggregates on one source line
    lines = {}
    for stm in rules:
        for n in walk(stm):
            if n.ast_type == ASTType.BodyAggregate and n.function in (AggregateFunction.Min, AggregateFunction.Max):
                lines.setdefault(stm.location.begin.line, set()).add(str(stm))
    if any(len(v) > 1 for v in lines.values()):
        keys.add("Hyp_one_agg_per_line")
    # D1 (instance dependent): some translated #min/#max faces an empty candidate domain on the failing instance
    if rec is not None and "minmax_chains" in on and rec.get("result"):
        blob = str(rec.get("source_models")) + str(rec.get("result_models"))
        if "#inf" in blob or "#sup" in blob:
            keys.add("Hyp_nonempty_dom")
        doms = set(re.findall(r"\b(__dom___(?:max|min)_\w+?)\(", rec["result"]))
        # the chain may reuse an existing domain predicate (`__dom_sel`): it is the one inside the `#min` of the
        # `__min_.._dom___max_..` rule
        doms |= set(re.findall(r"__dom___(?:max|min)_\w+?\(\w+\) :- \w+ = #(?:min|max) \{ \w+: (\w+)\(", rec["result"]))
        if doms:
            try:
                import clingo
                ctl = clingo.Control(["--warn=none"], logger=lambda c, m: None)
                ctl.add("base", [], rec["result"] + "\n" + (rec.get("instance") or ""))
                ctl.ground([("base", [])])
                present = set(a.symbol.name for a in ctl.symbolic_atoms)
                if any(d not in present for d in doms):
                    keys.add("Hyp_nonempty_dom")
            except RuntimeError:
                pass
    # D6: a generated domain rule copies a negative literal over a non-static predicate
    if rec is not None and rec.get("result"):
        for line in rec["result"].split("\n"):
            if line.startswith("__dom_") and ":-" in line and "not __dom_" in line.split(":-", 1)[1]:
                keys.add("Hyp_dom_positive")
        # later passes (projection, a domain that collapses to a static predicate) can hide the textual shape, so
        # the call site is also identified with ngo's own DomainPredicates on the normalised source: some stored
        # domain rule has an antitone occurrence (a negated literal, the condition of a conditional literal) of a
        # predicate that is not static, and the result does use domain predicates
        if "Hyp_dom_positive" not in keys and "__dom_" in rec["result"] and _antitone_domain_rule(text, rec):
            keys.add("Hyp_dom_positive")
    # D31 at the call site: the program handed to `unused` in the failing run contains a copy rule whose head repeats a
    # variable (an earlier pass - cleanup removing an implied literal - may have produced it from a longer rule)
    if "unused" in on and rec is not None and "Hyp_copy_distinct_head_vars" not in keys and _copy_rule_in_trace(text, flags, rec):
        keys.add("Hyp_copy_distinct_head_vars")
    # D38: a declared input predicate that is also derived gets a domain computed from its rules alone
    if rec is not None and rec.get("result") and "__dom_" in rec["result"] and _derived_input_domain(text, rec):
        keys.add("Hyp_inputs_underived")
    # D33 (instance dependent): the result applies arithmetic to a non-integer where the source did not
    if rec is not None and rec.get("result_undefined") and "math" in on:
        keys.add("Hyp_integers_only")
    # D44 (instance dependent): chain differences / chain weights are computed on every value of the chain's domain; the
    # result of the failing run has such chain terms and grounds with 'operation undefined'/'tuple ignored' where the source does not
    if rec is not None and rec.get("result_undefined") and ("minmax_chains" in on or "sum_chains" in on) and \
            re.search(r"__chain_\d+_\d+__m(ax|in)_", rec.get("result") or ""):
        keys.add("Hyp_integers_only_chain")
    # D32: recursion through an aggregate: the head predicate occurs inside a body aggregate of its own rule
    if "math" in on:
        for stm in rules:
            if stm.ast_type != ASTType.Rule:
                continue
            hp = set(astspec.pos_head(stm))
            inside = set()
            for n in walk(stm):
                if n.ast_type == ASTType.BodyAggregate:
                    for _, sy in astspec.sym_atoms(n):
                        inside.update(astspec.sigs(sy))
            if hp & inside:
                keys.add("Hyp_no_rec_through_agg")
    # D19 (evaluated operationally): ngo's own normal form (all traits off) of a safe program is rejected by clingo
    if rec is not None and rec.get("status") == "broken-result":
        try:
            import oracle
            import semcheck
            _, base, _, _, err = semcheck.run_optimize(text, rec.get("inp", "auto"), rec.get("outp", "auto"), semcheck.flags_only())
            if err is None:
                try:
                    oracle.solve_text(semcheck.text_of(base) + "\n" + (rec.get("instance") or ""), None, with_cost=False)
                except oracle.Broken:
                    keys.add("Hyp_inline_safe")
                except oracle.Skip:
                    pass
        except RuntimeError:
            pass
    return keys
