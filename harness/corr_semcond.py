#!/usr/bin/env python3
"""Side conditions of the end-to-end theorems, evaluated on what the REAL passes did.

The end-to-end theorems (Proofs/C09sem + C09link, Proofs/C11sem) say: *if* a decidable syntactic condition holds, the
rewrite preserves the answer sets.  This script observes the real code performing the rewrite and asks the Lean driver
whether the condition held for the rule / program it was applied to:

* `unused`: `UnusedTranslator.remove_unused` is wrapped; for every call that removes the rules of a predicate n/k the
  driver evaluates `C09sem.Unused n k prg` (and `stmOk`) on the program the real method received.
* `symmetry`: for every rule of the real result that differs from a source rule by exactly one literal `X != Y` -> `X < Y`
  the driver evaluates the decidable parts of `C11sem.Symmetric` on the source rule.

A rewrite whose condition does not hold lies outside the proved fragment: it is counted in the histogram and its
program is returned under "extra_programs" so that it joins the oracle's cases; it is NOT a mismatch and not by itself
a violation (the conditions are sufficient, not necessary).
"""
from __future__ import annotations

import collections
import random
import sys

from clingo.ast import ASTType, ComparisonOperator, Sign

import corpus
import gen
import leanio
import ser
import tgen


def _parse(text):
    return corpus.parses(text)


def _preprocess(prg):
    from ngo.normalize import preprocess
    return preprocess(prg)


def _inputs(prg):
    from ngo import auto_detect_input
    return auto_detect_input(prg)


def plain_head_pred(stm):
    if (stm.ast_type == ASTType.Rule and stm.head.ast_type == ASTType.Literal and stm.head.sign == Sign.NoSign
            and stm.head.atom.ast_type == ASTType.SymbolicAtom and stm.head.atom.symbol.ast_type == ASTType.Function):
        s = stm.head.atom.symbol
        return (s.name, len(s.arguments))
    return None


def unused_observations(prg, inputs, outputs):
    """[(program given to remove_unused as s-expression text, name, arity)] for every predicate whose rules it removed"""
    from ngo.unused import UnusedTranslator
    obs = []
    real = UnusedTranslator.remove_unused

    def wrapped(self, p):
        before = list(p)
        try:
            text = ser.prog(apart_prog(before))
        except Exception:  # noqa - outside the mirror
            text = None
        out = real(self, p)
        if text is not None:
            kept = {id(s) for s in out}
            removed = sorted({plain_head_pred(s) for s in before if id(s) not in kept and plain_head_pred(s)})
            for name, ar in removed:
                obs.append((text, name, ar))
        return out
    UnusedTranslator.remove_unused = wrapped
    try:
        UnusedTranslator(prg, inputs, outputs).execute(prg)
    except Exception:  # noqa - crashes are C03's business
        pass
    finally:
        UnusedTranslator.remove_unused = real
    return obs


class _Apart(__import__("clingo").ast.Transformer):
    """every occurrence of the anonymous variable becomes a variable of its own (`_#k`): that is what `_` means, and the
    Lean semantics has named variables only"""

    def __init__(self):
        self.k = 0

    def visit_Variable(self, node):
        if node.name == "_":
            self.k += 1
            return node.update(name=f"_#{self.k}")
        return node


def apart(node, tr=None):
    return (tr or _Apart())(node)


def apart_prog(prg):
    tr = _Apart()
    return [tr(s) for s in prg]


def projection_observations(prg, inputs):
    """[(orig rule, aux rule, updated rule, context program) as s-expression texts + the real serialisations] per split"""
    from ngo.projection import ProjectionTranslator
    obs = []
    real = ProjectionTranslator.project_rule

    def wrapped(self, stm):
        try:
            before = ser.stm(stm)
        except Exception:  # noqa
            before = None
        out = real(self, stm)
        if before is not None and len(out) == 2:
            try:
                # rename the anonymous variables apart, consistently in the three rules: literal k of the body keeps its
                # new names wherever the pass put it
                tr = _Apart()
                body2 = [tr(l) for l in stm.body]
                used = set()

                def pick(lit):
                    for i, l in enumerate(stm.body):
                        if i not in used and l == lit:
                            used.add(i)
                            return body2[i]
                    raise KeyError("literal of the result is not a literal of the source")
                new2 = [pick(l) for l in out[0].body]
                rest2 = [pick(l) for l in out[1].body[:-1]]
                head2 = tr(stm.head)
                o2 = stm.update(head=head2, body=body2)
                a2 = out[0].update(body=new2)
                u2 = out[1].update(head=head2, body=rest2 + [out[1].body[-1]])
                obs.append((stm, ser.stm(o2), ser.stm(a2), ser.stm(u2)))
            except Exception:  # noqa
                pass
        return out
    ProjectionTranslator.project_rule = wrapped
    try:
        result = ProjectionTranslator(prg, inputs).execute(prg)
    except Exception:  # noqa
        result = None
    finally:
        ProjectionTranslator.project_rule = real
    if result is None:
        return []
    ret = []
    for stm, before, aux, upd in obs:
        try:
            ctx = [s for s in prg if s is not stm and str(s) != str(stm)]
            ret.append((before, aux, upd, ser.prog(ctx)))
        except Exception:  # noqa
            pass
    return ret


def _collect(node, name):
    from ngo.utils.ast import collect_ast
    return collect_ast(node, name)


def cleanup_observations(prg, inputs, backward=False):
    """one request per top-level body literal `cleanup` deleted because another body literal supersedes it:
    (pre, rule before, rule after, post, :- p., :- q.) as s-expression texts, in the order of the deletions, each against the
    program as it was at that moment; + the number of deletions outside the shape of the theorem (inside conditions,
    in objectives)"""
    from clingo.ast import BooleanConstant, Literal, Rule
    from ngo.cleanup import CleanupTranslator
    from ngo.utils.ast import LOC
    cur = {"prg": None, "done": [], "events": [], "calls": 0, "top": True}
    real_find, real_apply = CleanupTranslator._find_superseeded, CleanupTranslator._apply_superseeding
    real_rm, real_sup = CleanupTranslator._remove_superseed_from_list, CleanupTranslator._superseeded

    def find(self, p):
        import copy
        # a DEEP copy: `_apply_superseeding` replaces the elements of body aggregates in place
        cur["prg"] = [copy.deepcopy(x) for x in p]
        return real_find(self, p)

    def apply(self, stm):
        cur["calls"], cur["events"] = 0, []
        out = real_apply(self, stm)
        cur["done"].append((stm, out, list(cur["events"])))
        return out

    def rm(self, body):
        cur["calls"] += 1
        cur["top"] = cur["calls"] == 1
        return real_rm(self, body)

    def sup(self, lhs, rhs):
        r = real_sup(self, lhs, rhs)
        if r:
            cur["events"].append((cur["top"], lhs, rhs))
        return r
    CleanupTranslator._find_superseeded, CleanupTranslator._apply_superseeding = find, apply
    CleanupTranslator._remove_superseed_from_list, CleanupTranslator._superseeded = rm, sup
    try:
        CleanupTranslator(inputs).execute(prg)
    except Exception:  # noqa - crashes are C03's business
        return [], 0
    finally:
        CleanupTranslator._find_superseeded, CleanupTranslator._apply_superseeding = real_find, real_apply
        CleanupTranslator._remove_superseed_from_list, CleanupTranslator._superseeded = real_rm, real_sup
    if cur["prg"] is None or len(cur["done"]) != len(cur["prg"]):
        return [], 0
    false = Literal(LOC, Sign.NoSign, BooleanConstant(False))
    fwd = _cleanup_chain(cur, range(len(cur["done"])), false, Rule, LOC)
    if not backward:
        return fwd
    # the same deletions, the statements taken from the last to the first: every step is the same literal deleted from the
    # same rule, against the program as it is at that moment of THIS order.  (The pass decides all deletions on the
    # untouched program; a deletion justified by a rule that an earlier step has already shortened is justified in the
    # other order.  Any order of proved steps is a proof for the final program.)
    return fwd, _cleanup_chain(cur, range(len(cur["done"]) - 1, -1, -1), false, Rule, LOC)


def _cleanup_chain(cur, order, false, Rule, LOC):
    current = list(cur["prg"])
    obs, other = [], 0
    for i in order:
        stm, out, events = cur["done"][i]
        for top, lhs, rhs in events:
            if not top and stm.ast_type == ASTType.Rule:
                # inside the condition of a conditional literal / of an element of a body aggregate
                r = _inner_deletion(current[i], lhs, rhs, false, Rule, LOC)
                if r is None:
                    other += 1
                else:
                    current[i], ob = r
                    if ob is None:
                        other += 1
                    else:
                        obs.append(ob)
                continue
            if top and stm.ast_type == ASTType.Minimize:
                # a deletion in the body of an objective: only the weaker-copy kind has a theorem (cost tuples kept)
                body = list(current[i].body)
                if rhs not in body:
                    other += 1
                    continue
                k = body.index(rhs)
                current[i] = current[i].update(body=body[:k] + body[k + 1:])
                same_pred = is_plain_atom(lhs) and is_plain_atom(rhs) and \
                    (lhs.atom.symbol.name, len(lhs.atom.symbol.arguments)) == (rhs.atom.symbol.name, len(rhs.atom.symbol.arguments))
                try:
                    if not same_pred:
                        # an implied literal of another predicate: `C08_remove_implied_in_objective`
                        j = next(x for x, l in enumerate(body) if x != k and l == lhs)
                        before2 = apart(stm.update(body=body))
                        body2 = list(before2.body)
                        after2 = before2.update(body=body2[:k] + body2[k + 1:])
                        obs.append(("implied-obj", ser.prog(apart_prog(current[:i])), ser.stm(before2), ser.stm(after2) + " " + ser.prog(apart_prog(current[i + 1:])),
                                    ser.stm(Rule(LOC, false, [body2[j]])), ser.stm(Rule(LOC, false, [body2[k]])),
                                    f"{lhs} supersedes {rhs} in the objective {stm}"))
                        continue
                    j = next(x for x, l in enumerate(body) if x != k and l == lhs)
                    before2 = apart(stm.update(body=body))
                    body2 = list(before2.body)
                    after2 = before2.update(body=body2[:k] + body2[k + 1:])
                    fresh = sorted({v.name for v in _collect(body2[k], "Variable") if v.name.startswith("_#")})
                    obs.append(("anon-obj", ser.stm(before2), ser.stm(after2), ser.stm(Rule(LOC, false, [body2[j]])),
                                ser.stm(Rule(LOC, false, [body2[k]])), "(" + " ".join(ser.q(v) for v in fresh) + ")",
                                f"{lhs} supersedes its weaker copy {rhs} in the objective {stm}"))
                except Exception:  # noqa
                    other += 1
                continue
            if not top or stm.ast_type != ASTType.Rule:
                other += 1
                continue
            body = list(current[i].body)
            if rhs not in body:
                other += 1
                continue
            k = body.index(rhs)
            current[i] = current[i].update(body=body[:k] + body[k + 1:])
            try:
                j = next(x for x, l in enumerate(body) if x != k and l == lhs)
                tr = _Apart()
                body2 = [tr(l) for l in body]
                head2 = tr(stm.head)
                before2 = stm.update(head=head2, body=body2)
                after2 = stm.update(head=head2, body=body2[:k] + body2[k + 1:])
                pre = apart_prog(current[:i])
                post = apart_prog(current[i + 1:])
                same_pred = (lhs.atom.symbol.name, len(lhs.atom.symbol.arguments)) == (rhs.atom.symbol.name, len(rhs.atom.symbol.arguments))
                if same_pred:
                    # `p(X), p(_)`: a strong equivalence, no context needed; F = the renamed-apart anonymous variables of q
                    fresh = sorted({v.name for v in _collect(body2[k], "Variable") if v.name.startswith("_#")})
                    obs.append(("anon", ser.stm(before2), ser.stm(after2), ser.stm(Rule(LOC, false, [body2[j]])),
                                ser.stm(Rule(LOC, false, [body2[k]])), "(" + " ".join(ser.q(v) for v in fresh) + ")",
                                f"{lhs} supersedes its weaker copy {rhs} in {stm}"))
                else:
                    obs.append((ser.prog(pre), ser.stm(before2), ser.stm(after2), ser.prog(post),
                                ser.stm(Rule(LOC, false, [body2[j]])), ser.stm(Rule(LOC, false, [body2[k]])), f"{lhs} supersedes {rhs} in {stm}"))
            except Exception:  # noqa - outside the mirror
                other += 1
        current[i] = out
    return obs, other


def is_plain_atom(lit):
    return (lit.ast_type == ASTType.Literal and lit.atom.ast_type == ASTType.SymbolicAtom
            and lit.atom.symbol.ast_type == ASTType.Function)


def _inner_deletion(rule, lhs, rhs, false, Rule, LOC):
    """locate the first condition of `rule` that holds both literals, delete `rhs` there; returns (new rule, observation or
    None if the deletion is not of the same-predicate kind / outside the mirror)"""
    for bi, blit in enumerate(rule.body):
        if blit.ast_type == ASTType.ConditionalLiteral:
            conds = [(-1, list(blit.condition))]
        elif blit.ast_type == ASTType.Literal and blit.atom.ast_type == ASTType.BodyAggregate:
            conds = [(ej, list(e.condition)) for ej, e in enumerate(blit.atom.elements)]
        else:
            continue
        for ej, cond in conds:
            if rhs not in cond:
                continue
            k = cond.index(rhs)
            js = [x for x, l in enumerate(cond) if x != k and l == lhs]
            if not js:
                continue

            def put(r_, newcond):
                b_ = r_.body[bi]
                if ej == -1:
                    nb = b_.update(condition=newcond)
                else:
                    els = list(b_.atom.elements)
                    els[ej] = els[ej].update(condition=newcond)
                    nb = b_.update(atom=b_.atom.update(elements=els))
                body_ = list(r_.body)
                body_[bi] = nb
                return r_.update(body=body_)
            new_rule = put(rule, cond[:k] + cond[k + 1:])
            same_pred = (lhs.ast_type == ASTType.Literal and rhs.ast_type == ASTType.Literal
                         and lhs.atom.ast_type == ASTType.SymbolicAtom and rhs.atom.ast_type == ASTType.SymbolicAtom
                         and lhs.atom.symbol.ast_type == ASTType.Function and rhs.atom.symbol.ast_type == ASTType.Function
                         and (lhs.atom.symbol.name, len(lhs.atom.symbol.arguments)) == (rhs.atom.symbol.name, len(rhs.atom.symbol.arguments)))
            if not same_pred:
                return new_rule, None
            try:
                before2 = apart(rule)
                b2 = before2.body[bi]
                cond2 = list(b2.condition) if ej == -1 else list(b2.atom.elements[ej].condition)
                after2 = put(before2, cond2[:k] + cond2[k + 1:])
                fresh = sorted({v.name for v in _collect(cond2[k], "Variable") if v.name.startswith("_#")})
                ob = ("anon-in", ser.stm(before2), ser.stm(after2), f"{bi} {ej}", ser.stm(Rule(LOC, false, [cond2[js[0]]])),
                      ser.stm(Rule(LOC, false, [cond2[k]])) + " (" + " ".join(ser.q(v) for v in fresh) + ")",
                      f"{lhs} supersedes its weaker copy {rhs} inside a condition of {rule}")
                return new_rule, ob
            except Exception:  # noqa - outside the mirror
                return new_rule, None
    return None


def duplication_observations(prg, inputs):
    """per factored literal set: the canonical aux rule, ALL (rule before, rule after) pairs and the context (every other
    statement of the result); sets whose places of use are not in the shape of the theorem are counted"""
    from ngo.literal_duplication import LiteralDuplicationTranslator
    try:
        before = list(prg)
        before_ser = {}
        for s in before:
            if s.ast_type == ASTType.Rule:
                before_ser[(s.location.begin.line, s.location.begin.column, str(s.head))] = s
        before_strs = {str(s) for s in before}
        after = LiteralDuplicationTranslator(prg, inputs).execute(prg)
    except Exception:  # noqa
        return [], 0
    aux_rules = [s for s in after if s.ast_type == ASTType.Rule and str(s) not in before_strs and plain_head_pred(s)
                 and plain_head_pred(s)[0].startswith("__aux_")]
    obs, other = [], 0
    for a in aux_rules:
        name = a.head.atom.symbol.name
        if any("__aux_" in str(l) for l in a.body):
            other += 1
            continue
        users = [s for s in after if s.ast_type == ASTType.Rule and s is not a and any(
            l.ast_type == ASTType.Literal and l.atom.ast_type == ASTType.SymbolicAtom and l.atom.symbol.name == name
            for l in s.body)]
        pairs = []
        ok = bool(users)
        for u in users:
            o = before_ser.get((u.location.begin.line, u.location.begin.column, str(u.head)))
            last = u.body[-1] if u.body else None
            if o is None or last is None or not (last.ast_type == ASTType.Literal and last.atom.ast_type == ASTType.SymbolicAtom
                                                 and last.atom.symbol.name == name) \
                    or any(("__aux_" in str(l)) for l in list(o.body) + list(u.body[:-1])):
                ok = False   # nested factoring / a rule rewritten twice / aux literal not last: not the shape of the theorem
                break
            try:
                tr = _Apart()
                used = set()
                body2 = [tr(l) for l in o.body]

                def pick(lit):
                    for i, l in enumerate(o.body):
                        if i not in used and l == lit:
                            used.add(i)
                            return body2[i]
                    raise KeyError
                rest2 = [pick(l) for l in u.body[:-1]]
                o2 = o.update(body=body2)
                u2 = u.update(body=rest2 + [u.body[-1]])
                pairs.append((ser.stm(o2), ser.stm(u2)))
            except Exception:  # noqa
                ok = False
                break
        if not ok:
            other += 1
            continue
        try:
            ctx = [s for s in after if s is not a and all(s is not u for u in users)]
            obs.append((ser.stm(a), pairs, ser.prog(apart_prog(ctx))))
        except Exception:  # noqa
            other += 1
    return obs, other


def inline_observations(prg, inputs, outputs):
    """per helper rule that `inline` unfolds into a positive body literal: (helper rule, [(unfolded rule, rule with the helper
    atom moved to the end)], context) - the data of `C15_inline_positive_body` (the fold against an existing definition read
    from right to left); + the number of unfoldings outside that shape"""
    from ngo.inline import InlineTranslator
    real = InlineTranslator.replace_single_rule_for_body
    seen = []

    def wrapped(self, p):
        out = real(self, p)
        if out is not p:
            seen.append((list(p), list(out)))
        return out
    InlineTranslator.replace_single_rule_for_body = wrapped
    try:
        InlineTranslator(prg, inputs, outputs).execute(prg)
    except Exception:  # noqa - crashes are C03's business
        return [], 0
    finally:
        InlineTranslator.replace_single_rule_for_body = real
    obs, other = [], 0
    for p, out in seen:
        removed = [r for r in p if all(r is not t for t in out)]
        added = [t for t in out if all(t is not r for r in p)]
        if len(removed) != 2 or len(added) != 1:
            other += 1
            continue
        helper = next((r for r in removed if plain_head_pred(r) and any(
            l.ast_type == ASTType.Literal and l.atom.ast_type == ASTType.SymbolicAtom and l.atom.symbol.ast_type == ASTType.Function
            and (l.atom.symbol.name, len(l.atom.symbol.arguments)) == plain_head_pred(r)
            for o in removed if o is not r for l in o.body)), None)
        if helper is None:
            other += 1
            continue
        orig = next(r for r in removed if r is not helper)
        hp = plain_head_pred(helper)
        uses = [l for l in orig.body if l.ast_type == ASTType.Literal and l.atom.ast_type == ASTType.SymbolicAtom
                and l.atom.symbol.ast_type == ASTType.Function and (l.atom.symbol.name, len(l.atom.symbol.arguments)) == hp]
        if len(uses) != 1 or uses[0].sign != Sign.NoSign or "_" in [v.name for s_ in (helper, orig, added[0]) for v in _collect(s_, "Variable")]:
            other += 1
            continue
        try:
            u = orig.update(body=[l for l in orig.body if l is not uses[0]] + [uses[0]])
            ctx = [t for t in out if t is not added[0]]
            obs.append((ser.stm(helper), [(ser.stm(added[0]), ser.stm(u))], ser.prog(apart_prog(ctx))))
        except Exception:  # noqa - outside the mirror
            other += 1
    return obs, other


def domain_observations(prg, inputs):
    """programs produced by the passes that request domain predicates, each with the map predicate -> `__dom_` predicate
    read off the heads of the result"""
    from ngo.minmax_aggregates import MinMaxAggregator
    from ngo.symmetry import SymmetryTranslator
    from ngo.sum_aggregates import SumAggregator
    import copy
    obs = []
    for cls in (MinMaxAggregator, SymmetryTranslator, SumAggregator):
        try:
            p = copy.deepcopy(list(prg))
            res = cls(p, inputs).execute(p)
        except Exception:  # noqa
            continue
        heads = {}
        for s in res:
            hp = plain_head_pred(s)
            if hp and hp[0].startswith("__dom_") and not hp[0].startswith("__dom___"):
                heads[hp] = True
        if not heads:
            continue
        try:
            pairs = " ".join(f"(({ser.q(n[len('__dom_'):])} {k}) {ser.q(n)})" for n, k in sorted(heads))
            obs.append((cls.__name__, ser.prog(apart_prog(res)), pairs))
        except Exception:  # noqa
            pass
    return obs


def ser_try(s):
    try:
        return ser.stm(s)
    except Exception:  # noqa
        return None


def _cmp_vars(lit):
    """(X, op, Y) for a positive comparison literal between two variables"""
    if lit.ast_type != ASTType.Literal or lit.sign != Sign.NoSign or lit.atom.ast_type != ASTType.Comparison:
        return None
    a = lit.atom
    if len(a.guards) != 1 or a.term.ast_type != ASTType.Variable or a.guards[0].term.ast_type != ASTType.Variable:
        return None
    return (a.term.name, a.guards[0].comparison, a.guards[0].term.name)


def symmetry_observations(prg, inputs):
    """[(source rule as s-expression text, X, Y)] for every rule rewritten by exactly one `X != Y` -> `X < Y`"""
    from ngo.symmetry import SymmetryTranslator
    try:
        before = [s for s in prg]
        texts = {}
        for s in before:
            if s.ast_type == ASTType.Rule:
                try:
                    texts[id(s)] = ser.stm(apart(s))
                except Exception:  # noqa
                    pass
        after = SymmetryTranslator(prg, inputs).execute(prg)
    except Exception:  # noqa
        return [], 0
    after_rules = [s for s in after if s.ast_type == ASTType.Rule]
    obs = []
    other = 0
    before_strs = {str(s) for s in before}
    for r in before:
        if r.ast_type != ASTType.Rule or id(r) not in texts:
            continue
        if str(r) in {str(a) for a in after_rules}:
            continue
        bb = collections.Counter(str(l) for l in r.body)
        hit = False
        for a in after_rules:
            if str(a) in before_strs or str(a.head) != str(r.head) or len(a.body) != len(r.body):
                continue
            ab = collections.Counter(str(l) for l in a.body)
            gone = list((bb - ab).elements())
            new = list((ab - bb).elements())
            if len(gone) == 1 and len(new) == 1:
                g = next((l for l in r.body if str(l) == gone[0]), None)
                n = next((l for l in a.body if str(l) == new[0]), None)
                cg, cn = _cmp_vars(g) if g is not None else None, _cmp_vars(n) if n is not None else None
                if cg and cn and cg[1] == ComparisonOperator.NotEqual and cn[1] == ComparisonOperator.LessThan \
                        and (cg[0], cg[2]) == (cn[0], cn[2]):
                    # the other `U != V` literals of the rule: candidates for pairs exchanged together with X, Y
                    others = []
                    for l in r.body:
                        c = _cmp_vars(l)
                        if c and c[1] == ComparisonOperator.NotEqual and str(l) != gone[0] and (c[0], c[2]) not in others:
                            others.append((c[0], c[2]))
                    obs.append((texts[id(r)], cg[0], cg[2], others[:4]))
                    hit = True
                    break
        if not hit:
            other += 1
    return obs, other


def leanio_show(x) -> str:
    """parsed answer back to the text `ser` produces (strings are ('s', text) pairs in leanio's parse)"""
    if isinstance(x, tuple):
        return ser.q(x[1])
    if isinstance(x, list):
        return "(" + " ".join(leanio_show(y) for y in x) + ")"
    return str(x)


def make_texts(rng, n_gen, corpus_limit=None, kinds=None):
    H = corpus.harvest()
    pref = [x for x in H if x[0] in ("symmetry", "unused", "regression", "projection", "literal_duplication", "dependency", "minmax_aggregates", "sum_aggregates", "cleanup", "inline")]
    rest = [x for x in H if x[0] not in ("symmetry", "unused", "regression", "projection", "literal_duplication", "dependency", "minmax_aggregates", "sum_aggregates", "cleanup", "inline")]
    if corpus_limit is not None:
        rest = rng.sample(rest, min(len(rest), corpus_limit))
        pref = rng.sample(pref, min(len(pref), 2 * corpus_limit))
    texts = [("corpus:" + o, t) for o, t in pref + rest]
    if kinds is not None and set(kinds) == {"cleanup"}:
        import corr_cleanup
        texts = [x for x in texts if x[0] in ("corpus:cleanup", "corpus:regression", "corpus:unused")]
        return texts + [("targeted:cleanup", corr_cleanup.targeted_program(rng)) for _ in range(n_gen)]
    for i in range(n_gen):
        r = rng.random()
        if r < 0.3:
            texts.append(("tgen:symmetry", tgen.gen_symmetry(rng)))
        elif r < 0.5:
            texts.append(("tgen:unused", tgen.gen_unused(rng)))
        elif r < 0.65:
            texts.append(("tgen:projection", tgen.gen_projection(rng)))
        elif r < 0.75:
            texts.append(("tgen:duplication", tgen.gen_duplication(rng)))
        elif r < 0.9:
            texts.append(("tgen:domains", rng.choice([tgen.gen_minmax, tgen.gen_sumchains, tgen.gen_symmetry, tgen.gen_inline])(rng)))
        elif r < 0.85:
            texts.append(("mutated", gen.mutate(rng, rng.choice(pref or H)[1])))
        else:
            texts.append(("layered", gen.layered_program(rng)))
    return texts


def _guard(fn, default):
    """an observation wraps private methods of a pass; if a harmless rewrite of the pass renamed one, the observation is
    unavailable (counted), it is not a crash of the check and not a verdict"""
    def g(*a, **kw):
        try:
            return fn(*a, **kw)
        except AttributeError:
            UNAVAILABLE[fn.__name__] += 1
            return default
    return g


UNAVAILABLE = collections.Counter()


def run(rng, n_gen, corpus_limit=None, kinds=None) -> dict:
    hist = collections.Counter()
    UNAVAILABLE.clear()
    g = globals()
    for name, default in (("unused_observations", []), ("projection_observations", []), ("duplication_observations", ([], 0)),
                          ("inline_observations", ([], 0)), ("symmetry_observations", ([], 0)), ("domain_observations", [])):
        if not getattr(g[name], "_guarded", False):
            g[name] = _guard(g[name], default)
            g[name]._guarded = True
    reqs = []
    meta = []
    def want(k):
        return kinds is None or k in kinds
    for label, text in make_texts(rng, n_gen, corpus_limit, kinds):
        prg = _parse(text)
        if not prg:
            hist["skip:unparsable"] += 1
            continue
        try:
            prg = _preprocess(prg)
            inputs = _inputs(prg)
        except Exception:  # noqa
            hist["skip:preprocess raises"] += 1
            continue
        from ngo import auto_detect_output
        outputs = auto_detect_output(prg)
        for ptext, name, ar in (unused_observations(_preprocess(_parse(text)), inputs, outputs) if want("unused") else []):
            reqs.append(f'(sem_unused_cond {ptext} {ser.q(name)} {ar})')
            meta.append(("unused", text, f"{name}/{ar}", 1))
        for stm in (_parse(text) if want("expand_comparisons") else []):
            if stm.ast_type in (ASTType.Rule, ASTType.Minimize):
                try:
                    reqs.append(f'(sem_okstm {ser.stm(stm)})')
                    meta.append(("expand_comparisons", text, str(stm), 1))
                except Exception:  # noqa
                    hist["expand_comparisons: statement outside the mirror"] += 1
        for before, aux, upd, ctxp in (projection_observations(_preprocess(_parse(text)), inputs) if want("projection") else []):
            reqs.append(f'(sem_split_cond {before} {aux} {upd} {ctxp})')
            meta.append(("projection", text, (aux, upd), 1))
        try:
            both = cleanup_observations(_preprocess(_parse(text)), inputs, backward=True) if want("cleanup") else None
        except AttributeError:
            UNAVAILABLE["cleanup_observations"] += 1
            both = None
        if both is not None and both and isinstance(both[0], tuple):
            (cobs, cother), (bobs, _) = both
        else:
            cobs, cother, bobs = [], 0, []
        hist["cleanup: deletions inside conditions or objectives (outside the theorem)"] += cother
        tag = f"cl{len(meta)}"
        for order_name, lst in (("", cobs), ("@backward", bobs)):
            for pre, before, after, post, pr, qr, what in lst:
                if pre == "implied-obj":
                    if order_name:
                        continue
                    reqs.append(f'(sem_implied_obj {before} {after} {post} {pr} {qr})')   # (pre, before, "after post", :- p., :- q.)
                    meta.append(("cleanup-in-objective", text, what, 1))
                elif pre == "anon-obj":
                    if order_name:
                        continue
                    reqs.append(f'(sem_anon_obj {before} {after} {post} {pr} {qr})')   # (before, after, :- p., :- q., F)
                    meta.append(("cleanup-copy-in-objective", text, what, 1))
                elif pre == "anon-in":
                    if order_name:
                        continue
                    reqs.append(f'(sem_anon_in {before} {after} {post} {pr} {qr})')   # (before, after, "i j", :- p., ":- q. (F)")
                    meta.append(("cleanup-copy-in-condition", text, what, 1))
                elif pre == "anon":
                    if order_name:
                        continue   # a strong equivalence: the order is immaterial, counted once
                    reqs.append(f'(sem_anon_cond {before} {after} {post} {pr} {qr})')   # (before, after, :- p., :- q., F)
                    meta.append(("cleanup-copy", text, what, 1))
                else:
                    reqs.append(f'(sem_implied_cond {pre} {before} {after} {post} {pr} {qr})')
                    meta.append(("cleanup" + order_name + "#" + tag, text, what, 1))
        for cname, ptext, pairs in (domain_observations(_preprocess(_parse(text)), inputs) if want("domains") else []):
            reqs.append(f'(sem_dom_cond {ptext} ({pairs}))')
            meta.append(("domains", text, cname, 1))
        dobs, dother = duplication_observations(_preprocess(_parse(text)), inputs) if want("duplication") else ([], 0)
        hist["duplication: factored sets whose places of use are not in the shape of the theorem"] += dother
        for aux, pairs, ctxp in dobs:
            uses = " ".join(f"({o} {u})" for o, u in pairs)
            reqs.append(f'(sem_dup_all {aux} ({uses}) {ctxp})')
            meta.append(("duplication", text, (aux, pairs), 1))
        iobs, iother = inline_observations(_preprocess(_parse(text)), inputs, outputs) if want("inline") else ([], 0)
        hist["inline: unfoldings into a negated literal / with anonymous variables / of another shape"] += iother
        for aux, pairs, ctxp in iobs:
            uses = " ".join(f"({o} {u})" for o, u in pairs)
            reqs.append(f'(sem_dup_all {aux} ({uses}) {ctxp})')
            meta.append(("inline", text, (aux, pairs), 1))
        sobs, other = symmetry_observations(_preprocess(_parse(text)), inputs) if want("symmetry") else ([], 0)
        hist["symmetry: rules rewritten in another shape (count / aux / several literals)"] += other
        for rtext, x, y, others in sobs:
            # one request per candidate involution; the observation counts as covered if one of them satisfies everything
            import itertools
            group = []
            for k in range(len(others) + 1):
                for sub in itertools.combinations(others, k):
                    pairs = " ".join(f"({ser.q(a)} {ser.q(b)})" for a, b in [(x, y)] + list(sub))
                    group.append(f'(sem_sym_cond {rtext} ({pairs}))')
            reqs.extend(group)
            meta.append(("symmetry", text, f"{x} != {y}", len(group)))
    answers = leanio.run_batch(reqs) if reqs else []
    mismatches = []
    outside = []
    unsupported = 0
    nontrivial = 0
    pos = 0
    # cleanup: the deletions of one program were requested in two orders; the order with more proved steps counts
    score = collections.Counter()
    p2 = 0
    for kind, text, what, n in meta:
        group = answers[p2:p2 + n]
        p2 += n
        if kind.startswith("cleanup") and "#" in kind:
            good = [a for a in group if isinstance(a, list) and a and a[0] == "ok"]
            score[kind] += sum(1 for a in good if str(a[1]) == "1" and str(a[2]) == "1")
    for kind, text, what, n in meta:
        group = answers[pos:pos + n]
        pos += n
        if kind.startswith("cleanup") and "#" in kind:
            base, tag = kind.split("#")
            other_kind = ("cleanup#" if base.endswith("@backward") else "cleanup@backward#") + tag
            if score[other_kind] > score[kind] or (score[other_kind] == score[kind] and base.endswith("@backward")):
                continue
            if base.endswith("@backward"):
                hist["cleanup: programs whose deletions are proved in the backward order of the statements"] += 1
            kind = "cleanup"
        good = [a for a in group if isinstance(a, list) and a and a[0] == "ok"]
        if not good:
            unsupported += 1
            hist[f"{kind}: unsupported by the reader"] += 1
            continue
        nontrivial += 1
        if kind in ("projection", "duplication"):
            a = good[0]
            if kind == "projection":
                same = (leanio_show(a[3]), leanio_show(a[4])) == what
                flags = [str(a[1]) == "1", str(a[2]) == "1", same]
            else:
                got = [(leanio_show(x[0]), leanio_show(x[1])) for x in a[5]]
                same = leanio_show(a[4]) == what[0] and got == list(what[1])
                flags = [str(a[1]) == "1", str(a[2]) == "1", str(a[3]) == "1", same]
            if not same:
                mismatches.append({"op": f"sem_{kind}_cond", "program": text, "impl": str(what)[:400],
                                   "model": (leanio_show(a[3]) + " " + leanio_show(a[4]))[:400]})
            if all(flags):
                hist[f"{kind}: side condition of the theorem holds"] += 1
            else:
                hist[f"{kind}: side condition does NOT hold {tuple(int(f) for f in flags)}"] += 1
                outside.append(text)
            continue
        # cleanup: the first two flags decide (check, same literals); the others say which conjunct of the check failed
        if kind == "inline":
            # `sem_dup_all` answers (some place, every placeCheck, ctxAvoidsCheck, aux rule, pairs): the three flags decide;
            # the rules are given by the harness here (the pass unfolds, it does not fold), nothing is reconstructed
            flagsets = [[str(x) == "1" for x in a[1:4]] for a in good]
        else:
            flagsets = [[str(x) == "1" for x in (a[1:3] if kind == "cleanup" else a[1:])] for a in good]
        if kind == "cleanup" and not all(flagsets[0]):
            hist["cleanup: failing conjuncts (fragment, p in body, every deriving rule carries q) " + str(tuple(int(str(x) == "1") for x in good[0][3:6]))] += 1
        if kind == "cleanup" and all(flagsets[0]) and len(good[0]) > 6 and str(good[0][6]) == "1":
            hist["cleanup: implication proved through a chain of predicates"] += 1
        if any(all(f) for f in flagsets):
            hist[f"{kind}: side condition of the theorem holds"] += 1
        else:
            best = max(flagsets, key=sum)
            hist[f"{kind}: side condition does NOT hold {tuple(int(f) for f in best)}"] += 1
            outside.append(text)
    for k, v in UNAVAILABLE.items():
        hist[f"observation unavailable (a wrapped method of the pass is gone): {k}"] += v
    return {"evaluations": len(reqs), "nontrivial": nontrivial, "mismatches": mismatches, "unsupported": unsupported,
            "histogram": dict(hist), "extra_programs": outside}


if __name__ == "__main__":
    n = int(sys.argv[1]) if len(sys.argv) > 1 else 400
    for seed in (0, 1, 2):
        r = run(random.Random(seed), n)
        print(f"seed {seed}: evaluations={r['evaluations']} nontrivial={r['nontrivial']} mismatches={len(r['mismatches'])} "
              f"unsupported={r['unsupported']}")
        for k, v in sorted(r["histogram"].items()):
            print(f"   {k:90s} {v}")
        for m in r["extra_programs"][:5]:
            print("  OUTSIDE THE PROVED FRAGMENT", m)
