"""correspondence of the Lean model NgoVerif.Model.Unused with ngo/unused.py (UnusedTranslator)

ops
  (unused <prog> (<input preds>) (<output preds>))        -> (ok <prog>) | (err ..)
        compared EXACTLY (statement order included) with UnusedTranslator(prog, ins, outs).execute(prog)
  (unused_trace <prog> (<input preds>) (<output preds>))  -> (ok ((anon proj removed copied)...) (<memo>...)) | (err ..)
        per iteration of the `while` loop: did the step change the program (real side: an instrumented subclass that
        only wraps the four steps); memo = self.new_names, compared as a set
  (unused_exline <prog>)                                   -> (ok <prog>) | (err ..)
        compared exactly with ngo.normalize.exline_arithmetic(prog)  (the first line of `execute`)

inputs: program text -> clingo.ast.parse_string -> ngo.normalize.preprocess, with (inputs, outputs) =
(auto_detect_input, auto_detect_output), ([], []), random subsets of the program's predicates; and the result of a
previous real `unused` run fed in again (exercises the fixpoint).  Every case gets freshly built ASTs and the request
is serialised before the real pass runs (the pass edits statement bodies in place).
"""
from __future__ import annotations

import copy
import random
import sys
from collections import Counter

import corpus
import gen
import leanio
import ser

from clingo.ast import ASTType
from ngo.normalize import exline_arithmetic, preprocess
from ngo.unused import UnusedTranslator
from ngo.utils.ast import Predicate, collect_ast, predicates
from ngo.utils.globals import auto_detect_input, auto_detect_output


# ---------------------------------------------------------------- instrumented real pass

class Traced(UnusedTranslator):
    """the real pass; the four steps of the loop are wrapped to record whether they changed the program"""

    def __init__(self, prg, ins, outs):
        super().__init__(prg, ins, outs)
        self.trace = []

    def _anonymize_variables(self, prg):
        before = ser.prog(prg)
        res = super()._anonymize_variables(prg)
        self.trace.append([ser.prog(res) != before, False, False, False])
        return res

    def project_unused(self, prg):
        before = ser.prog(prg)
        res = super().project_unused(prg)
        self.trace[-1][1] = ser.prog(res) != before
        return res

    def remove_unused(self, prg):
        before = ser.prog(prg)
        res = super().remove_unused(prg)
        self.trace[-1][2] = ser.prog(res) != before
        return res

    def remove_single_copies(self, prg):
        before = ser.prog(prg)
        res = super().remove_single_copies(prg)
        self.trace[-1][3] = ser.prog(res) != before
        return res


# ---------------------------------------------------------------- targeted generator

T_VARS = ["X", "Y", "Z", "W"]
T_CONST = ["1", "2", "a", "f(X)", "X+1", "_"]


def _args(rng, pool, ar):
    return ",".join(rng.choice(pool) for _ in range(ar))


def _at(name, args):
    return f"{name}({args})" if args else name


def targeted_program(rng) -> str:
    """programs in which things really get anonymised / projected / removed / copied"""
    lines = []
    base = [("b", 2), ("c", 1), ("d", 3), ("e", 2), ("g", 0)]
    # facts / generators for the base predicates
    for name, ar in base:
        r = rng.random()
        if r < 0.5:
            lines.append(_at(name, _args(rng, ["1", "2", "3", "a"], ar)) + ".")
        elif r < 0.7 and ar:
            lines.append(f"{{ {_at(name, _args(rng, T_VARS[:2], ar))} }} :- dom({T_VARS[0]}), dom({T_VARS[1]}).")
        elif r < 0.8 and ar:
            lines.append(f"{_at(name, _args(rng, T_VARS[:2], ar))} :- dom({T_VARS[0]}), dom({T_VARS[1]}).")
    lines.append("dom(1..3).")
    known = list(base)
    # copy rules, possibly chained: h(args) :- k(args')
    n_copy = rng.choice([0, 1, 1, 2, 3])
    for i in range(n_copy):
        src, ar = rng.choice([p for p in known if p[1] > 0] or [("b", 2)])
        hname = rng.choice(["h", "k", "m", "n", "b", "c"]) + (str(i) if rng.random() < 0.7 else "")
        vs = T_VARS[:ar] if ar <= 4 else T_VARS
        if rng.random() < 0.12:
            vs = ["X", "X0", "X1", "X00"][:ar] if rng.random() < 0.5 else ["X0", "Y0", "X", "Y"][:ar]
        r = rng.random()
        hargs = list(vs[:ar])
        bargs = list(vs[:ar])
        if r < 0.3:
            rng.shuffle(bargs)
        elif r < 0.45:
            bargs[rng.randrange(ar)] = rng.choice(hargs)  # repeated in body
        elif r < 0.6:
            hargs[rng.randrange(ar)] = rng.choice(hargs)  # repeated in head
        elif r < 0.7:
            bargs[rng.randrange(ar)] = rng.choice(["1", "a", "f(X)", "_", "Q"])
        elif r < 0.78:
            hargs[rng.randrange(ar)] = rng.choice(["1", "a", "_", "X+1"])
        elif r < 0.83:
            hargs = hargs + ["X"]  # arity mismatch
        sign = "" if rng.random() < 0.9 else "not "
        extra = "" if rng.random() < 0.85 else f", {_at(*_pick(rng, known))}"
        lines.append(f"{_at(hname, ','.join(hargs))} :- {sign}{_at(src, ','.join(bargs))}{extra}.")
        if rng.random() < 0.12:
            lines.append(f"{_at(hname, ','.join(hargs))} :- {_at(src, ','.join(bargs))}.")  # second derivation
        known.append((hname, len(hargs)))
    # users
    for _ in range(rng.choice([1, 2, 3, 4])):
        r = rng.random()
        name, ar = rng.choice(known)
        pool = T_VARS[:3] + ["_", "_", "1", "Y0", "X0"]
        use = _at(name, _args(rng, pool, ar))
        if r < 0.3:
            hn = rng.choice(["out", "res", "tmp"])
            har = rng.choice([0, 1, 2])
            lines.append(f"{_at(hn, _args(rng, T_VARS[:3] + ['1'], har))} :- {use}, {_at(*_pick_atom(rng, known, pool))}.")
            known.append((hn, har))
        elif r < 0.45:
            lines.append(f":- {use}, {rng.choice(['not ', ''])}{_at(*_pick_atom(rng, known, pool))}.")
        elif r < 0.55:
            lines.append(f"res(S) :- S = #sum {{ {rng.choice(pool[:3])},{rng.choice(pool[:3])} : {use} }}.")
        elif r < 0.65:
            lines.append(f"{{ pick({_args(rng, T_VARS[:2], 1)}) : {use} }} 1 :- {_at(*_pick_atom(rng, known, pool))}.")
        elif r < 0.72:
            lines.append(f"tmp :- {use} : {_at(*_pick_atom(rng, known, pool))}.")
        elif r < 0.8:
            lines.append(f":~ {use}. [1@1,{rng.choice(T_VARS[:3])}]")
        elif r < 0.86:
            lines.append(f"#show t({rng.choice(T_VARS[:2])}) : {use}.")
        elif r < 0.92:
            lines.append(f"#external ext({rng.choice(T_VARS[:2])}) : {use}.")
        else:
            lines.append(f"only_head({_args(rng, T_VARS[:2] + ['1'], 2)}) :- {use}.")
    # show statements
    for _ in range(rng.choice([0, 1, 1, 2])):
        name, ar = rng.choice(known)
        lines.append(f"#show {name}/{ar}.")
    if rng.random() < 0.2:
        lines.append(gen.rule(rng))
    if rng.random() < 0.06:
        lines.append(":- -c(1).")
    rng.shuffle(lines)
    return "\n".join(lines)


_V11 = ["X"] + [f"X{i}" for i in range(10)]

# hand-written programs for the corners the report talks about (each runs with every signature variant)
SPECIAL = [
    # copy rules whose single body literal is signed: only a positive literal makes a copy
    "on :- not not latch. latch :- on, power. {power}. #show latch/0.",
    "on :- not latch. latch :- off, power. off :- not on. {power}. #show latch/0.",
    "a(X) :- not not b(X). b(X) :- a(X), c(X). {c(X)} :- d(X). #show b/1.",
    # chain of copies: both copy rules vanish, the user keeps b(1)
    "a(X) :- b(X). b(X) :- c(X). d :- a(1). c(1). #show d/0.",
    # repeated head variable: the equality constraint is lost
    "a(X,X) :- b(X,Y). c :- a(1,2). b(1,1). #show c/0.",
    "b(X,X,A) :- a(X,_,f(A)). c(X*Z) :- b(X,X,Z).",
    # capture: the use site has a variable named like the Mapper's fresh variable
    "a(X,Y) :- b(Y,X). c(Y0) :- a(Y0,Z), d(Z,Y0). b(1,2). d(1,2). #show c/1.",
    "a(X,Y) :- b(Y,X). c(X0) :- a(Z,X0), d(Z,X0). b(1,2). d(1,2). #show c/1.",
    # body-only variable of the copy rule captured by the use site
    "a(X,Y) :- b(Z,Z). c(Z,W) :- a(Z,W), e(Z,W). #show c/2.",
    # classical negation: AttributeError in remove_single_copies.convert
    ":- -b(1).", "a :- -b(1).", "-a(X) :- b(X). c :- -a(1). #show c/0.", "#external -a(1). b :- c. #show b/0.",
    # #show term conditions are not usage
    "#show t(X) : q(X). q(1). q(X) :- r(X).",
    # external atom is not usage, its body is
    "#external p(X,Y) : q(X,Y,Z). q(1,2,3). r :- p(1,_). #show r/0.",
    # head-only predicates, arity 0 after projection, name clashes p/3 -> p/1 and p/2 -> p/1
    "p(X,Y,Z) :- q(X,Y,Z). p(X,Y) :- q(X,Y,_). r :- p(X,_,_), s(X). r :- p(_,Y), s(Y). p(1). #show r/0. #show p/1.",
    "h(X,Y) :- b(X,Y). h :- c. h0 :- d. k :- h(_,_). #show k/0.",
    # functions are predicates for collect_ast: f/1 inside an aggregate tuple and a comparison keeps p/1's... f
    "f(X,Y) :- b(X,Y). r(S) :- S = #sum { f(X,_) : c(X) }. t :- f(X,_) = Y, d(Y), c(X). #show r/1. #show t/0.",
    # Mapper renames a *set*: with X, X0..X9, X1 in the head the fresh names collide -> hash-order dependent
    f"a({','.join(_V11)}) :- b({','.join(_V11)}). c(X11,Z) :- a(X11,0,Z,1,2,3,4,5,6,7,8). #show c/2.",
    f"a({','.join(_V11)}) :- b({','.join(_V11)}). c(X10,Z) :- a(X10,0,Z,1,2,3,4,5,6,7,8). #show c/2.",
    # objectives, anonymisation of comparisons
    ":~ a(X,Y), b(Z), W = X+1. [X@1,f(Y)]", "a(X+1,-Y) :- b(X,Y), c(Z). #show a/2.",
    "#minimize { X*2@1,f(Y+1) : a(X,Y), b(Z) }.",
]


def _pick(rng, known):
    name, ar = rng.choice(known)
    return name, _args(rng, T_VARS[:3], ar)


def _pick_atom(rng, known, pool):
    name, ar = rng.choice(known)
    return name, _args(rng, pool, ar)


# ---------------------------------------------------------------- real side

def prepare(text):
    prg = corpus.parses(text)
    if prg is None:
        return None
    return preprocess(prg)


def program_preds(prg):
    out = set()
    for stm in prg:
        out.update(sp.pred for sp in predicates(stm))
        for f in collect_ast(stm, "Function"):
            out.add(Predicate(f.name, len(f.arguments)))
        if stm.ast_type == ASTType.ShowSignature:
            out.add(Predicate(stm.name, stm.arity))
    return sorted(out)


class Case:
    __slots__ = ("origin", "text", "label", "ins", "outs", "req_prog", "before", "impl", "impl_trace", "impl_memo",
                 "impl_exline", "result_asts")


def build_case(origin, text, label, ins, outs, prg):
    """run the real code on prg (fresh ASTs); Case or the reason (str) why the case is not comparable"""
    try:
        req_prog = ser.prog(prg)
    except ser.Unsupported:
        return "ser_unsupported"
    c = Case()
    c.origin, c.text, c.label, c.ins, c.outs, c.req_prog = origin, text, label, list(ins), list(outs), req_prog
    c.before = ser.parse_sexp(req_prog)
    c.result_asts = None
    try:
        c.impl_exline = ser.parse_sexp(ser.prog(exline_arithmetic(prg)))
    except ser.Unsupported:
        return "ser_unsupported_result"
    except Exception as e:  # pylint: disable=broad-except
        c.impl_exline = ("error", type(e).__name__)
    tr = None
    try:
        tr = Traced(prg, list(ins), list(outs))
        res = tr.execute(prg)
        c.impl = ser.parse_sexp(ser.prog(res))
        c.result_asts = res
    except ser.Unsupported:
        return "ser_unsupported_result"
    except Exception as e:  # pylint: disable=broad-except
        c.impl = ("error", type(e).__name__)
    if isinstance(c.impl, tuple) or tr is None:
        c.impl_trace = None
        c.impl_memo = None
    else:
        c.impl_trace = [[("1" if b else "0") for b in it] for it in tr.trace]
        c.impl_memo = sorted(((k[0].name, k[0].arity), (k[1].name, k[1].arity), v) for k, v in tr.new_names.items())
    return c


def fresh(prg):
    return [copy.deepcopy(s) for s in prg]


def run(rng, n_gen, with_corpus=True, n_targeted=None, corpus_limit=None) -> dict:
    hist = Counter()
    texts = []
    if with_corpus:
        texts += [("corpus:" + o, t) for o, t in corpus.harvest()]
        if corpus_limit is not None and len(texts) > corpus_limit:
            texts = rng.sample(texts, corpus_limit)
    texts += [("special", t) for t in SPECIAL]
    pool = [t for _, t in corpus.harvest()]
    for i in range(n_gen):
        if i % 2 == 0:
            texts.append(("gen.random_program", gen.random_program(rng)))
        else:
            base = rng.choice(pool) if rng.random() < 0.6 else gen.random_program(rng)
            t = gen.mutate(rng, base)
            if rng.random() < 0.3:
                t = gen.mutate(rng, t)
            texts.append(("gen.mutate", t))
    for _ in range(n_gen // 2 if n_targeted is None else n_targeted):
        texts.append(("targeted", targeted_program(rng)))

    cases = []
    unsupported = 0
    for origin, text in texts:
        try:
            prg = prepare(text)
            if prg is None:
                hist["skipped:does_not_parse"] += 1
                continue
            ps = program_preds(prg)
            variants = [("auto", auto_detect_input(prg), auto_detect_output(prg)), ("empty", [], [])]
            variants.append(("random", rng.sample(ps, rng.randrange(len(ps) + 1)) if ps else [],
                             rng.sample(ps, rng.randrange(len(ps) + 1)) if ps else []))
            if ps and rng.random() < 0.5:
                variants.append(("random_out", [], rng.sample(ps, rng.randrange(1, min(len(ps), 3) + 1))))
        except Exception as e:  # pylint: disable=broad-except
            hist[f"skipped:pipeline_raises_{type(e).__name__}"] += 1
            continue
        for label, ins, outs in variants:
            c = build_case(origin, text, label, ins, outs, fresh(prg))
            if isinstance(c, str):
                unsupported += 1
                hist["unsupported:" + c] += 1
                continue
            cases.append(c)
            # the result of the real pass fed in again: same signature and the empty one
            if c.result_asts is not None and c.impl != c.before and rng.random() < 0.6:
                again = [("second:" + label, ins, outs)]
                if ins or outs:
                    again.append(("second:empty", [], []))
                for l2, i2, o2 in again:
                    c2 = build_case(origin, text, l2, i2, o2, fresh(c.result_asts))
                    if isinstance(c2, str):
                        unsupported += 1
                        hist["unsupported:" + c2] += 1
                    else:
                        cases.append(c2)
            c.result_asts = None

    reqs = []
    for c in cases:
        sig = f"{ser.preds(c.ins)} {ser.preds(c.outs)}"
        reqs.append(f"(unused {c.req_prog} {sig})")
        reqs.append(f"(unused_trace {c.req_prog} {sig})")
        reqs.append(f"(unused_exline {c.req_prog})")
    answers = leanio.run_batch(reqs)

    evaluations = 0
    nontrivial = 0
    mismatches = []
    branch = Counter()
    n_exec = 0
    by_origin = Counter()
    changed_by_origin = Counter()

    def mismatch(op, c, impl, model):
        mismatches.append({"op": op, "program": c.text, "inputs": ser.preds(c.ins), "outputs": ser.preds(c.outs),
                           "impl": impl, "model": model, "origin": c.origin + "/" + c.label, "request": c.req_prog})

    for i, c in enumerate(cases):
        a_exec, a_trace, a_exl = answers[3 * i], answers[3 * i + 1], answers[3 * i + 2]
        kind = c.origin.split(":")[0]
        if a_exec[0] == "unsupported":
            unsupported += 1
            hist["unsupported:lean_reader:" + ser._s(a_exec[1]).split(" ")[0]] += 1
            continue
        # ---- execute
        evaluations += 1
        n_exec += 1
        by_origin[kind] += 1
        impl = "error" if isinstance(c.impl, tuple) else c.impl
        model = "error" if a_exec[0] == "err" else a_exec[1]
        if impl != model:
            mismatch("unused", c, impl, model if model != "error" else ("error", a_exec[1]))
        if impl == "error":
            hist["unused:error:" + c.impl[1]] += 1
            nontrivial += 1
        elif impl != c.before:
            hist["unused:changed"] += 1
            changed_by_origin[kind] += 1
            nontrivial += 1
            if len(impl) < len(c.before):
                hist["unused:statements_dropped"] += 1
        else:
            hist["unused:unchanged"] += 1
        # ---- trace
        evaluations += 1
        if c.impl_trace is None:
            t_impl = "error"
        else:
            t_impl = (c.impl_trace, c.impl_memo)
        if a_trace[0] == "err":
            t_model = "error"
        else:
            t_model = ([list(it) for it in a_trace[1]],
                       sorted(((ser._s(e[0][0]), int(e[0][1])), (ser._s(e[1][0]), int(e[1][1])), ser._s(e[2]))
                              for e in a_trace[2]))
        if t_impl != t_model:
            mismatch("unused_trace", c, t_impl, t_model)
        if t_impl != "error":
            its = c.impl_trace
            hist[f"iterations:{len(its)}"] += 1
            for j, nm in enumerate(["anonymised", "projected", "rule_removed", "copy_replaced"]):
                if any(it[j] == "1" for it in its):
                    branch[nm] += 1
            if c.impl_memo:
                hist["new_names:nonempty"] += 1
                if any(m[1][0] != m[2] for m in c.impl_memo):
                    hist["new_names:fresh_suffix"] += 1
        # ---- exline
        evaluations += 1
        e_impl = "error" if isinstance(c.impl_exline, tuple) else c.impl_exline
        e_model = "error" if a_exl[0] == "err" else a_exl[1]
        if e_impl != e_model:
            mismatch("unused_exline", c, e_impl, e_model)
        if e_impl != "error" and e_impl != c.before:
            hist["exline:changed"] += 1
            nontrivial += 1
    for nm in ["anonymised", "projected", "rule_removed", "copy_replaced"]:
        hist[f"branch:{nm}"] = f"{branch[nm]}/{n_exec}"
    for k in by_origin:
        hist[f"changed_fraction:{k}"] = f"{changed_by_origin[k]}/{by_origin[k]}"
    return {"evaluations": evaluations, "nontrivial": nontrivial, "mismatches": mismatches, "unsupported": unsupported,
            "histogram": dict(hist)}


def source_digest():
    import hashlib
    import ngo.unused, ngo.normalize, ngo.dependency, ngo.utils.ast, ngo.utils.globals
    out = []
    for m in (ngo.unused, ngo.normalize, ngo.dependency, ngo.utils.ast, ngo.utils.globals):
        with open(m.__file__, "rb") as f:
            out.append(f"{m.__name__}={hashlib.md5(f.read()).hexdigest()[:12]}")
    return " ".join(out)


def main():
    print("sources:", source_digest())
    n_gen = int(sys.argv[1]) if len(sys.argv) > 1 else 2000
    seeds = [int(x) for x in sys.argv[2].split(",")] if len(sys.argv) > 2 else [0, 1, 2]
    total = {"evaluations": 0, "nontrivial": 0, "mismatches": [], "unsupported": 0}
    for seed in seeds:
        res = run(random.Random(seed), n_gen, with_corpus=True)
        print(f"seed {seed}: evaluations={res['evaluations']} nontrivial={res['nontrivial']} "
              f"mismatches={len(res['mismatches'])} unsupported={res['unsupported']}")
        for k in sorted(res["histogram"]):
            print(f"    {k}: {res['histogram'][k]}")
        for k in ("evaluations", "nontrivial", "unsupported"):
            total[k] += res[k]
        total["mismatches"] += res["mismatches"]
    print("sources:", source_digest())
    print(f"TOTAL evaluations={total['evaluations']} nontrivial={total['nontrivial']} "
          f"mismatches={len(total['mismatches'])} unsupported={total['unsupported']}")
    for m in total["mismatches"][:10]:
        print("---- MISMATCH", m["op"], m["origin"], "inputs", m["inputs"], "outputs", m["outputs"])
        print(m["program"])
        print("impl :", str(m["impl"])[:1500])
        print("model:", str(m["model"])[:1500])
    return 1 if total["mismatches"] else 0


if __name__ == "__main__":
    sys.exit(main())
