"""correspondence of the Lean model NgoVerif.Model.Duplication with ngo/literal_duplication.py
(LiteralCollector / LiteralDuplicationTranslator) and replace_assignments (ngo/utils/ast.py)

ops
  (duplication <prog> (<input preds>))   -> (ok <prog>) | (err ..)
        compared EXACTLY (statement order, aux predicate numbering, canonical variable names) with
        LiteralDuplicationTranslator(prog, inputs).execute(prog)
  (dup_replace_assignments <stm>)        -> (ok <stm>) | (err ..)          exactly, replace_assignments(stm)
  (dup_anonymize (<blit>...))            -> (ok (<blit>...) (("old" "new")...))   exactly (mapping in dict order),
        anonymize_variables(literals)
  (dup_collect <prog> <size>)            -> (ok ((<key> (<ruleid> <kind> <originals>)...)...)) exactly (dict order),
        LiteralCollector(size, prog, {}).occurences
  (ast_sorted (<blit>...))               -> (ok (<blit>...))               exactly, sorted(literals)
  (sym_cmp <sym> <sym>)                  -> (ok lt|eq|gt)                  clingo.Symbol order

inputs: program text -> clingo.ast.parse_string -> ngo.normalize.preprocess (and a `raw` variant that is not
preprocessed); input predicates: [], auto_detect_input.
"""
from __future__ import annotations

import random
import signal
import sys
from collections import Counter, defaultdict

import clingo
import corpus
import gen
import leanio
import ser
import tgen

from clingo.ast import ASTType
from ngo.literal_duplication import LiteralCollector, LiteralDuplicationTranslator, anonymize_variables
from ngo.normalize import preprocess
from ngo.utils.ast import replace_assignments
from ngo.utils.globals import auto_detect_input

TIMEOUT = 20


class Timeout(Exception):
    pass


def _alarm(signum, frame):
    raise Timeout()


# ---------------------------------------------------------------- targeted generator

D_PREDS = [("a", 1), ("b", 2), ("c", 1), ("d", 2), ("e", 1), ("f", 3), ("g", 0), ("h", 1)]
D_VARS = ["X", "Y", "Z", "W", "V"]


def _core_lit(rng, pool):
    r = rng.random()
    if r < 0.62:
        name, ar = rng.choice(D_PREDS)
        args = []
        for _ in range(ar):
            q = rng.random()
            if q < 0.75:
                args.append(rng.choice(pool))
            elif q < 0.82:
                args.append(rng.choice(["1", "2", "a"]))
            elif q < 0.87:
                args.append("_")
            elif q < 0.93:
                args.append(f"{rng.choice(pool)}+1")
            elif q < 0.97:
                args.append(f"f({rng.choice(pool)})")
            else:
                args.append(f"2*{rng.choice(pool)}")
        s = "" if rng.random() < 0.75 else rng.choice(["not ", "not not "])
        return s + (f"{name}({','.join(args)})" if ar else name)
    if r < 0.8:
        return f"{rng.choice(pool)} {rng.choice(['<', '!=', '>=', '<', '='])} {rng.choice(pool + ['1', '2'])}"
    if r < 0.87:
        return f"{rng.choice(pool)} = {rng.choice(pool)}+{rng.choice(['1', '2'])}"
    if r < 0.92:
        v = rng.choice(pool)
        return f"{rng.choice(['', 'not '])}e({v}) : a({v})" if rng.random() < 0.5 else f"c(L) : b({v},L), L > 1"
    if r < 0.97:
        v = rng.choice(pool)
        return rng.choice([f"#sum {{ L : b({v},L), c(L) }} > 1", f"#count {{ L : b({v},L) }} = {rng.choice(pool)}",
                           f"not #sum {{ L,{v} : d({v},L), c(L), a({v}) }} < 2"])
    return rng.choice(["#true", "g", "not g"])


def _rename(text, mapping):
    import re
    return re.sub(r"\b[A-Z][A-Za-z0-9_]*\b", lambda m: mapping.get(m.group(0), m.group(0)), text)


def own_program(rng) -> str:
    """2-4 places (rule bodies, conditions of conditional literals, conditions of aggregate elements, objective
    bodies) sharing a core of 2-4 literals up to a renaming of the variables"""
    nv = rng.choice([1, 2, 2, 3])
    pool = D_VARS[:nv]
    core = []
    for _ in range(rng.choice([2, 2, 3, 3, 4])):
        l = _core_lit(rng, pool)
        core.append(l)
    n_places = rng.choice([2, 2, 3, 4])
    lines = []
    targets = ["X", "Y", "Z", "W", "V", "A", "B", "C", "__AUX_0", "__AUX_1", "P"]
    for k in range(n_places):
        mapping = {}
        if rng.random() < 0.7:
            names = rng.sample(targets, nv)
            mapping = dict(zip(pool, names))
        lits = [_rename(l, mapping) for l in core if rng.random() < 0.93]
        lvars = [mapping.get(v, v) for v in pool]
        in_cond = rng.random()
        no_struct = [l for l in lits if ":" not in l and "#" not in l]
        extra = []
        for _ in range(rng.choice([0, 1, 1, 2])):
            e = _core_lit(rng, lvars + (["Q"] if rng.random() < 0.2 else []))
            extra.append(e)
        if rng.random() < 0.15 and lits:
            extra.append(rng.choice(lits))  # duplicate literal
        if rng.random() < 0.2:
            a, b = rng.choice(lvars), rng.choice(lvars + ["Q", "R"])
            extra.append(rng.choice([f"{a} = {b}", f"not {a} != {b}", f"{b} = {a}+1", f"{b} = {a}", f"{a} = 1..2"]))
        head = rng.choice(["", f"h{k}({rng.choice(lvars)})", f"h{k}", f"{{ h{k}({rng.choice(lvars)}) }}",
                           f"__aux_{rng.choice([1, 2])}({rng.choice(lvars)})"])
        if in_cond < 0.5:
            body = lits + extra
            rng.shuffle(body)
            if not body:
                body = ["g"]
            sep = "; " if any(":" in l for l in body) else ", "
            if rng.random() < 0.15:
                w = rng.choice(lvars + ["1"])
                body2 = [l for l in body]
                lines.append(f":~ {sep.join(body2)}. [{w}@{rng.choice(['1', '2'])},{rng.choice(lvars)}]")
            else:
                lines.append(f"{head} :- {sep.join(body)}.")
        elif in_cond < 0.75:
            cond = no_struct + [e for e in extra if ":" not in e and "#" not in e]
            rng.shuffle(cond)
            cl = f"{rng.choice(['', 'not '])}r{k}({rng.choice(lvars)}) : {', '.join(cond)}"
            others = [_core_lit(rng, lvars) for _ in range(rng.choice([0, 1, 2]))]
            if rng.random() < 0.25:
                cond2 = list(cond)
                rng.shuffle(cond2)
                others.append(f"s{k}({rng.choice(lvars)}) : {', '.join(cond2)}")
            if rng.random() < 0.1:
                others.append(cl)
            body = [cl] + others
            rng.shuffle(body)
            lines.append(f"{head} :- {'; '.join(body)}.")
        else:
            cond = no_struct + [e for e in extra if ":" not in e and "#" not in e]
            rng.shuffle(cond)
            els = [f"{rng.choice(lvars + ['1'])},{rng.choice(lvars)} : {', '.join(cond)}"]
            if rng.random() < 0.35:
                cond2 = list(cond)
                rng.shuffle(cond2)
                els.append(f"{rng.choice(lvars + ['2'])} : {', '.join(cond2 + [_core_lit(rng, lvars)] * rng.choice([0, 1]))}")
            if rng.random() < 0.1:
                els.append(els[0])
            fun = rng.choice(["#sum", "#count", "#max"])
            agg = f"{fun} {{ {'; '.join(els)} }}"
            agg = rng.choice([f"S = {agg}", f"{agg} >= 1", f"not {agg} < 2"])
            others = [_core_lit(rng, lvars) for _ in range(rng.choice([0, 1, 2]))]
            body = [agg] + others
            rng.shuffle(body)
            sep = "; " if any(":" in l for l in body) else ", "
            lines.append(f"{head} :- {sep.join(body)}.")
    if rng.random() < 0.3:
        lines.append(gen.rule(rng))
    if rng.random() < 0.15:
        lines.append(tgen.gen_duplication(rng))
    rng.shuffle(lines)
    return "\n".join(lines)



HAND = [
    # signed comparisons next to a shared literal set: only `X = t` and `not X != t` are assignments
    "far(X,Z) :- edge(X,Y), edge(Y,Z), active, not not X != Z. hop(X,Z) :- edge(X,Y), edge(Y,Z), active, not blocked(Y).",
    "far(X,Z) :- edge(X,Y), edge(Y,Z), active, not X != Z. hop(X,Z) :- edge(X,Y), edge(Y,Z), active, not blocked(Y).",
    "far(X,Z) :- edge(X,Y), edge(Y,Z), active, not not X = Z. hop(X,Z) :- edge(X,Y), edge(Y,Z), active.",
    "far(X,Z) :- edge(X,Y), edge(Y,Z), active, not X = Z. hop(X,Z) :- edge(X,Y), edge(Y,Z), active, X = Z.",
    ":~ edge(X,Y), edge(Y,I), active, not not I != 0. [I@1,X] hop(X,Z) :- edge(X,Y), edge(Y,Z), active.",
    "foo(X) :- a(X), b(X,Y), Y > 1, e(X).\nbar(Z) :- a(Z), b(Z,W), W > 1, not g(Z), Q = Z, h(Q).\n"
    ":- r(U) : a(U), b(U,V), V>1; r(U) : a(U), b(U,V), V>1, c(U).\ns(S) :- S = #sum { T : a(T), b(T,V), V>1 }.",
    ":- r(U) : a(U), b(U); s(U) : a(U), b(U).",
    ":- r(U) : a(U), b(U); r(U) : a(U), b(U).\n:- a(X), b(X), c.",
    "p :- a(X), b(X), _ = X, c(_).\nq :- a(Y), b(Y), d(Y).",
    "p :- a(X), b(X), X = X+1.\nq :- a(Y), b(Y), d(Y).",
    "p :- a(X), b(Y), X = Y = Z, c(Z).\nq :- a(Y), b(Y), d(Y).",
    "p :- a(X), b(Y), X = Y, Y = X.\nq :- a(Y), b(Y), d(Y).",
    "p(X) :- a(X), b(Y), not X != Y.\nq :- a(Y), b(Y), d(Y).",
    "p(X) :- a(X), b(Y), X = 1..2, Y = X.\nq :- a(Y), b(Y), d(Y).",
    "p(__AUX_0) :- a(X,__AUX_0), b(__AUX_0).\nq :- a(Z,Y), b(Y), d(Y).",
    "p :- a(X,Y), b(Y).\nq :- b(Y), a(X,Y).",
    "p :- a(X), a(X), b(X).\nq :- a(Y), b(Y), b(Y).",
    "p :- g, h.\nq :- g, h, a(X).\n__aux_1 :- g.",
    "p :- g, h.\nq :- g, h.\nr :- g, h.",
    "p :- #sum { L : b(X,L) } > 1, a(X), c(X).\nq(Y) :- #sum { L : b(Y,L) } > 1, a(Y).",
    "p :- c(L) : b(X,L); a(X); c(X).\nq(Y) :- c(L) : b(Y,L); a(Y).",
    "s(S) :- S = #sum { T : a(T), b(T,V); T : a(T), b(T,V) }.\nt(S) :- S = #count { T : a(T), b(T,V), c(V) }.",
    "s(S) :- S = #sum { T : a(T), b(T,V); U : a(U), b(U,V), c(U) }.",
    ":~ a(X), b(X,Y). [Y@1,X]\n:~ a(Z), b(Z,W), c(W). [W@2,Z]",
    "#minimize { Y@1,X : a(X), b(X,Y) ; W@2,Z : a(Z), b(Z,W), c(W) }.",
    "p(X) :- a(X), not c(X), d(X,Y), Y > 2.\nq(X) :- a(X), not c(X), d(X,Y), Y > 2, e(X).\nr(X) :- a(X), not c(X), e(X).",
    "__aux_1(X) :- a(X), b(X).\n__aux_2(X,Y) :- a(X), b(X), c(Y).\np :- a(Z), b(Z), c(Z).",
    "p :- a(X), b(X,Y), c(Y), d(Y,Z), e(Z).\nq :- a(X), b(X,Y), c(Y), d(Y,Z), f(Z).\nr :- c(Y), d(Y,Z), e(Z), g.",
    "p :- a(X), b(X), X < 3.\n#external q(X) : a(X), b(X).\n#show r(X) : a(X), b(X).\nq :- a(Y), b(Y), Y < 3, c.",
    "p :- a(X), b(X), 1 < X < 3.\nq :- a(Y), b(Y), 1 < Y < 3, c.",
    "p :- a(X), b(X), { c(X) } 1.\nq :- a(Y), b(Y), { c(Y) } 1, c.",
    "p :- a(X), b(X), { } 1.\nq :- a(Y), b(Y), { } 1, c.",
]

# ---------------------------------------------------------------- symbols

def random_symbol(rng, depth=0):
    r = rng.random()
    if r < 0.2:
        return clingo.Number(rng.choice([-2, -1, 0, 1, 2, 10, 11]))
    if r < 0.35:
        return clingo.String(rng.choice(["", "a", "b", "ab", "B", "a b"]))
    if r < 0.42:
        return rng.choice([clingo.Infimum, clingo.Supremum])
    name = rng.choice(["a", "b", "ab", "", "c", "B_"] if depth or rng.random() < 0.5 else ["a", "b", "ab", "c"])
    if depth > 1 or rng.random() < 0.4:
        if name == "":
            return clingo.Function("", [], True)
        return clingo.Function(name, [], rng.random() < 0.8)
    args = [random_symbol(rng, depth + 1) for _ in range(rng.choice([1, 1, 2, 3]))]
    pos = True if name == "" else rng.random() < 0.8
    return clingo.Function(name, args, pos)


# ---------------------------------------------------------------- real side

def prepare(text):
    prg = corpus.parses(text)
    if prg is None:
        return None
    return preprocess(prg)


def real_execute(prg, inputs):
    signal.signal(signal.SIGALRM, _alarm)
    signal.alarm(TIMEOUT)
    try:
        res = LiteralDuplicationTranslator(list(prg), list(inputs)).execute(list(prg))
        return ser.parse_sexp(ser.prog(res))
    except Timeout:
        raise
    except ser.Unsupported:
        raise
    except Exception as e:  # pylint: disable=broad-except
        return ("error", type(e).__name__, str(e)[:100])
    finally:
        signal.alarm(0)


def real_collect(prg, size):
    signal.signal(signal.SIGALRM, _alarm)
    signal.alarm(TIMEOUT)
    try:
        lc = LiteralCollector(size, list(prg), defaultdict(list))
        out = []
        for key, rbs in lc.occurences.items():
            rows = []
            for rb in rbs:
                kind = 0 if rb.sub_ast is None else (1 if rb.sub_sub_ast is None else 2)
                rows.append(f"({rb.ruleid} {kind} ({' '.join(ser.blit(x) for x in rb.original_literals)}))")
            out.append(f"(({' '.join(ser.blit(x) for x in key)}) ({' '.join(rows)}))")
        return ser.parse_sexp("(" + " ".join(out) + ")")
    except Timeout:
        raise
    except ser.Unsupported:
        raise
    except Exception as e:  # pylint: disable=broad-except
        return ("error", type(e).__name__, str(e)[:100])
    finally:
        signal.alarm(0)


def all_literals(prg):
    """body literals, condition literals of the program (for the sort test)"""
    out = []
    for stm in prg:
        if stm.ast_type in (ASTType.Rule, ASTType.Minimize):
            for b in stm.body:
                out.append(b)
                if b.ast_type == ASTType.ConditionalLiteral:
                    out.append(b.literal)
                    out.extend(b.condition)
                elif b.ast_type == ASTType.Literal and b.atom.ast_type == ASTType.BodyAggregate:
                    for e in b.atom.elements:
                        out.extend(e.condition)
    return out


def run(rng, n_gen, with_corpus=True, n_own=None, corpus_limit=None) -> dict:
    hist = Counter()
    texts = []
    if with_corpus:
        H = corpus.harvest()
        if corpus_limit is not None:
            H = [x for x in H if x[0] == "literal_duplication"] + rng.sample(H, min(len(H), corpus_limit))
        texts += [("corpus:" + o, t) for o, t in H]
    texts += [("hand", t) for t in HAND]
    pool = [t for _, t in corpus.harvest()]
    dup_pool = [t for o, t in corpus.harvest() if o == "literal_duplication"]
    for i in range(n_gen):
        if i % 2 == 0:
            texts.append(("gen.random_program", gen.random_program(rng)))
        else:
            r = rng.random()
            base = rng.choice(dup_pool) if r < 0.25 and dup_pool else (rng.choice(pool) if r < 0.6 else gen.random_program(rng))
            t = gen.mutate(rng, base)
            if rng.random() < 0.3:
                t = gen.mutate(rng, t)
            texts.append(("gen.mutate", t))
    for _ in range(n_gen // 4):
        t = tgen.gen_duplication(rng)
        if rng.random() < 0.5:
            t = gen.mutate(rng, t)
        texts.append(("tgen.gen_duplication", t))
    for _ in range(n_gen // 2 if n_own is None else n_own):
        t = own_program(rng)
        if rng.random() < 0.2:
            t = gen.mutate(rng, t)
        texts.append(("own", t))

    reqs = []       # request lines
    expect = []     # (op, origin, text, extra, impl)
    unsupported = 0
    pool_lits = []  # (sexp text, ast) for cross-program sort tests

    def add(op, origin, text, extra, req, impl):
        reqs.append(req)
        expect.append((op, origin, text, extra, impl))

    for origin, text in texts:
        variants = []
        try:
            prg = prepare(text)
        except Exception as e:  # pylint: disable=broad-except
            hist[f"skipped:preprocess_raises_{type(e).__name__}"] += 1
            prg = None
        if prg is None:
            hist["skipped:no_program"] += 1
        else:
            variants.append(("pre", prg))
        if rng.random() < 0.25:
            raw = corpus.parses(text)
            if raw is not None:
                variants.append(("raw", raw))
        for label, vprg in variants:
            try:
                req_prog = ser.prog(vprg)
            except ser.Unsupported:
                unsupported += 1
                hist["unsupported:ser"] += 1
                continue
            try:
                auto = auto_detect_input(vprg)
            except Exception:  # pylint: disable=broad-except
                auto = []
            input_sets = [("empty", [])]
            if auto and rng.random() < 0.5:
                input_sets.append(("auto", auto))
            for ilabel, inputs in input_sets:
                try:
                    impl = real_execute(vprg, inputs)
                except Timeout:
                    hist["skipped:timeout"] += 1
                    continue
                except ser.Unsupported:
                    unsupported += 1
                    hist["unsupported:ser_result"] += 1
                    continue
                add("duplication", origin, text, f"{label}/{ilabel} {ser.preds(inputs)}",
                    f"(duplication {req_prog} {ser.preds(inputs)})", (ser.parse_sexp(req_prog), impl))
            # ---- collector at sizes 2 and 3
            for size in (2, 3):
                if size == 3 and rng.random() < 0.5:
                    continue
                try:
                    newprg = [replace_assignments(s) for s in vprg]
                    req_new = ser.prog(newprg)
                    impl = real_collect(newprg, size)
                except (Timeout, ser.Unsupported):
                    hist["skipped:collect"] += 1
                    continue
                except Exception:  # pylint: disable=broad-except
                    continue
                add("dup_collect", origin, text, f"{label} size {size}", f"(dup_collect {req_new} {size})", impl)
            # ---- per statement
            for stm in vprg:
                if stm.ast_type not in (ASTType.Rule, ASTType.Minimize):
                    continue
                try:
                    s_req = ser.stm(stm)
                except ser.Unsupported:
                    continue
                try:
                    impl = ser.parse_sexp(ser.stm(replace_assignments(stm)))
                except ser.Unsupported:
                    continue
                except Exception as e:  # pylint: disable=broad-except
                    impl = ("error", type(e).__name__)
                ch = "*" if impl != ser.parse_sexp(s_req) else ""
                add("dup_replace_assignments", origin, str(stm), label + ch, f"(dup_replace_assignments {s_req})", impl)
                body = list(stm.body)
                if body:
                    k = rng.randrange(1, len(body) + 1)
                    sub = rng.sample(body, k)
                    try:
                        b_req = "(" + " ".join(ser.blit(x) for x in sub) + ")"
                        new, mapping = anonymize_variables(sub)
                        impl = [ser.parse_sexp("(" + " ".join(ser.blit(x) for x in new) + ")"),
                                [[("s", a), ("s", b)] for a, b in mapping.items()]]
                    except ser.Unsupported:
                        continue
                    except Exception as e:  # pylint: disable=broad-except
                        impl = ("error", type(e).__name__)
                    add("dup_anonymize", origin, str(stm), label, f"(dup_anonymize {b_req})", impl)
            # ---- sorting
            lits = all_literals(vprg)
            try:
                slits = [(ser.blit(x), x) for x in lits]
            except ser.Unsupported:
                slits = []
            pool_lits.extend(slits[:6])
            if len(pool_lits) > 400:
                pool_lits = rng.sample(pool_lits, 200)
            if slits:
                sample = [rng.choice(slits) for _ in range(rng.choice([2, 4, 8]))] + \
                         [rng.choice(pool_lits) for _ in range(rng.choice([0, 3, 6]))]
                rng.shuffle(sample)
                impl = ser.parse_sexp("(" + " ".join(ser.blit(x) for x in sorted(x for _, x in sample)) + ")")
                add("ast_sorted", origin, " ; ".join(str(x) for _, x in sample), label,
                    f"(ast_sorted ({' '.join(s for s, _ in sample)}))", impl)

    for _ in range(max(50, n_gen // 4)):
        a, b = random_symbol(rng), random_symbol(rng)
        if rng.random() < 0.1:
            b = a
        impl = "lt" if a < b else ("gt" if b < a else "eq")
        if (impl == "eq") != (a == b):
            impl = "inconsistent"
        add("sym_cmp", "symbols", f"{a} ? {b}", "", f"(sym_cmp {ser.sym(a)} {ser.sym(b)})", impl)

    answers = leanio.run_batch(reqs)

    evaluations = 0
    nontrivial = 0
    mismatches = []
    factored = Counter()
    total = Counter()
    for (op, origin, text, extra, impl), ans in zip(expect, answers):
        if ans[0] == "unsupported":
            unsupported += 1
            hist[f"unsupported:lean:{op}"] += 1
            continue
        evaluations += 1
        kind = origin.split(":")[0]
        if op == "duplication":
            before, impl = impl
            impl_v = "error" if isinstance(impl, tuple) else impl
            model = "error" if ans[0] == "err" else ans[1]
            total[kind] += 1
            if impl_v == "error":
                hist["duplication:error"] += 1
                hist[f"duplication:error:{impl[1]}"] += 1
                nontrivial += 1
            elif len(impl_v) > len(before):
                hist["duplication:factored_out"] += 1
                hist[f"duplication:new_rules_{min(len(impl_v) - len(before), 5)}{'+' if len(impl_v) - len(before) >= 5 else ''}"] += 1
                factored[kind] += 1
                nontrivial += 1
            elif impl_v != before:
                hist["duplication:changed_without_new_rule"] += 1
                nontrivial += 1
            else:
                hist["duplication:unchanged"] += 1
        elif op == "sym_cmp":
            impl_v = impl
            model = ans[1]
            nontrivial += 1
        else:
            impl_v = "error" if isinstance(impl, tuple) else impl
            if ans[0] == "err":
                model = "error"
            elif op == "dup_anonymize":
                model = [ans[1], ans[2]]
            else:
                model = ans[1]
            if op == "dup_collect":
                if impl_v == "error":
                    hist["collect:error"] += 1
                elif impl_v:
                    hist["collect:nonempty"] += 1
                    nontrivial += 1
                    if any(len(e[1]) > 1 for e in impl_v):
                        hist["collect:shared_key"] += 1
                    for e in impl_v:
                        if len(e[1]) > 1:
                            for rb in e[1]:
                                hist["collect:shared_occurrence_kind_" + {"0": "body", "1": "conditional", "2": "aggregate"}[rb[1]]] += 1
                else:
                    hist["collect:empty"] += 1
            elif op == "dup_replace_assignments":
                hist["replace_assignments:evaluated"] += 1
                if extra.endswith("*"):
                    hist["replace_assignments:changed"] += 1
                    nontrivial += 1
            elif op == "ast_sorted":
                hist["ast_sorted:evaluated"] += 1
                nontrivial += 1
            elif op == "dup_anonymize":
                hist["anonymize:evaluated"] += 1
                nontrivial += 1
        if impl_v != model:
            mismatches.append({"op": op, "program": text, "extra": extra, "impl": impl_v, "model": model if ans[0] != "err" else ("error", ans),
                               "origin": origin})
    for k in total:
        hist[f"factored_fraction:{k}"] = f"{factored[k]}/{total[k]}"
    return {"evaluations": evaluations, "nontrivial": nontrivial, "mismatches": mismatches, "unsupported": unsupported,
            "histogram": dict(hist)}


def main():
    n_gen = int(sys.argv[1]) if len(sys.argv) > 1 else 2000
    seeds = [int(x) for x in sys.argv[2].split(",")] if len(sys.argv) > 2 else [0, 1, 2]
    total = {"evaluations": 0, "nontrivial": 0, "mismatches": [], "unsupported": 0}
    for seed in seeds:
        res = run(random.Random(seed), n_gen, with_corpus=True)
        print(f"seed {seed}: evaluations={res['evaluations']} nontrivial={res['nontrivial']} "
              f"mismatches={len(res['mismatches'])} unsupported={res['unsupported']}")
        for k in sorted(res["histogram"]):
            print(f"    {k}: {res['histogram'][k]}")
        for k in ("evaluations", "nontrivial", "unsupported"):
            total[k] += res[k]
        total["mismatches"] += res["mismatches"]
        sys.stdout.flush()
    print(f"TOTAL evaluations={total['evaluations']} nontrivial={total['nontrivial']} "
          f"mismatches={len(total['mismatches'])} unsupported={total['unsupported']}")
    print("mismatches by op:", dict(Counter(m["op"] for m in total["mismatches"])))
    for m in total["mismatches"][:10]:
        print("---- MISMATCH", m["op"], m["origin"], m["extra"])
        print(m["program"])
        print("impl :", str(m["impl"])[:1500])
        print("model:", str(m["model"])[:1500])
    return 1 if total["mismatches"] else 0


if __name__ == "__main__":
    sys.exit(main())
