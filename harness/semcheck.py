"""Generic semantic validation of a rewrite against the real code with clingo as oracle.

A *case* is (program text, IN, OUT, trait flags).  `evaluate_case` runs the real `ngo.optimize`, solves
source+instance and result+instance for several instances and compares under the property's relation:

  relation = "voc"    : answer sets restricted to the source vocabulary, one-to-one (same number of answer sets), costs
             "inout"  : answer sets restricted to IN ∪ OUT as sets, costs
             "out"    : answer sets restricted to OUT as sets (shown atoms when OUT is auto), costs
             "all"    : whole answer sets, one-to-one, costs; facts may be over any predicate (C05)

Everything random derives from the integer seed handed in, so a case replays from (seed, index).
The function is a plain top-level function so it can run in a multiprocessing pool.
"""
from __future__ import annotations

import os
import random
import signal
import time
import traceback

ALL_TRAITS = ["cleanup", "unused", "duplication", "symmetry", "minmax_chains", "sum_chains", "math", "inline", "projection"]
OPT_TIMEOUT = 60


class Timeout(Exception):
    pass


def _alarm(signum, frame):
    raise Timeout()


def flags_only(*names):
    return {t: (t in names) for t in ALL_TRAITS}


def parse(text):
    from clingo.ast import parse_string
    out = []
    parse_string(text, out.append, logger=lambda c, m: None)
    return out


def predicates_of(prg):
    import astspec
    from clingo.ast import ASTType
    ps = set()
    for s in prg:
        if s.ast_type in (ASTType.Rule, ASTType.Minimize):
            ps.update(astspec.occurs(s))
    return ps


def constants_of(text):
    import re
    nums = set(re.findall(r"(?<![A-Za-z_])-?\d+", text))
    ids = set(re.findall(r"(?<![A-Za-z_0-9#])([a-z][a-z0-9]*)(?![A-Za-z0-9_(])", text))
    return sorted(nums)[:6], sorted(ids)[:3]


def make_instances(rng, preds, text, n):
    import gen
    nums, ids = constants_of(text)
    near = set()
    for x in nums:
        near.update([str(int(x) - 1), str(int(x) + 1)])
    vals = sorted(set(nums + ["1", "2", "3"]) | (near if rng.random() < 0.5 else set()), key=lambda x: int(x))
    mixes = [vals[:5], ["0", "-1", "2", "5"], vals[:3] + ids[:1], ["1", "2", "4", "7", "-3"], ["1"], vals[-4:],
             rng.sample(vals, min(len(vals), 4)), ["-2", "2", "3", "5"]]
    # non-injective arithmetic (|x|, x\\k, x/k, x**2): values that collide under it must occur together
    collide = any(op in text for op in ("|", "\\", "/", "**"))
    if collide:
        mixes += [["-2", "2", "-1", "1"], ["-2", "2", "3", "5"], ["-3", "3", "1", "4"]]
    out = [""]
    preds = sorted(preds)
    for k in range(n - 1):
        dom = rng.choice(mixes)
        if k >= 4 and k % 2 == 0:
            # dense instances over a tiny domain: joins succeed, ties and "all values present" situations occur
            generic = [["1", "2"], ["1", "2", "3"], ["0", "1"], (ids[:1] or ["a"]) + ["1", "2"]] \
                + ([["-2", "2", "3"], ["-1", "1", "2"], ["-2", "2", "5", "3"]] * 2 if collide else [])
            # dense AND boundary-aware: tiny domains straddling a constant of the program
            big = [c for c in nums if abs(int(c)) > 3][-3:]
            boundary = [[str(int(c) - 1), str(int(c) + 1), "1"] for c in big] + [[str(int(c)), str(int(c) + 2), "1", "2"] for c in big]
            dom = rng.choice(boundary) if boundary and rng.random() < 0.6 else rng.choice(generic + boundary)
            facts = []
            for name, ar in preds:
                if ar == 0:
                    if rng.random() < 0.7:
                        facts.append(f"{name}.")
                    continue
                import itertools
                allt = list(itertools.product(dom, repeat=ar))
                rng.shuffle(allt)
                for tup in allt[:rng.choice([1, 2, 3, 4, 6, 8])]:
                    facts.append(f"{name}({','.join(tup)}).")
            out.append(" ".join(facts))
            continue
        facts = []
        for name, ar in preds:
            if ar == 0:
                if rng.random() < 0.6:
                    facts.append(f"{name}.")
                continue
            cnt = rng.choice([1, 2, 3, 3, 4, 5]) if k < 2 else rng.choice([0, 1, 2, 4])
            for _ in range(cnt):
                facts.append(f"{name}({','.join(rng.choice(dom) for _ in range(ar))}).")
        if facts and rng.random() < 0.25:
            facts.append(rng.choice(facts))
        out.append(" ".join(facts))
    return out


def run_optimize(text, inp, outp, flags, trace=None):
    """returns (result statements, None) or (None, error string)"""
    import ngo.api
    from ngo import optimize
    prg = parse(text)
    i, o = resolve_declarations(prg, text, inp, outp)
    old = signal.signal(signal.SIGALRM, _alarm)
    signal.alarm(OPT_TIMEOUT)
    try:
        ngo.api.VERIF_HOOK = trace
        res = optimize(prg, i, o, **flags)
        return prg, res, i, o, None
    except Timeout:
        return prg, None, i, o, "timeout"
    except BaseException as e:  # noqa
        return prg, None, i, o, f"{type(e).__name__}: {e}"
    finally:
        signal.alarm(0)
        signal.signal(signal.SIGALRM, old)
        ngo.api.VERIF_HOOK = None


def resolve_declarations(prg, text, inp, outp):
    """'auto' = ngo's own detection; ('auto+', seed) = detected inputs plus a seed-chosen subset of the head predicates
    (the property allows any IN that contains the predicates without rules); ('random', seed) = a seed-chosen subset of
    the program's predicates as OUT"""
    import astspec
    from ngo import auto_detect_input, auto_detect_output
    from ngo.utils.ast import Predicate
    if inp == "auto":
        i = auto_detect_input(prg)
    elif isinstance(inp, (list, tuple)) and len(inp) == 2 and inp[0] == "auto+":
        rng = random.Random(f"in:{inp[1]}:{text}")
        heads = set()
        for s in prg:
            heads.update(astspec.pos_head(s))
        extra = [Predicate(n, a) for n, a in sorted(heads) if rng.random() < 0.4]
        i = list(auto_detect_input(prg))
        i += [p for p in extra if p not in i]
    else:
        i = [Predicate(n, a) for n, a in inp]
    if outp == "auto":
        o = auto_detect_output(prg)
    elif isinstance(outp, (list, tuple)) and len(outp) == 2 and outp[0] == "random":
        rng = random.Random(f"out:{outp[1]}:{text}")
        o = [Predicate(n, a) for n, a in sorted(predicates_of(prg)) if rng.random() < 0.5]
    else:
        o = [Predicate(n, a) for n, a in outp]
    return i, o


def text_of(stms):
    return "\n".join(str(s) for s in stms)


def evaluate_case(case):
    """case = dict(program, inp, outp, flags, relation, seed, n_inst, facts_over ('in'|'any'), label)
    returns dict(status, ...) ; status in ok | changed-ok | crash | unsafe-source | mismatch | broken-result"""
    import oracle
    t0 = time.time()
    rng = random.Random(case["seed"])
    text = case["program"]
    rec = {"label": case.get("label"), "program": text, "flags": case["flags"], "inp": case["inp"], "outp": case["outp"],
           "relation": case["relation"], "seed": case["seed"]}
    try:
        prg, res, i, o, err = run_optimize(text, case["inp"], case["outp"], case["flags"])
    except RuntimeError as e:
        rec.update(status="unparsable", error=str(e))
        return rec
    rec["IN"] = [[p.name, p.arity] for p in i]
    rec["OUT"] = [[p.name, p.arity] for p in o]
    if err is not None:
        rec.update(status="crash", error=err)
        return rec
    src_text = text
    res_text = text_of(res)
    rec["result"] = res_text
    rec["changed"] = text_of(run_optimize.__globals__["parse"](text)) != res_text
    voc = predicates_of(prg)
    inset = set((p.name, p.arity) for p in i)
    outset = set((p.name, p.arity) for p in o)
    rel = case["relation"]
    if rel in ("voc", "all"):
        project = voc
    elif rel == "inout":
        project = inset | outset
    else:
        project = outset
    use_shown = False
    terms_only = False
    if rel == "out" and case["outp"] == "auto":
        from clingo.ast import ASTType as _T
        use_shown = any(st.ast_type in (_T.ShowSignature, _T.ShowTerm) for st in prg)
        terms_only = not any(st.ast_type == _T.ShowSignature for st in prg)
    fact_preds = voc if case.get("facts_over") == "any" else (inset & voc)
    insts = case.get("instances") or (list(case.get("extra_instances") or []) + make_instances(rng, fact_preds, text, case.get("n_inst", 4)))
    rec["compared"] = 0
    rec["skipped"] = 0
    budget = float(os.environ.get("VERIF_CASE_SECONDS", "0") or 0) or (25.0 if os.environ.get("VERIF_TIER_EFFECTIVE", "quick") == "quick" else 90.0)
    for inst in insts:
        if not case.get("instances") and time.time() - t0 > budget:
            # a case must not hold the whole pool: the instances not reached are counted as skipped
            rec["skipped"] += 1
            continue
        try:
            a = oracle.shown(src_text + "\n" + inst, terms_only=terms_only) if use_shown else oracle.solve_text(src_text + "\n" + inst, project)
        except oracle.Skip:
            rec["skipped"] += 1
            continue
        except oracle.Broken as e:
            rec.setdefault("unsafe_source", str(e)[:200])
            rec["skipped"] += 1
            continue
        try:
            # warnings of the result alone are not a difference: its answer sets are compared all the same
            b = oracle.shown(res_text + "\n" + inst, allow_undefined=True, terms_only=terms_only) if use_shown else \
                oracle.solve_text(res_text + "\n" + inst, project, allow_undefined=True)
        except oracle.Skip:
            rec["skipped"] += 1
            continue
        except oracle.Broken as e:
            rec.update(status="broken-result", instance=inst, why=str(e)[:300])
            return rec
        rec["compared"] += 1
        res_undefined = oracle.LAST["undefined"]
        one2one = rel in ("voc", "all") and case.get("one_to_one", True)
        if a != b:
            rec.update(status="mismatch", instance=inst, source_models=oracle.describe(a - b), result_models=oracle.describe(b - a),
                       why="projected answer sets / costs differ", result_undefined=res_undefined)
            return rec
        if one2one:
            try:
                na = len(oracle.solve_text(src_text + "\n" + inst, None, with_cost=False))
                nb = len(oracle.solve_text(res_text + "\n" + inst, None, with_cost=False))
            except (oracle.Skip, oracle.Broken):
                continue
            if na != nb:
                rec.update(status="mismatch", instance=inst, why=f"number of answer sets differs: {na} vs {nb} (not one-to-one)")
                return rec
    rec["status"] = "ok"
    rec["wall"] = round(time.time() - t0, 2)
    return rec


def minimise(rec, max_steps=60):
    """statement-level and fact-level delta debugging of a failing record; returns the smallest still failing record"""
    import re
    best = rec

    # declarations are frozen to what the failing run actually used, so they do not drift while the program shrinks
    fixed_in = [tuple(x) for x in rec.get("IN", [])] if rec.get("inp") != "auto" else "auto"
    fixed_out = [tuple(x) for x in rec.get("OUT", [])] if rec.get("outp") != "auto" else "auto"

    def fails(program, instance):
        c = {"program": program, "inp": fixed_in, "outp": fixed_out, "flags": best["flags"], "relation": best["relation"],
             "seed": best["seed"], "instances": [instance], "label": best.get("label")}
        try:
            r = evaluate_case(c)
        except Exception:  # noqa
            return None
        if r["status"] not in ("mismatch", "broken-result"):
            return None
        # never drift into the territory of a known defect while shrinking: a candidate that falsifies a hypothesis the
        # current input satisfies fails for a different reason and is rejected
        import hyp
        k = hyp.falsified(program, best["flags"], r)
        if base_keys[0] is not None and not k <= base_keys[0]:
            return None
        r["_keys"] = k
        return r

    base_keys = [None]
    steps = 0
    # shrinking is a convenience for the reader and for precise attribution; it must not dominate a quick run
    deadline = time.time() + (15.0 if os.environ.get("VERIF_TIER_EFFECTIVE", "quick") == "quick" else 90.0)
    stms = [str(s) for s in parse(best["program"])]
    stms = [s for s in stms if s != "#program base."]
    inst = best.get("instance", "")
    r0 = fails("\n".join(stms), inst)
    if r0 is None:
        return best
    best = r0
    base_keys[0] = r0["_keys"]
    changed = True
    while changed and steps < max_steps and time.time() < deadline:
        changed = False
        for k in range(len(stms)):
            if time.time() > deadline:
                break
            steps += 1
            cand = stms[:k] + stms[k + 1:]
            if not cand:
                continue
            r = fails("\n".join(cand), inst)
            if r is not None:
                stms, best, changed = cand, r, True
                base_keys[0] = r["_keys"]
                break
        if changed:
            continue
        facts = [f + "." for f in re.split(r"\.\s*", inst) if f.strip()]
        for k in range(len(facts)):
            if time.time() > deadline:
                break
            steps += 1
            cand = " ".join(facts[:k] + facts[k + 1:])
            r = fails("\n".join(stms), cand)
            if r is not None:
                inst, best, changed = cand, r, True
                base_keys[0] = r["_keys"]
                break
    best["minimised"] = True
    return best


def _child(fn, item, conn):
    import resource
    try:
        resource.setrlimit(resource.RLIMIT_AS, (6 * 1024 ** 3, 6 * 1024 ** 3))
    except (ValueError, OSError):
        pass
    try:
        conn.send(("ok", fn(item)))
    except MemoryError:
        conn.send(("err", "MemoryError"))
    except BaseException as e:  # noqa
        conn.send(("err", f"{type(e).__name__}: {e}"))
    finally:
        conn.close()


def pool_map(fn, items, workers=None, task_timeout=None):
    """fork one child per item (cheap: modules are already imported), at most `workers` at a time; a child that runs
    longer than task_timeout seconds or exceeds 6 GB is killed and its item reported as {"status": "killed"}"""
    import multiprocessing as mp
    if task_timeout is None:
        # a grounding that explodes cannot be interrupted from inside; the child is killed and its case counted as skipped
        task_timeout = 45 if os.environ.get("VERIF_TIER_EFFECTIVE", "quick") == "quick" else 240
    workers = workers or min(14, os.cpu_count() or 4)
    ctx = mp.get_context("fork")
    results = [None] * len(items)
    running = {}
    nxt = 0
    while nxt < len(items) or running:
        while nxt < len(items) and len(running) < workers:
            parent, child = ctx.Pipe(duplex=False)
            p = ctx.Process(target=_child, args=(fn, items[nxt], child))
            p.start()
            child.close()
            running[nxt] = (p, parent, time.time())
            nxt += 1
        done = []
        for k, (p, conn, t0) in running.items():
            if conn.poll(0):
                try:
                    tag, val = conn.recv()
                except (EOFError, OSError):
                    tag, val = "err", "child died"
                results[k] = val if tag == "ok" else {"status": "killed", "error": val}
                # the answer is in: a child that is slow to exit (clingo tearing down a large grounding or a cancelled
                # solver thread) must not block the pool
                p.join(0.2)
                if p.is_alive():
                    p.kill()
                    p.join()
                done.append(k)
            elif not p.is_alive():
                results[k] = {"status": "killed", "error": f"child exit {p.exitcode}"}
                p.join()
                done.append(k)
            elif time.time() - t0 > task_timeout:
                p.kill()
                p.join()
                results[k] = {"status": "killed", "error": "timeout"}
                done.append(k)
        for k in done:
            running[k][1].close()
            del running[k]
        if not done:
            time.sleep(0.01)
    return results
