"""correspondence of the Lean models Model/Binding.lean and Model/Projection.lean with the real Python functions

    PYTHONPATH=/tmp/model/binding/harness:/repo/src /venv/bin/python corr_binding.py

`run(rng, n_gen)` evaluates, on the programs of corpus.harvest() and on `n_gen` generated / mutated / "splittable"
programs:

 * binding ops (`binding_body` with and without prebound, `binding_head`, `global_body`, `global_head`,
   `bound_vars`) on every Rule / Minimize, raw as parsed AND after `ngo.normalize.preprocess`;
 * `unsafe_term` on the terms of those statements, `largest_subset` for n = 0..6;
 * for a few rules: `good_split` and the sub-list binding queries it makes, for every `new`/`rest` pair that
   `project_rule` enumerates;
 * `projection` on preprocess + inline_arithmetic of the program.

The real result is serialised with `ser` and compared exactly with the parsed answer of the Lean driver; sets of
variables are compared as sorted name lists; a Python exception corresponds to `(err "assert: …")`;
`(err "fuel: …")` is always a mismatch; `(unsupported …)` answers are counted and never compared.
"""
from __future__ import annotations

import logging
import os
import random
import sys

sys.path.insert(0, os.path.dirname(os.path.abspath(__file__)))

from clingo.ast import ASTType, Variable  # noqa: E402

import corpus  # noqa: E402
import gen  # noqa: E402
import leanio  # noqa: E402
import ser  # noqa: E402

import ngo.projection as P  # noqa: E402
from ngo.normalize import inline_arithmetic, preprocess  # noqa: E402
from ngo.utils import ast as U  # noqa: E402
from ngo.utils.ast import Predicate  # noqa: E402

logging.disable(logging.CRITICAL)

MAX_BODY = 10  # 2^n candidate splits per rule: larger bodies are skipped on both sides
ERROR = "error"


# ---------------------------------------------------------------- extra generator: rules that split

def split_rule(rng: random.Random) -> str:
    """rules with 3-6 body literals over few variables, in the shape of the tests of test_projection.py"""
    pool = rng.sample(["A", "B", "C", "D", "E", "F"], rng.choice([3, 4, 4, 5, 6]))
    preds = ["q", "r", "s", "t", "u", "v", "w"]
    hv = rng.sample(pool, rng.choice([1, 1, 2, 2, 3]) if len(pool) > 2 else 1)
    r = rng.random()
    if r < 0.8:
        head = f"p({','.join(hv)})"
    elif r < 0.87:
        head = ""
    elif r < 0.94:
        head = f"{{ p({','.join(hv)}) : z({rng.choice(pool)}) }}"
    else:
        head = f"p({hv[0]}) ; pp({hv[-1]})"
    n = rng.choice([3, 4, 4, 5, 5, 6])
    lits = []
    for _ in range(n):
        x = rng.random()
        if x < 0.72:
            ar = rng.choice([1, 2, 2, 3])
            args = [rng.choice(pool) if rng.random() < 0.9 else rng.choice(["_", "1", "X+1", "a"]) for _ in range(ar)]
            args = [a.replace("X", rng.choice(pool)) for a in args]
            s = "" if rng.random() < 0.75 else ("not " if rng.random() < 0.85 else "not not ")
            lits.append(f"{s}{rng.choice(preds)}({','.join(args)})")
        elif x < 0.85:
            a, b = rng.choice(pool), rng.choice(pool + ["1", "2"])
            lits.append(f"{a} {rng.choice(['<', '!=', '=', '<=', '='])} {b}{rng.choice(['', '', '+1', '*2'])}")
        elif x < 0.93:
            a, b, c = rng.choice(pool), rng.choice(pool + ["L"]), rng.choice(pool)
            lits.append(f"{a} {rng.choice(['=', '=', '<='])} #sum {{ {b},{c} : {rng.choice(preds)}({b},{c}) }}")
        elif x < 0.97:
            a, b = rng.choice(pool), rng.choice(pool + ["L"])
            lits.append(f"{rng.choice(preds)}({a},{b}) : {rng.choice(preds)}({b})")
        else:
            lits.append(rng.choice(lits) if lits else "e")
    return f"{head} :- {', '.join(lits)}."


def split_rule2(rng: random.Random) -> str:
    """planted split: `new` literals over local + shared variables, `rest` literals over shared + own variables"""
    local = rng.sample(["B", "C", "E"], rng.choice([1, 2, 3]))
    shared = rng.sample(["A", "S"], rng.choice([1, 1, 2]))
    own = rng.sample(["D", "F"], rng.choice([1, 2]))
    preds = ["q", "r", "s", "t", "u"]
    lits = []
    for _ in range(rng.choice([2, 2, 3])):
        vs = rng.sample(local + shared, min(len(local + shared), rng.choice([1, 2, 3])))
        if not set(vs) & set(local):
            vs.append(rng.choice(local))
        lits.append(f"{rng.choice(preds)}({','.join(vs)})")
    if rng.random() < 0.5:
        neg = rng.sample(local + shared, min(len(local + shared), 2))
        lits.append(f"not {rng.choice(preds)}({','.join(neg)})")
    if rng.random() < 0.15:
        lits.append(f"{rng.choice(local)} {rng.choice(['<', '!=', '='])} {rng.choice(local + ['1'])}")
    if rng.random() < 0.1:
        lits.append(f"{rng.choice(local)} = #sum {{ L : w(L,{rng.choice(local + shared)}) }}")
    for _ in range(rng.choice([1, 1, 2])):
        vs = rng.sample(own + shared, min(len(own + shared), rng.choice([1, 2, 3])))
        if not set(vs) & set(own):
            vs.append(rng.choice(own))
        lits.append(f"{rng.choice(preds)}({','.join(vs)})")
    if rng.random() < 0.1:
        lits.append(f"{rng.choice(own)} = #count {{ L : w(L,{rng.choice(own + shared)}) }}")
    if rng.random() < 0.15:
        lits.append(rng.choice(lits))
    if rng.random() < 0.12:
        a = f"1 <= #sum {{ L : w(L,{rng.choice(local + own + shared)}) }}"
        lits += [a, a]
    rng.shuffle(lits)
    hv = shared + own if rng.random() < 0.8 else rng.sample(shared + own + local, 2)
    r = rng.random()
    if r < 0.85:
        head = f"p({','.join(hv)})"
    elif r < 0.95:
        head = f"{{ p({','.join(hv)}) }}"
    else:
        head = f"p({hv[0]}) ; pp({','.join(hv[1:])})" if len(hv) > 1 else ""
    return f"{head} :- {', '.join(lits)}."


def split_program(rng: random.Random) -> str:
    rules = [split_rule(rng) if rng.random() < 0.4 else split_rule2(rng) for _ in range(rng.choice([1, 1, 2, 3]))]
    if rng.random() < 0.25:
        rules.insert(rng.randrange(len(rules) + 1), rng.choice(
            ["__aux_1(X) :- q(X).", "__aux_1(X,Y) :- q(X,Y).", ":- __aux_2(X), not __aux_3(X,X).", "__aux_1."]))
    return "\n".join(rules)


def b_term(rng, pool, depth=0) -> str:
    r = rng.random()
    if r < 0.45 or depth > 1:
        return rng.choice(pool)
    if r < 0.55:
        return rng.choice(["1", "2", "a", "_"])
    if r < 0.6:
        v = rng.choice(pool)
        return f"{v}{rng.choice(['+', '-', '&', '?', '*'])}{v}"
    if r < 0.75:
        return f"{b_term(rng, pool, depth + 1)}{rng.choice(['+', '-', '*', '/', '\\', '**', '^', '&', '?'])}" \
               f"{b_term(rng, pool, depth + 1)}"
    if r < 0.85:
        return f"({','.join(b_term(rng, pool, depth + 1) for _ in range(rng.choice([1, 2, 2, 3])))}{',' if rng.random() < 0.2 else ''})"
    if r < 0.9:
        return f"f({b_term(rng, pool, depth + 1)})"
    if r < 0.94:
        return f"-{b_term(rng, pool, depth + 1)}"
    if r < 0.97:
        return f"|{b_term(rng, pool, depth + 1)}|"
    return f"{b_term(rng, pool, depth + 1)}..{b_term(rng, pool, depth + 1)}"


def b_lit(rng, pool, allow_complex=True) -> str:
    r = rng.random()
    sg = "" if rng.random() < 0.8 else rng.choice(["not ", "not not "])
    if r < 0.4:
        return f"{sg}{rng.choice(['q', 'r', 's'])}({','.join(b_term(rng, pool) for _ in range(rng.choice([1, 2, 3])))})"
    if r < 0.75 or not allow_complex:
        n = 1 if rng.random() < 0.8 else 2
        t = b_term(rng, pool)
        for _ in range(n):
            t += f" {rng.choice(['=', '=', '=', '<', '!=', '>='])} {b_term(rng, pool)}"
        return sg + t
    if r < 0.87:
        els = []
        for _ in range(rng.choice([1, 2])):
            els.append(f"{b_term(rng, pool)},{b_term(rng, pool)} : "
                       f"{', '.join(b_lit(rng, pool + ['L', 'M'], False) for _ in range(rng.choice([1, 2, 3])))}")
        g = rng.random()
        agg = f"{rng.choice(['#sum', '#count', '#min'])} {{ {'; '.join(els)} }}"
        if g < 0.4:
            return f"{sg}{b_term(rng, pool)} {rng.choice(['=', '=', '<'])} {agg}"
        if g < 0.7:
            return f"{sg}{agg} {rng.choice(['=', '=', '>'])} {b_term(rng, pool)}"
        if g < 0.85:
            return f"{sg}{b_term(rng, pool)} = {agg} = {b_term(rng, pool)}"
        return sg + agg
    if r < 0.97:
        return (f"{sg}{rng.choice(['q', 'r'])}({b_term(rng, pool + ['L'])},{b_term(rng, pool + ['L'])}) : "
                f"{', '.join(b_lit(rng, pool + ['L', 'M'], False) for _ in range(rng.choice([1, 2, 3])))}")
    return f"{sg}{{ q({b_term(rng, pool)}) : r({b_term(rng, pool)}) }} {rng.choice(['', '= 1', '< ' + rng.choice(pool)])}"


def binding_rule(rng: random.Random) -> str:
    """bodies full of (chained, tuple, arithmetic) equalities, conditions and aggregates over few variables"""
    pool = rng.sample(["X", "Y", "Z", "W", "V"], rng.choice([2, 3, 4]))
    body = "; ".join(b_lit(rng, pool) for _ in range(rng.choice([1, 2, 3, 4, 5])))
    r = rng.random()
    hp = pool + ["H"]
    if r < 0.45:
        head = f"p({','.join(b_term(rng, hp) for _ in range(rng.choice([1, 2])))})"
    elif r < 0.55:
        head = ""
    elif r < 0.7:
        head = "; ".join(f"p({b_term(rng, hp)}) : {', '.join(b_lit(rng, hp + ['L'], False) for _ in range(rng.choice([1, 2])))}"
                         for _ in range(2))
    elif r < 0.85:
        els = "; ".join(f"p({b_term(rng, hp)},{rng.choice(hp + ['L'])}) : "
                        f"{', '.join(b_lit(rng, hp + ['L'], False) for _ in range(rng.choice([0, 1, 2])))}"
                        for _ in range(rng.choice([1, 2])))
        head = f"{rng.choice(['', '1 ', 'H '])}{{ {els} }}{rng.choice(['', ' 2', ' = ' + rng.choice(hp)])}"
    else:
        els = "; ".join(f"{b_term(rng, hp)},{rng.choice(hp + ['L'])} : p({b_term(rng, hp + ['L'])}) : "
                        f"{', '.join(b_lit(rng, hp + ['L'], False) for _ in range(rng.choice([0, 1, 2])))}"
                        for _ in range(rng.choice([1, 2])))
        head = f"{rng.choice(['', '1 <= ', 'H = '])}#sum {{ {els} }}{rng.choice(['', ' <= 2', ' = ' + rng.choice(hp)])}"
    if rng.random() < 0.08:
        return f":~ {body}. [{b_term(rng, pool)}@1,{b_term(rng, pool)}]"
    return f"{head} :- {body}."


TEST_PROGRAMS = [
    "p(A,D) :- q(A,B,C), r(A,D), t(E), not s(B,E).",
    "p(A,D) :- q(A,B,_), r(A,B), not t(B).",
    "p(A,D) :- q(A,B,C); r(A,D); t(B,D).",
    "p(A,D) :- q(A,B,C), r(A,D), E = #sum { 1 }, not s(B,E), D = #sum { 2 }.",
    "__aux_1(A) :- z(A).\np(A,D) :- q(A,B,C), r(A,D), t(E), not s(B,E).\np(A,D) :- q(A,B,C), r(A,D), t(E), not s(B,E).",
    "p(A,D) :- q(A,B,C), r(A,D), t(E), not s(B,E), t(E), q(A,B,C).",
    "a :- b, { c }.",
    "a :- b, { }.",
    "a(X) :- (X,Y) = (1,Z), Z = 2, b(Y).",
    "a(X) :- X = Y*2, Y = (Z*2)+1, b(Z), W = -|Z|, |V| = Z.",
    "a(X) :- X+X = 2, Y-Y = X, b(Z+Z), c(W), W+W = V.",
    "p(A,D) :- q(A,B,C), r(A,D), t(E), not s(B,E), E = #sum { X : w(X) }, E = #sum { X : w(X) }.",
    "p(A,D) :- E = #sum { X : w(X) }, q(A,B,C), r(A,D), t(E), E = #sum { X : w(X) }, not s(B,E).",
    "p(A,D) :- 1 <= #sum { X : w(X,B) }, q(A,B,C), r(A,D), t(E), 1 <= #sum { X : w(X,B) }, not s(B,E).",
    "p(A,D) :- 1 <= #sum { X : w(X,D) }, q(A,B,C), r(A,D), t(E), 1 <= #sum { X : w(X,D) }, not s(B,E).",
    "p(A,D) :- q(A,B,C), r(A,D), t(E), not s(B,E),\n 1 <= #sum { X : w(X,D) }, 1 <= #sum { X : w(X,B) },\n"
    " 1 <= #sum { X : w(X,B) }, 1 <= #sum { X : w(X,D) }.",
    "p(A,D) :- q(A,B,C), q(A,B,C), r(A,D), t(E), t(E), not s(B,E), r(A,D).",
    "a :- b, b.",
    "a(X) :- b(X), b(X), { c(X) }.",
    "a(X) :- { c(X) } 1.",
    "a(X) :- #sum { L : q(L), L = X+1 } = 1, q(X).",
    "a(X) :- q(X), #sum { L : q(L), L = X+1 } = 1.",
]


# ---------------------------------------------------------------- real side

def names(vs) -> list[str]:
    return sorted(v.name for v in vs)


def real(f):
    """evaluate f(); a Python exception is the value `error`"""
    try:
        return f()
    except Exception:  # pylint: disable=broad-except  (AssertionError, ValueError, …: type not compared)
        return ERROR


def r_pair(f):
    def g():
        a, b = f()
        return [names(a), names(b)]
    return real(g)


def r_set(f):
    return real(lambda: [names(f())])


def all_vars(asts) -> list[str]:
    vs = set()
    for a in asts:
        vs.update(v.name for v in U.collect_ast(a, "Variable"))
    return sorted(vs)


def terms_of(stm):
    """some interesting terms: arguments of symbolic atoms and sides of comparisons"""
    res = []
    for f in U.collect_ast(stm, "SymbolicAtom"):
        if f.symbol.ast_type == ASTType.Function:
            res.extend(f.symbol.arguments)
    for c in U.collect_ast(stm, "Comparison"):
        res.append(c.term)
        res.extend(g.term for g in c.guards)
    return res


# ---------------------------------------------------------------- model answers

def strs(x):
    return [ser._s(s) for s in x]  # pylint: disable=protected-access


def decode(op, ans):
    """model answer -> comparable python value, or None for unsupported"""
    k = ans[0]
    if k == "unsupported":
        return None
    if k == "err":
        msg = ser._s(ans[1])  # pylint: disable=protected-access
        return ERROR if msg.startswith("assert") else "MODEL-" + msg
    assert k == "ok", ans
    if op in ("binding_body", "binding_head"):
        return [strs(ans[1]), strs(ans[2])]
    if op in ("global_body", "global_head", "bound_vars"):
        return [strs(ans[1])]
    if op == "unsafe_term":
        return [ans[1] == "1", ans[2] == "1"]
    if op == "largest_subset":
        return [[int(i) for i in s] for s in ans[1]]
    if op == "good_split":
        return "NoneType" if ans[1] == "none" else strs(ans[1])
    if op == "projection":
        return ans[1]
    raise ValueError(op)


class Collector:
    def __init__(self):
        self.reqs: list[str] = []
        self.meta: list[tuple] = []  # (op, program text, real value, nontrivial, branch)
        self.seen: set[str] = set()
        self.unsupported = 0
        self.hist: dict[str, int] = {}
        self.kinds: list[tuple[str, bool]] = []

    def bump(self, key, n=1):
        self.hist[key] = self.hist.get(key, 0) + n

    def add(self, op, text, build_req, value, nontrivial, branch=None):
        """build_req() may raise ser.Unsupported"""
        try:
            req = build_req()
        except ser.Unsupported:
            self.unsupported += 1
            self.bump("unsupported:ser")
            return
        if req in self.seen:
            return
        self.seen.add(req)
        self.reqs.append(req)
        self.meta.append((op, text, value, nontrivial, branch))


def q_names(ns) -> str:
    return "(" + " ".join(ser.q(n) for n in ns) + ")"


def binding_cases(col: Collector, rng, text, stm, tag):
    """all binding ops on one Rule / Minimize"""
    body = list(stm.body)
    sb = lambda: ser.body(body)  # noqa: E731
    v = r_pair(lambda: U.collect_binding_information_body(body))
    col.add("binding_body", text, lambda: f"(binding_body {sb()} none)", v, v != ERROR and bool(v[0] or v[1]),
            f"body:{tag}")
    vs = all_vars(body)
    if vs and rng.random() < 0.5:
        pre = sorted(set(rng.sample(vs, rng.randint(1, len(vs))) + (["_"] if rng.random() < 0.1 else [])))
        if rng.random() < 0.15:
            pre.append("Fresh")
        pset = {Variable(ser.LOC, n) for n in pre}
        keep = set(pset)
        v = r_pair(lambda: U.collect_binding_information_body(body, pset))
        assert pset == keep, "prebound was mutated"
        col.add("binding_body", text, lambda: f"(binding_body {sb()} {q_names(pre)})", v,
                v != ERROR and bool(v[0] or v[1]), f"body+prebound:{tag}")
    v = r_set(lambda: U.global_vars_inside_body(body))
    col.add("global_body", text, lambda: f"(global_body {sb()})", v, v != ERROR and bool(v[0]), f"global_body:{tag}")
    v = r_set(lambda: U.collect_bound_variables(body))
    col.add("bound_vars", text, lambda: f"(bound_vars {sb()})", v, v != ERROR and bool(v[0]), f"bound_vars:{tag}")
    if stm.ast_type == ASTType.Rule:
        head = stm.head
        v = r_pair(lambda: U.collect_binding_information_head(head, body))
        col.add("binding_head", text, lambda: f"(binding_head {ser.head(head)} {sb()})", v,
                v != ERROR and bool(v[0] or v[1]), f"head:{tag}:{str(head.ast_type)[8:]}")
        v = r_set(lambda: U.global_vars_inside_head(head))
        col.add("global_head", text, lambda: f"(global_head {ser.head(head)})", v, v != ERROR and bool(v[0]),
                f"global_head:{tag}")
    for t in terms_of(stm):
        v = [U.has_interval(t), U.has_unsafe_operation(t)]
        col.add("unsafe_term", text, lambda t=t: f"(unsafe_term {ser.term(t)})", v, any(v), "unsafe_term")


def split_cases(col: Collector, text, pro, stm):
    """good_split and the sub-list queries it makes, for every candidate of project_rule"""
    body = list(stm.body)
    for new_t in U.largest_subset(body):
        new = list(new_t)
        rest = [x for x in body if x not in new]
        sn, sr = (lambda new=new: ser.body(new)), (lambda rest=rest: ser.body(rest))

        def gs(new=new, rest=rest):
            r = pro.good_split(new, rest, stm)
            return "NoneType" if r is None else [v.name for v in r]
        v = real(gs)
        col.add("good_split", text, lambda sn=sn, sr=sr: f"(good_split {sn()} {sr()} {ser.stm(stm)})", v,
                v not in (ERROR, "NoneType"), "good_split:" + ("split" if v not in (ERROR, "NoneType") else str(v)))
        v = r_pair(lambda new=new: U.collect_binding_information_body(new))
        col.add("binding_body", text, lambda sn=sn: f"(binding_body {sn()} none)", v,
                v != ERROR and bool(v[0] or v[1]), "body:sublist")
        gn = r_set(lambda new=new: U.global_vars_inside_body(new))
        col.add("global_body", text, lambda sn=sn: f"(global_body {sn()})", gn, gn != ERROR and bool(gn[0]),
                "global_body:sublist")
        gh = r_set(lambda: U.global_vars_inside_head(stm.head))
        if gn != ERROR and gh != ERROR:
            vir = set(all_vars(rest)) - {"_"}
            t = sorted(set(gn[0]) & (vir | set(gh[0])))
            tset = {Variable(ser.LOC, n) for n in t}
            v = r_pair(lambda rest=rest, tset=tset: U.collect_binding_information_body(rest, tset))
            col.add("binding_body", text, lambda sr=sr, t=t: f"(binding_body {sr()} {q_names(t)})", v,
                    v != ERROR and bool(v[0] or v[1]), "body+prebound:sublist")


def all_preds(prg) -> set:
    res = set()
    for stm in prg:
        for sp in U.predicates(stm):
            res.add(sp.pred)
    return res


def projection_case(col: Collector, rng, text, pre, n_split_rules, kind="", raw=False):
    """pre = preprocess(parsed program); with raw=True `pre` is the program as parsed and no inline_arithmetic is
    applied (not what the pipeline does, but the function accepts it: old-style body aggregates -> assert)"""
    try:
        post = list(pre) if raw else inline_arithmetic(pre)
    except Exception:  # pylint: disable=broad-except
        col.bump("skip:inline_arithmetic raised")
        return
    if any(s.ast_type == ASTType.Rule and len(s.body) > MAX_BODY for s in post):
        col.bump("skip:body too long")
        return
    r = rng.random()
    if r < 0.4:
        inputs = []
    elif r < 0.7:
        inputs = [Predicate("__aux_1", rng.choice([0, 1, 2])), Predicate("__aux_2", rng.choice([1, 2]))]
    else:
        inputs = sorted(p for p in all_preds(pre) if rng.random() < 0.4) + [Predicate("__aux_1", 1)]
    # good_split queries on a few rules (a separate translator: good_split does not touch the name state)
    if n_split_rules:
        pro0 = P.ProjectionTranslator(pre, inputs)
        cands = [s for s in post if s.ast_type == ASTType.Rule and 2 <= len(s.body) <= 6]
        for stm in cands[:n_split_rules]:
            split_cases(col, text, pro0, stm)
    # the pass as api.py runs it: names from the program BEFORE inline_arithmetic, execute on it; here execute
    # gets the inlined program and its own inline_arithmetic step is the identity
    pro = P.ProjectionTranslator(pre, inputs)
    saved = P.inline_arithmetic
    P.inline_arithmetic = list
    try:
        def ex():
            return ser.parse_sexp(ser.prog(pro.execute(post)))
        try:
            res = real(ex)
        except ser.Unsupported:
            col.unsupported += 1
            col.bump("unsupported:ser")
            return
    finally:
        P.inline_arithmetic = saved
    # UniqueNames knows inputs + predicates(pre); the model derives predicates(post) itself
    extra = sorted(all_preds(pre) - all_preds(post))
    if extra:
        col.bump("projection:preds lost by inline_arithmetic")
    split = False
    branch = f"projection{'(raw)' if raw else ''}:error"
    if res != ERROR:
        n_in = sum(1 for s in post)
        split = len(res) > n_in
        branch = f"projection{'(raw)' if raw else ''}:{'split' if split else 'nosplit'}"
        if not raw:
            col.kinds.append((kind, split))
        if split:
            col.bump("projection:rules split", len(res) - n_in)
    col.add("projection", text, lambda: f"(projection {ser.prog(post)} {ser.preds(list(inputs) + extra)})", res, split,
            branch)


def program_cases(col: Collector, rng, text, n_split_rules, kind=""):
    prg = corpus.parses(text)
    if prg is None:
        col.bump("skip:unparsable")
        return
    for stm in prg:
        if stm.ast_type in (ASTType.Rule, ASTType.Minimize):
            binding_cases(col, rng, text, stm, "raw")
    projection_case(col, rng, text, prg, 1 if n_split_rules else 0, kind, raw=True)
    try:
        pre = preprocess(prg)
    except Exception:  # pylint: disable=broad-except
        col.bump("skip:preprocess raised")
        return
    for stm in pre:
        if stm.ast_type in (ASTType.Rule, ASTType.Minimize):
            binding_cases(col, rng, text, stm, "pre")
    projection_case(col, rng, text, pre, n_split_rules, kind)


def make_texts(rng, n_gen, corpus_limit=None):
    harvested = corpus.harvest()
    texts = [(f"corpus:{o}", t) for o, t in harvested]
    if corpus_limit is not None and len(texts) > corpus_limit:
        texts = rng.sample(texts, corpus_limit)
    texts += [("tests", t) for t in TEST_PROGRAMS]
    for i in range(n_gen):
        r = rng.random()
        if r < 0.25:
            texts.append((f"gen:{i}", gen.random_program(rng)))
        elif r < 0.45:
            base = rng.choice(harvested)[1] if rng.random() < 0.6 else gen.random_program(rng)
            for _ in range(rng.choice([1, 1, 2, 3])):
                base = gen.mutate(rng, base)
            texts.append((f"mut:{i}", base))
        elif r < 0.65:
            texts.append((f"bind:{i}", "\n".join(binding_rule(rng) for _ in range(rng.choice([1, 2, 3])))))
        elif r < 0.93:
            texts.append((f"split:{i}", split_program(rng)))
        else:
            base = split_program(rng)
            for _ in range(rng.choice([1, 2])):
                base = gen.mutate(rng, base)
            texts.append((f"splitmut:{i}", base))
    return texts


def run(rng, n_gen, chunk=4000, corpus_limit=None) -> dict:
    col = Collector()
    for n in range(7):
        col.add("largest_subset", f"n={n}", lambda n=n: f"(largest_subset {n})",
                [list(s) for s in U.largest_subset(range(n))], n > 1, "largest_subset")
    for label, text in make_texts(rng, n_gen, corpus_limit):
        kind = label.split(":")[0]
        n_split = 2 if (kind in ("split", "splitmut", "tests") or rng.random() < 0.3) else 0
        program_cases(col, rng, text, n_split, kind)
    answers = []
    for i in range(0, len(col.reqs), chunk):
        answers.extend(leanio.run_batch(col.reqs[i:i + chunk], timeout=3600))
    res = {"evaluations": 0, "nontrivial": 0, "mismatches": [], "unsupported": col.unsupported,
           "histogram": col.hist}
    for kind, split in col.kinds:
        col.bump(f"projection programs from {kind}: {'split' if split else 'no split'}")
    for (op, text, value, nontrivial, branch), ans, req in zip(col.meta, answers, col.reqs):
        model = decode(op, ans)
        if model is None:
            res["unsupported"] += 1
            col.bump("unsupported:lean")
            continue
        res["evaluations"] += 1
        col.bump("op:" + op)
        if branch:
            col.bump(branch)
        if value == ERROR:
            col.bump("python raised")
        if nontrivial:
            res["nontrivial"] += 1
        if model != value:
            res["mismatches"].append({"op": op, "program": text, "impl": value, "model": model, "request": req})
    return res


def _run_seed(seed, n_gen):
    return run(random.Random(seed), n_gen)


def main():
    n_gen = int(os.environ.get("N_GEN", "2000"))
    seeds = [int(s) for s in os.environ.get("SEEDS", "0,1,2").split(",")]
    total = {"evaluations": 0, "nontrivial": 0, "mismatches": [], "unsupported": 0, "histogram": {}}
    if os.environ.get("PARALLEL", "1") == "1" and len(seeds) > 1:
        import multiprocessing
        with multiprocessing.Pool(len(seeds)) as pool:
            results = pool.starmap(_run_seed, [(seed, n_gen) for seed in seeds])
    else:
        results = [_run_seed(seed, n_gen) for seed in seeds]
    for seed, r in zip(seeds, results):
        print(f"seed {seed}: evaluations={r['evaluations']} nontrivial={r['nontrivial']} "
              f"mismatches={len(r['mismatches'])} unsupported={r['unsupported']}")
        for k in ("evaluations", "nontrivial", "unsupported"):
            total[k] += r[k]
        total["mismatches"].extend(r["mismatches"])
        for k, v in r["histogram"].items():
            total["histogram"][k] = total["histogram"].get(k, 0) + v
    print(f"TOTAL: evaluations={total['evaluations']} nontrivial={total['nontrivial']} "
          f"mismatches={len(total['mismatches'])} unsupported={total['unsupported']}")
    for k in sorted(total["histogram"]):
        print(f"  {k:55s} {total['histogram'][k]}")
    h = total["histogram"]
    ps, pn = h.get("projection:split", 0), h.get("projection:nosplit", 0)
    if ps + pn:
        print(f"projection programs that split: {ps}/{ps + pn + h.get('projection:error', 0)} "
              f"= {ps / (ps + pn + h.get('projection:error', 0)):.1%}")
    for m in total["mismatches"][:10]:
        print("MISMATCH", m["op"])
        print("  program:", m["program"].replace("\n", " ")[:300])
        print("  request:", m["request"][:600])
        print("  impl   :", str(m["impl"])[:600])
        print("  model  :", str(m["model"])[:600])
    return 1 if total["mismatches"] else 0


if __name__ == "__main__":
    sys.exit(main())
