"""clingo as the oracle of the failing-input search: answer sets (projected) and costs of program + instance.

Hygiene (each item was a false alarm of a throw-away fuzzer during design):
 * costs are compared per priority with absent levels read as 0;
 * only 'operation undefined' / 'tuple ignored' (non-integer weight; a negative integer ignored by #sum+ is regular
   semantics and is compared) / 'unsafe' exclude an instance, info messages do not;
 * enumeration is capped; a capped or timed-out instance is skipped and counted, never compared.
"""
from __future__ import annotations

import time
from typing import Iterable, Optional

import clingo
from clingo.ast import ProgramBuilder, parse_string

MAX_MODELS = 3000
LAST = {"undefined": False}
SOLVE_SECONDS = 8.0


class Skip(Exception):
    """instance outside the property's domain (undefined operation, too many models, timeout)"""


class Broken(Exception):
    """program rejected by clingo (syntax / safety)"""


def _negative_weight(msg: str) -> bool:
    """'tuple ignored' with an INTEGER weight is the documented meaning of #sum+ (negative weights do not count), not an
    undefined operation: such instances are compared (corrections log 18)"""
    lines = msg.strip().splitlines()
    if len(lines) < 2:
        return False
    import re
    first = re.split(r"[,@]", lines[1].strip(), 1)[0].strip()
    return bool(re.fullmatch(r"-\d+", first))


class Logger:
    def __init__(self):
        self.msgs = []

    def __call__(self, code, msg):
        self.msgs.append((code, msg))

    def bad(self):
        """'error' dominates 'undefined': an unsafe / syntactically wrong program is never merely skipped"""
        res = None
        for code, msg in self.msgs:
            if code == clingo.MessageCode.RuntimeError or "unsafe" in msg or ": error:" in msg:
                return "error"
            if "operation undefined" in msg or ("tuple ignored" in msg and not _negative_weight(msg)):
                res = "undefined"
        return res


def solve_text(text: str, project: Optional[set] = None, with_cost: bool = True, consts: Iterable[str] = (),
               allow_undefined: bool = False):
    """returns frozenset of (frozenset(atom strings), cost tuple per priority as dict-tuple)"""
    lg = Logger()
    args = ["0", "--opt-mode=enum", "--warn=no-atom-undefined", "--warn=no-file-included"] + [f"-c{c}" for c in consts]
    ctl = clingo.Control(args, logger=lg, message_limit=1000)
    try:
        ctl.add("base", [], text)
        ctl.ground([("base", [])])
    except RuntimeError as e:
        b = lg.bad()
        if b == "undefined":
            raise Skip("undefined")
        raise Broken(f"{e}: {[m for _, m in lg.msgs][:3]}")
    LAST["undefined"] = lg.bad() == "undefined"
    if lg.bad() == "undefined" and not allow_undefined:
        raise Skip("undefined")
    return _enumerate(ctl, project, with_cost)


def solve_ast(stms, instance: str, project: Optional[set] = None, with_cost: bool = True):
    lg = Logger()
    ctl = clingo.Control(["0", "--opt-mode=enum", "--warn=no-atom-undefined"], logger=lg, message_limit=1000)
    try:
        with ProgramBuilder(ctl) as bld:
            for s in stms:
                bld.add(s)
            parse_string(instance, bld.add)
        ctl.ground([("base", [])])
    except RuntimeError as e:
        if lg.bad() == "undefined":
            raise Skip("undefined")
        raise Broken(f"{e}: {[m for _, m in lg.msgs][:3]}")
    if lg.bad() == "undefined":
        raise Skip("undefined")
    return _enumerate(ctl, project, with_cost)


def _enumerate(ctl, project, with_cost):
    res = set()
    n = 0
    t0 = time.time()
    with ctl.solve(yield_=True, async_=True) as h:
        while True:
            h.resume()
            ok = h.wait(SOLVE_SECONDS)
            if not ok:
                h.cancel()
                raise Skip("timeout")
            m = h.model()
            if m is None:
                break
            n += 1
            if n > MAX_MODELS or time.time() - t0 > 4 * SOLVE_SECONDS:
                h.cancel()
                raise Skip("too many models")
            atoms = m.symbols(atoms=True)
            if project is not None:
                atoms = [a for a in atoms if (a.name, len(a.arguments)) in project]
            cost = ()
            if with_cost:
                prio = m.priority
                cost = tuple(sorted((p, c) for p, c in zip(prio, m.cost) if c != 0))
            res.add((frozenset(str(a) for a in atoms), cost))
    return frozenset(res)


def shown(text: str, allow_undefined: bool = False, terms_only: bool = False):
    """answer sets as displayed by the program's own #show statements (with costs).  With `terms_only` (the program has
    `#show t : body.` statements but no `#show p/n.` / `#show.`) only the displayed terms are compared: clingo then still
    prints every atom, but by its default and not because of a #show statement - exactly as for a program with no #show
    statement at all, where the property's auto-detected OUT is empty."""
    lg = Logger()
    ctl = clingo.Control(["0", "--opt-mode=enum", "--warn=no-atom-undefined"], logger=lg, message_limit=1000)
    try:
        ctl.add("base", [], text)
        ctl.ground([("base", [])])
    except RuntimeError as e:
        if lg.bad() == "undefined":
            raise Skip("undefined")
        raise Broken(f"{e}: {[m for _, m in lg.msgs][:3]}")
    LAST["undefined"] = lg.bad() == "undefined"
    if lg.bad() == "undefined" and not allow_undefined:
        raise Skip("undefined")
    res = set()
    n = 0
    with ctl.solve(yield_=True, async_=True) as h:
        while True:
            h.resume()
            if not h.wait(SOLVE_SECONDS):
                h.cancel()
                raise Skip("timeout")
            m = h.model()
            if m is None:
                break
            n += 1
            if n > MAX_MODELS:
                h.cancel()
                raise Skip("too many models")
            prio = m.priority
            cost = tuple(sorted((p, c) for p, c in zip(prio, m.cost) if c != 0))
            res.add((frozenset(str(a) for a in (m.symbols(terms=True) if terms_only else m.symbols(shown=True))), cost))
    return frozenset(res)


def drop_cost(models):
    return frozenset(a for a, _ in models)


def describe(models, limit=6):
    out = []
    for atoms, cost in sorted(models, key=lambda x: (sorted(x[0]), x[1]))[:limit]:
        out.append({"atoms": sorted(atoms), "cost": [list(c) for c in cost]})
    return out
