"""correspondence of the Lean model Model/SumAgg.lean with ngo/sum_aggregates.py (decision part), `AggAnalytics` and
`potentially_unifying*` of ngo/utils/ast.py

    PYTHONPATH=/tmp/model/sumagg/harness:/repo/src /venv/bin/python corr_sumagg.py

`run(rng, n_gen)` evaluates on the programs of corpus.harvest() (raw and after `ngo.normalize.preprocess`) and on
`n_gen` generated programs (gen.random_program, gen.mutate and the targeted generator `sum_program` below):

 * `agg_analytics` on every rule head and every body atom (non aggregates: the assert), with several `n`;
 * `at_most_rule` (`_calc_at_most_on_rule`) on every statement;
 * `at_most` (`SumAggregator(prg, inputs).at_most_one_predicates()/at_least_one_predicates()`, as sets);
 * `pot_unify` / `pot_unify_seq` on pairs of terms / tuples of the program;
 * `elem_passes` (`_element_passes`) on every element of every body aggregate;
 * `get_trigger` (`_get_trigger`) on bodies and conditions with random `_atmost_preds`;
 * `sum_eligible`: which elements / objectives are rewritten, (a) by calling `_element_passes`, `_get_trigger`,
   `_replace_optimize` on the untouched program, (b) by instrumenting those methods during `execute(prg)`.

The real `SumAggregator` is built with `DomainPredicates` replaced by a stub (its constructor and its rule
templates are not part of the modelled fragment; the real one is tried as well, its failures are counted and, where
it works, the real `execute` must make the same decisions as the stubbed one).

Results are compared exactly as parsed s-expressions (sets of annotated predicates as sorted lists); a Python
exception corresponds to `(err "assert…")`/`(err "IndexError…")`; `(err "fuel…")` is always a mismatch;
`(unsupported …)` answers are counted, never compared.
"""
from __future__ import annotations

import copy
import logging
import os
import random
import sys

sys.path.insert(0, os.path.dirname(os.path.abspath(__file__)))

from clingo.ast import AggregateFunction, ASTType, Variable  # noqa: E402

import corpus  # noqa: E402
import gen  # noqa: E402
import leanio  # noqa: E402
import ser  # noqa: E402

import ngo.sum_aggregates as S  # noqa: E402
from ngo.dependency import DomainPredicates  # noqa: E402
from ngo.normalize import preprocess  # noqa: E402
from ngo.utils import ast as U  # noqa: E402
from ngo.utils.ast import AnnotatedPredicate, Predicate  # noqa: E402

logging.disable(logging.CRITICAL)

ERROR = "error"
REAL_DOMAIN = DomainPredicates


# ---------------------------------------------------------------- targeted generator

DOMS = ["day", "dom", "pshift", "emp"]

LEQ1 = [("", " 1"), ("", " <= 1"), ("", " < 2"), ("", " = 1"), ("1 ", " 1"), ("1 >= ", ""), ("2 > ", ""), ("1 = ", ""),
        ("0 ", " 1"), ("1 <= ", " <= 1"), ("", " 0"), ("0 < ", " < 2"), ("1 = ", " = 1"), ("", " <= 0"), ("", " < 1"),
        ("1 > ", ""), ("0 >= ", ""), ("", " = 0"), ("3 <= ", " <= 0"), ("", " <= -1")]
OTHER_BOUNDS = [("", " 2"), ("", ""), ("", " >= 1"), ("", " != 1"), ("", " N"), ("2 ", ""), ("", " > 0"), ("1 < ", ""),
                ("1 != ", ""), ("N = ", ""), ("", " = N"), ("1 ", ""), ("", " <= 1+0"), ("", " < 3"), ("2 >= ", ""),
                ("1 <= ", " <= 2"), ("N ", " 1"), ("2 ", " 1"), ("", " >= 1"), ("1 > ", " > 0"), ("", " > 1")]


class ValPred:
    """a value predicate p(G.., V): `glob` global positions and the value in the last position"""

    def __init__(self, rng, name):
        self.name = name
        self.nglob = rng.choice([0, 1, 1, 1, 2])
        self.arity = self.nglob + 1


def _defining_rule(rng, vp: ValPred) -> str:
    glob = ["D", "E"][:vp.nglob]
    body = [f"{rng.choice(DOMS)}({g})" for g in glob]
    if rng.random() < 0.12 and glob:
        body.pop(rng.randrange(len(body)))  # a head variable that is not global
    if rng.random() < 0.1:
        body.append(rng.choice(["not off(D)", "D != 3", "E = D+1", "X = #sum { 1,Q : q(Q) }", "D = 1..3",
                                "1 { q(Z) }", "{ }", "q(D) : r(D)", "-neg(D)", "day(F)", "1 { q(Z) } 2"]))
    form = rng.random()
    els = []
    n_el = rng.choice([1, 1, 1, 1, 1, 2, 2, 3])
    for k in range(n_el):
        loc = "L" if k == 0 or rng.random() < 0.5 else "M"
        r = rng.random()
        if k == 0 or r < 0.45:
            pred, args = vp.name, glob + [loc]
        elif r < 0.75:
            pred, args = rng.choice(["other", vp.name + "x"]), [rng.choice(glob + [loc])]
        else:
            pred, args = vp.name, glob + [loc, "1"]  # other arity
        if rng.random() < 0.12 and args:
            i = rng.randrange(len(args))
            args[i] = rng.choice(["_", "1", "a", "f(" + loc + ")", loc, "D+1", "f(D)", "(D,1)", "F"])
        atom_ = f"{pred}({','.join(args)})" if args else pred
        r = rng.random()
        if r < 0.05:
            atom_ = rng.choice(["not ", "not not "]) + atom_
        elif r < 0.08:
            atom_ = "-" + atom_
        elif r < 0.1:
            atom_ = rng.choice(["#true", "L = 1", "1 < 2"])
        cond = []
        for _ in range(rng.choice([0, 1, 1, 2])):
            cond.append(f"{rng.choice(DOMS)}({rng.choice(['_', loc, rng.choice(glob or ['_'])])},{loc})")
        if form < 0.5:
            els.append(atom_ + (" : " + ", ".join(cond) if cond else ""))
        else:
            w = rng.choice(["1"] * 8 + ["2", "0", "-1", "L", "1+1", "a", "", "1,D", "1," + loc, "2,a", "3,f(L)"])
            els.append(f"{w} : {atom_}" + (" : " + ", ".join(cond) if cond else ""))
    lo, hi = rng.choice(LEQ1) if rng.random() < 0.75 else rng.choice(OTHER_BOUNDS)
    if form < 0.5:
        head = f"{lo}{{ {'; '.join(els)} }}{hi}"
    elif form < 0.93:
        f = rng.choice(["#sum"] * 4 + ["#count"] * 4 + ["#sum+", "#min", "#max"])
        if lo and lo[-2] not in "<>=":
            lo = lo + "<= "
        if hi and hi[1] not in "<>=!":
            hi = " <=" + hi
        head = f"{lo}{f} {{ {'; '.join(els)} }}{hi}"
    elif form < 0.97:
        head = f"{vp.name}({','.join(glob + ['L'])})"
        body.append(f"{rng.choice(DOMS)}(L)")
    else:
        head = f"{vp.name}({','.join(glob + ['L'])}) ; other(L)"
        body.append(f"{rng.choice(DOMS)}(L)")
    return f"{head} :- {', '.join(body)}." if body else f"{head}."


def _distinct_suffix(rng, k) -> list[str]:
    """a tuple suffix that makes the k-th tuple (not) unify with the others"""
    r = rng.random()
    if r < 0.3:
        return [str(k)]
    if r < 0.45:
        return [rng.choice(["a", "b", "c"])]
    if r < 0.6:
        return [rng.choice(["f", "g"]) + "(" + rng.choice(["D", "1", "a", "E"]) + ")"]
    if r < 0.7:
        return [rng.choice(["-1", "-a", "- D", "D+1", "1..2", "|D|", "(D,1)", "(D,E)", "-(1)", "2*D", "-f(D)"])]
    if r < 0.8:
        return [str(k), rng.choice(["a", "D"])]
    return []


def _use_lits(rng, vp: ValPred, w, glob) -> list[str]:
    """literals using the value predicate with weight variable w"""
    args = []
    for k in range(vp.nglob):
        r = rng.random()
        args.append(glob[k % len(glob)] if (r < 0.6 and glob) else ("_" if r < 0.85 else rng.choice([w, "1", "Q", "f(D)"])))
    r = rng.random()
    args.append(w if r < 0.88 else rng.choice(["_", "1", w + "+1", "M", "f(" + w + ")"]))
    if rng.random() < 0.05:
        rng.shuffle(args)
    if rng.random() < 0.04:
        args.append("1")
    sg = "" if rng.random() < 0.93 else rng.choice(["not ", "not not "])
    lits = [f"{sg}{vp.name}({','.join(args)})"]
    for _ in range(rng.choice([0, 0, 1, 1, 2])):
        r = rng.random()
        if r < 0.55:
            lits.append(f"{rng.choice(DOMS)}({rng.choice(glob or ['_'])})")
        elif r < 0.7:
            lits.append(f"{rng.choice(['other', 'q'])}({rng.choice(glob + ['_', 'Q', w])})")
        elif r < 0.8:
            lits.append(f"{rng.choice(glob + [w])} {rng.choice(['<', '!=', '>'])} {rng.choice(['1', '2'])}")
        elif r < 0.9:
            lits.append(f"not {rng.choice(DOMS)}({rng.choice(glob + ['_'])})")
        else:
            lits.append(f"{vp.name}({','.join(rng.choice(glob + [w, '_']) for _ in range(vp.arity))})")
    rng.shuffle(lits)
    return lits


def _sum_literal(rng, vals) -> str:
    n_el = rng.choice([1, 1, 1, 2, 2, 3])
    els = []
    for k in range(n_el):
        vp = rng.choice(vals)
        glob = rng.sample(["D", "E", "G"], rng.choice([0, 1, 1, 2]))
        w = rng.choice(["L", "L", "L", "M", "W"])
        wt = w if rng.random() < 0.9 else rng.choice(["1", "-" + w, w + "*2", "a", "f(" + w + ")", "_"])
        tup = [wt] + (glob if rng.random() < 0.8 else []) + _distinct_suffix(rng, k)
        if rng.random() < 0.05:
            tup.append(w)
        els.append(f"{','.join(tup)} : {', '.join(_use_lits(rng, vp, w, glob))}")
    if rng.random() < 0.12:
        els.insert(rng.randrange(len(els) + 1), rng.choice(els))
    if rng.random() < 0.06:
        els.insert(rng.randrange(len(els) + 1), f" : {rng.choice(DOMS)}(D)")
    f = rng.choice(["#sum"] * 6 + ["#sum+", "#sum+", "#count", "#min", "#max"])
    agg = f"{f} {{ {'; '.join(els)} }}"
    g = rng.random()
    if g < 0.5:
        return f"X = {agg}"
    if g < 0.7:
        return f"{agg} {rng.choice(['=', '<', '>=', '!='])} {rng.choice(['X', '3'])}"
    if g < 0.85:
        return f"{rng.choice(['1', 'X'])} {rng.choice(['<=', '<'])} {agg} {rng.choice(['<=', '<'])} {rng.choice(['9', 'Y'])}"
    return f"{rng.choice(['not ', 'not not '])}{agg} > 2"


def _sum_rule(rng, vals) -> str:
    body = [_sum_literal(rng, vals)]
    if rng.random() < 0.4:
        body.insert(rng.randrange(2), f"{rng.choice(DOMS)}(D)")
    if rng.random() < 0.1:
        body.append(_sum_literal(rng, vals).replace("X", "Y"))
    hd = rng.choice(["a(X)", "a(X)", "", "b", "{ c(X) }"])
    return f"{hd} :- {', '.join(body)}."


def _objective(rng, vals, k) -> str:
    vp = rng.choice(vals)
    glob = rng.sample(["D", "E", "G"], rng.choice([0, 1, 1, 2]))
    w = rng.choice(["L", "L", "M", "W"])
    r = rng.random()
    wt = w if r < 0.75 else rng.choice(["-" + w, "-" + w, "1", w + "*2", "-(-" + w + ")", "|" + w + "|", "-(1)", "a"])
    prio = rng.choice(["", "", "@1", "@2", "@P", "@" + w])
    rest = (glob if rng.random() < 0.8 else []) + (_distinct_suffix(rng, k) if rng.random() < 0.6 else [])
    if rng.random() < 0.04:
        rest.append(w)
    body = _use_lits(rng, vp, w, glob)
    x = rng.random()
    weak_only = x < 0.18  # `#minimize { … }` conditions are plain literals
    if x < 0.06:
        body.append(f"q({rng.choice(glob + [w])}) : r({rng.choice(glob + [w])})")
    elif x < 0.18:
        body.append(_sum_literal(rng, vals))
    if prio == "@P":
        body.append("prio(P)")
    tup = ",".join([f"{wt}{prio}"] + rest)
    kind = rng.random()
    if kind < 0.45 or weak_only:
        return f":~ {'; '.join(body)}. [{tup}]"
    if kind < 0.8:
        return f"#minimize {{ {tup} : {', '.join(body)} }}."
    return f"#maximize {{ {tup} : {', '.join(body)} }}."


def sum_program(rng: random.Random) -> str:
    vals = [ValPred(rng, name) for name in rng.sample(["shift", "val", "cost"], rng.choice([1, 1, 1, 2]))]
    rules = []
    for vp in vals:
        rules.append(_defining_rule(rng, vp))
        r = rng.random()
        if r < 0.1:  # derived elsewhere
            xs = ",".join(["X"] * vp.arity)
            rules.append(rng.choice([f"{vp.name}({xs}) :- extra(X).", _defining_rule(rng, vp),
                                     f"{{ {vp.name}({xs}) }} :- extra(X)."]))
        elif r < 0.16:
            rules.append(f":- {vp.name}({','.join(['_'] * vp.arity)}), not other(1).")
    for _ in range(rng.choice([0, 1, 1, 2])):
        rules.append(_sum_rule(rng, vals))
    nobj = rng.choice([0, 1, 1, 2, 3])
    objs = [_objective(rng, vals, k) for k in range(nobj)]
    if objs and rng.random() < 0.15:
        objs.append(rng.choice(objs))
    rules += objs
    if rng.random() < 0.1:
        rules.append(rng.choice(["#show shift/2.", "#external day(1).", "#const n = 3.", "#show X : val(_,X).",
                                 "&diff { X - Y } <= 3 :- q(X,Y).", "dom(1..3).", "day(1;2).",
                                 "#minimize { L,D : cost(D,L;L) }."]))
    if rng.random() < 0.3:
        rng.shuffle(rules)
    return "\n".join(rules)


TEST_PROGRAMS = [
    "{ shift(D,L) : pshift(_,L) } 1 :- day(D).\na(X) :- X = #sum { L,D : shift(D,L), day(D); L,D : shift(D,L), day(D) }.",
    "{ shift(D,L) : pshift(_,L) } 1 :- day(D).\n:~ shift(D,L), X = #sum{ M,D : shift(D,M) }. [L@1,D]",
    "{ shift(D,L) : pshift(_,L) } 1 :- day(D).\nb :- #sum { : a; L,D : shift(D,L) } > -1.\n"
    ":~ shift(D,L), 1 < #sum{ : a }. [L@1,D]",
    "{ shift(D,L) : pshift(_,L) } 1 :- day(D).\n#minimize { L,D : shift(D,L) }.\n#minimize { L,D : shift(D,L) }.",
    "{ shift(D,L) : pshift(_,L) } 1 :- day(D).\n#minimize { L,D : shift(D,L) }.\n#minimize { L,E : shift(E,L), e(E) }.",
    "{ shift(D,L) : pshift(_,L) } 1 :- day(D).\n#minimize { L,D : not shift(D,L), q(L) }.\n#maximize { L,f(D) : shift(D,L) }.",
    "{ shift(D,L) : pshift(_,L); shift(D,M) : q(M) } 1 :- day(D).",
    "1 >= #sum { 1 : a(X) : d(X); 0 : b(X) : d(X) }.",
    "{ a(1,X) : d(X) } 1.\n{ b(1,X) : d(X) } 1 :- e(Y).",
    "{ -a(X); b(X) } 1 :- d(X).",
    "1 { a(X) : d(X) } 1.\n1 = { b(X) : d(X) }.\n{ c(X) : d(X) } = 1.\n1 <= { e(X) : d(X) } <= 1.\n2 > { f(X) : d(X) } > 0.",
    "{ a(X) : d(X) } 1 :- 1 { q(Z) }.",
    "{ a(X) : d(X) } 2 :- 1 { q(Z) }.",
]


# ---------------------------------------------------------------- real side

def real(f):
    try:
        return f()
    except Exception:  # pylint: disable=broad-except
        return ERROR


class StubDomain:
    """stands in for ngo.dependency.DomainPredicates: no rules, fresh predicate names"""

    def __init__(self, unique_names, prg):
        self.unique_names = unique_names
        self._names = {}
        del prg

    def _p(self, key, name, arity):
        if key not in self._names:
            self._names[key] = self.unique_names.new_predicate(name, arity)
        return self._names[key]

    def create_domain(self, pred):
        del pred
        return []

    def create_next_pred_for_annotated_pred(self, anon_pred, position):
        del anon_pred, position
        return []

    def create_chain_pred_for_annotated_pred(self, anon_pred, position, maximum):
        del anon_pred, position, maximum
        return []

    def chain_pred(self, anon_pred, position, maximum):
        return self._p(("chain", anon_pred, position, maximum), "__chain_stub",
                       anon_pred.pred.arity - len(anon_pred.annotated_positions) + 1)

    def next_anon_predicate(self, anon_pred, position):
        return self._p(("next", anon_pred, position), "__next_stub",
                       anon_pred.pred.arity - len(anon_pred.annotated_positions) + 2)


def make_sa(prg, inputs, stub=True):
    saved = S.DomainPredicates
    S.DomainPredicates = StubDomain if stub else REAL_DOMAIN
    try:
        return S.SumAggregator(prg, inputs)
    finally:
        S.DomainPredicates = saved


def ap_text(ap) -> str:
    return f"({ser.q(ap.pred.name)} {ap.pred.arity} ({' '.join(str(i) for i in ap.annotated_positions)}))"


def ap_set_text(aps) -> str:
    return "(" + " ".join(ap_text(a) for a in sorted(set(aps))) + ")"


def ap_list_text(aps) -> str:
    return "(" + " ".join(ap_text(a) for a in aps) + ")"


def is_sum_agg(blit) -> bool:
    return (blit.ast_type == ASTType.Literal and blit.atom.ast_type == ASTType.BodyAggregate
            and blit.atom.function == AggregateFunction.Sum)   # fix 470d5b6: #sum+ aggregates are left alone


def hit_text(hit) -> str:
    if hit is None:
        return "none"
    return f"({hit[0]} {hit[1]} {ap_text(hit[2])})"


def decisions_text(per_stm) -> str:
    out = []
    for idx, aggs, obj in per_stm:
        a = " ".join(
            f"({bi} ({' '.join(f'({e} {l} {p} {ap_text(ap)})' for e, l, p, ap in hits)}) ({' '.join(map(str, dropped))}))"
            for bi, hits, dropped in aggs)
        if obj == "rule":
            o = "rule"
        else:
            o = f"({ser.q(obj[0]) if obj[0] is not None else 'none'} {hit_text(obj[1])})"
        out.append(f"({idx} ({a}) {o})")
    return "(" + " ".join(out) + ")"


class Instrument:
    """wraps the decision methods of a SumAggregator instance and records what they decide"""

    def __init__(self, sa):
        self.sa = sa
        self.ctx = None
        self.aggs = []  # one record per _replace_elements call
        self.objs = []  # one record per _replace_optimize call
        self.o_re, self.o_ep, self.o_gt = sa._replace_elements, sa._element_passes, sa._get_trigger
        self.o_gv, self.o_ro = sa._get_var, sa._replace_optimize
        sa._replace_elements, sa._element_passes, sa._get_trigger = self.re, self.ep, self.gt
        sa._get_var, sa._replace_optimize = self.gv, self.ro

    def restore(self):
        for n in ("_replace_elements", "_element_passes", "_get_trigger", "_get_var", "_replace_optimize"):
            if n in self.sa.__dict__:
                del self.sa.__dict__[n]

    def re(self, elements, prg_, *rest):
        cur = {"idxs": [k for k, e in enumerate(elements) if e.terms and len(e.terms) > 0], "k": 0, "hits": [],
               "dropped": [k for k, e in enumerate(elements) if not (e.terms and len(e.terms) > 0)], "elem": None}
        n = len(elements)
        self.ctx = ("agg", cur)
        out = self.o_re(elements, prg_, *rest)
        self.ctx = None
        assert len(out) == n - len(cur["dropped"]) + len(cur["hits"]), "element count"
        assert cur["k"] == len(cur["idxs"]), "calls of _element_passes"
        self.aggs.append(cur)
        return out

    def ep(self, elem, elements):
        cur = self.ctx[1]
        cur["elem"] = cur["idxs"][cur["k"]]
        cur["k"] += 1
        return self.o_ep(elem, elements)

    def gt(self, var, body):
        snapshot = list(body)
        r = self.o_gt(var, body)
        kind, cur = self.ctx
        if r is not None:
            lit, idx, ap = r
            li = snapshot.index(lit)
            if kind == "agg":
                cur["hits"].append((cur["elem"], li, idx, ap))
            else:
                cur["hit"] = (li, idx, ap)
        return r

    def gv(self, minimize):
        r = self.o_gv(minimize)
        self.ctx[1]["var"] = None if r is None else r.name
        return r

    def ro(self, minimize):
        cur = {"var": None, "hit": None}
        self.ctx = ("obj", cur)
        out = self.o_ro(minimize)
        self.ctx = None
        assert (len(out) > 1) == (cur["hit"] is not None), "objective rewritten without trigger"
        self.objs.append(cur)
        return out


def direct_decisions(sa, prg):
    """the decision methods applied to the untouched program"""
    res = []
    for i, stm in enumerate(prg):
        if stm.ast_type not in (ASTType.Rule, ASTType.Minimize):
            continue
        aggs = []
        for bi, blit in enumerate(stm.body):
            if not is_sum_agg(blit):
                continue
            elements = blit.atom.elements
            hits, dropped = [], []
            # fix b5d2d20: `execute` hands the variables of the rest of the statement to `_replace_elements`
            from ngo.utils.ast import collect_ast
            outside = set(collect_ast(stm.update(body=[x for x in stm.body if x != blit]), "Variable"))
            for ei, elem in enumerate(elements):
                if elem.terms and len(elem.terms) > 0:
                    if not sa._element_passes(elem, elements) or elem.terms[0] in outside:
                        continue
                    trig = sa._get_trigger(elem.terms[0], elem.condition)
                    if trig is None:
                        continue
                    lit, idx, ap = trig
                    hits.append((ei, list(elem.condition).index(lit), idx, ap))
                else:
                    dropped.append(ei)
            aggs.append((bi, hits, dropped))
        obj = "rule"
        if stm.ast_type == ASTType.Minimize:
            ins = Instrument(sa)
            try:
                sa._replace_optimize(copy.deepcopy(stm))
            finally:
                ins.restore()
            obj = (ins.objs[0]["var"], ins.objs[0]["hit"])
        res.append((i, aggs, obj))
    return res


def seq_decisions(sa, prg):
    """the decisions `execute(prg)` makes; MUTATES prg"""
    agg_sites = [(i, bi) for i, stm in enumerate(prg) if stm.ast_type in (ASTType.Rule, ASTType.Minimize)
                 for bi, blit in enumerate(stm.body) if is_sum_agg(blit)]
    min_sites = [i for i, stm in enumerate(prg) if stm.ast_type == ASTType.Minimize]
    stms = [i for i, stm in enumerate(prg) if stm.ast_type in (ASTType.Rule, ASTType.Minimize)]
    ins = Instrument(sa)
    try:
        sa.execute(prg)
    finally:
        ins.restore()
    assert len(ins.aggs) == len(agg_sites) and len(ins.objs) == len(min_sites), "call counts"
    per = {i: [[], "rule"] for i in stms}
    for (i, bi), cur in zip(agg_sites, ins.aggs):
        per[i][0].append((bi, cur["hits"], cur["dropped"]))
    for i, cur in zip(min_sites, ins.objs):
        per[i][1] = (cur["var"], cur["hit"])
    return [(i, per[i][0], per[i][1]) for i in stms]


# ---------------------------------------------------------------- collection of cases

class Collector:
    def __init__(self):
        self.reqs: list[str] = []
        self.meta: list[tuple] = []  # (op, program text, expected (parsed sexp | ERROR), nontrivial, branch)
        self.seen: set[str] = set()
        self.unsupported = 0
        self.hist: dict[str, int] = {}
        self.notes: list[dict] = []

    def bump(self, key, n=1):
        self.hist[key] = self.hist.get(key, 0) + n

    def add(self, op, text, build_req, value_text, nontrivial, branch=None):
        """value_text: the expected answer after `ok` as s-expression text (a list), or ERROR"""
        try:
            req = build_req()
            value = ERROR if value_text == ERROR else ser.parse_sexp(value_text)
        except ser.Unsupported:
            self.unsupported += 1
            self.bump("unsupported:ser")
            return
        if req in self.seen:
            return
        self.seen.add(req)
        self.reqs.append(req)
        self.meta.append((op, text, value, nontrivial, branch))


def all_preds(prg) -> list:
    res = set()
    for stm in prg:
        for sp in U.predicates(stm):
            res.add(sp.pred)
    return sorted(res)


def all_var_names(asts) -> list[str]:
    vs = set()
    for a in asts:
        vs.update(v.name for v in U.collect_ast(a, "Variable"))
    return sorted(vs)


def analytics_cases(col, rng, text, node, kind):
    for n in rng.sample([1, 1, 0, 2, -1, 3, 5], 2):
        def val(n=n):
            a = U.AggAnalytics(node)
            bounds = " ".join(f"({ser.CMP[b.comparison]} {ser.term(b.term)})" for b in a.bounds)
            names = " ".join(ser.q(v) for v in a.equal_variable_bound)
            return f"(({names}) ({bounds}) {int(a.guaranteed_leq(n))} {int(a.guaranteed_geq(n))})"
        try:
            v = val()
        except ser.Unsupported:
            col.unsupported += 1
            col.bump("unsupported:ser")
            return
        except Exception:  # pylint: disable=broad-except
            v = ERROR
        nontrivial = v != ERROR and ("(le " in v or "(lt " in v or "(ge" in v or "(gt" in v or "(eq" in v or "(ne" in v
                                     or '"' in v.split(")")[0])
        if kind == "head":
            col.add("agg_analytics", text, lambda n=n: f"(agg_analytics {ser.head(node)} {n})", v, nontrivial,
                    f"analytics:{kind}:{'error' if v == ERROR else 'ok'}")
        else:
            col.add("agg_analytics", text, lambda n=n: f"(agg_analytics {ser.atom(node)} {n})", v, nontrivial,
                    f"analytics:{kind}:{'error' if v == ERROR else 'ok'}")
        if v == ERROR:
            return


def term_pairs(rng, stm):
    """pairs of terms worth testing: tuples of aggregate elements, objective tuples, arguments of atoms"""
    tuples = []
    for agg in U.collect_ast(stm, "BodyAggregate"):
        for e in agg.elements:
            tuples.append(list(e.terms))
    if stm.ast_type == ASTType.Minimize:
        tuples.append([stm.weight, stm.priority, *stm.terms])
    for f in U.collect_ast(stm, "SymbolicAtom"):
        if f.symbol.ast_type == ASTType.Function:
            tuples.append(list(f.symbol.arguments))
        tuples.append([f.symbol])
    return tuples


def statement_cases(col, rng, text, stm, tag):
    """ops on one statement"""
    # _calc_at_most_on_rule
    def amr():
        am, al = S.SumAggregator._calc_at_most_on_rule(None, stm)  # pylint: disable=protected-access
        return f"({ap_list_text(am)} {ap_list_text(al)})"
    v = real(amr)
    col.add("at_most_rule", text, lambda: f"(at_most_rule {ser.stm(stm)})", v, v != ERROR and v != "(() ())",
            "at_most_rule:" + ("error" if v == ERROR else ("hit" if v != "(() ())" else "none")) + ":" + tag)
    if stm.ast_type not in (ASTType.Rule, ASTType.Minimize):
        return
    if stm.ast_type == ASTType.Rule:
        analytics_cases(col, rng, text, stm.head, "head")
    for blit in stm.body:
        if blit.ast_type == ASTType.Literal:
            agg = blit.atom.ast_type in (ASTType.BodyAggregate, ASTType.Aggregate)
            if agg or rng.random() < 0.15:
                analytics_cases(col, rng, text, blit.atom, "atom")
    # _element_passes on every body aggregate (any function)
    for agg in U.collect_ast(stm, "BodyAggregate"):
        elements = agg.elements

        def passes(elements=elements):
            out = []
            for e in elements:
                try:
                    out.append(str(int(S.SumAggregator._element_passes(e, elements))))  # pylint: disable=protected-access
                except IndexError:
                    out.append("e")
            return "((" + " ".join(out) + "))"
        v = real(passes)
        col.add("elem_passes", text, lambda agg=agg: f"(elem_passes {ser.atom(agg)})", v, v != ERROR and "1" in v,
                "elem_passes:" + ("error" if v == ERROR else ("some" if "1" in v else "none")))
    # potentially unifying
    tuples = term_pairs(rng, stm)
    if tuples:
        for _ in range(min(6, len(tuples) * 2)):
            a, b = rng.choice(tuples), rng.choice(tuples)
            v = real(lambda a=a, b=b: f"({int(U.potentially_unifying_sequence(a, b))})")
            col.add("pot_unify_seq", text,
                    lambda a=a, b=b: f"(pot_unify_seq ({' '.join(map(ser.term, a))}) ({' '.join(map(ser.term, b))}))",
                    v, v == "(1)" and a != b, "pot_unify_seq:" + str(v))
            if a and b:
                x, y = rng.choice(a), rng.choice(b)
                v = real(lambda x=x, y=y: f"({int(U.potentially_unifying(x, y))})")
                col.add("pot_unify", text, lambda x=x, y=y: f"(pot_unify {ser.term(x)} {ser.term(y)})", v,
                        x != y and x.ast_type != ASTType.Variable and y.ast_type != ASTType.Variable,
                        "pot_unify:" + str(v))
    # _get_trigger with random _atmost_preds
    bodies = [list(stm.body)]
    for agg in U.collect_ast(stm, "BodyAggregate"):
        bodies.extend(list(e.condition) for e in agg.elements)
    for body in bodies:
        preds = sorted({Predicate(l.atom.symbol.name, len(l.atom.symbol.arguments)) for l in body if U.is_predicate(l)})
        if not preds or rng.random() < 0.3:
            continue
        vs = all_var_names(body) or ["X"]
        for _ in range(2):
            aps = []
            for p in rng.sample(preds, rng.randint(1, len(preds))):
                for _ in range(rng.choice([1, 1, 2])):
                    pos = sorted(rng.sample(range(p.arity), rng.randint(0, p.arity))) if p.arity else []
                    aps.append(AnnotatedPredicate(p, tuple(pos)))
            rng.shuffle(aps)
            var = Variable(ser.LOC, rng.choice(vs))
            fake = S.SumAggregator.__new__(S.SumAggregator)
            fake._atmost_preds = aps  # pylint: disable=protected-access

            def trig(fake=fake, var=var, body=body):
                r = fake._get_trigger(var, body)  # pylint: disable=protected-access
                if r is None:
                    return "(none)"
                return f"(({body.index(r[0])} {r[1]} {ap_text(r[2])}))"
            v = real(trig)
            col.add("get_trigger", text,
                    lambda aps=aps, var=var, body=body: f"(get_trigger {ap_list_text(aps)} {ser.term(var)} {ser.body(body)})",
                    v, v not in (ERROR, "(none)"), "get_trigger:" + ("error" if v == ERROR else ("hit" if v != "(none)" else "none")))


def choose_inputs(rng, prg) -> list:
    preds = all_preds(prg)
    r = rng.random()
    if r < 0.55 or not preds:
        return []
    if r < 0.8:
        return [p for p in preds if rng.random() < 0.25]
    return [rng.choice(preds)] + ([Predicate("fresh", 1)] if rng.random() < 0.3 else [])


def program_cases(col, rng, text, prg, tag):
    """at_most and sum_eligible on a whole program; `prg` is consumed (execute mutates it)"""
    inputs = choose_inputs(rng, prg)
    try:
        req_am = f"(at_most {ser.prog(prg)} {ser.preds(inputs)})"
        req_se = f"(sum_eligible {ser.prog(prg)} {ser.preds(inputs)})"
    except ser.Unsupported:
        col.unsupported += 2
        col.bump("unsupported:ser", 2)
        return
    if req_am in col.seen:
        return
    # the object, with the stubbed domain machinery
    try:
        sa = make_sa(prg, inputs)
    except Exception:  # pylint: disable=broad-except
        sa = None
    # the real constructor, for the record and as a cross check
    try:
        sa_real = make_sa(prg, inputs, stub=False)
    except Exception:  # pylint: disable=broad-except
        sa_real = None
    if sa is not None and sa_real is None:
        col.bump("ctor:real DomainPredicates raised (not modelled, stub used)")
    if sa is None:
        col.bump("ctor:_calc_at_most raised")
        assert sa_real is None
    if sa is not None and sa_real is not None:
        col.bump("ctor:real ok")
        assert set(sa.at_most_one_predicates()) == set(sa_real.at_most_one_predicates())
        assert set(sa.at_least_one_predicates()) == set(sa_real.at_least_one_predicates())
    if sa is None:
        v = ERROR
    else:
        v = f"({ap_set_text(sa.at_most_one_predicates())} {ap_set_text(sa.at_least_one_predicates())})"
        if len(set(sa.at_most_one_predicates())) != len(sa.at_most_one_predicates()):
            col.bump("at_most:duplicates in the list")
    col.add("at_most", text, lambda: req_am, v, v not in (ERROR, "(() ())"),
            f"at_most:{tag}:" + ("error" if v == ERROR else ("some" if v != "(() ())" else "none")) +
            (":inputs" if inputs else ""))
    if v not in (ERROR, "(() ())") and sa.at_least_one_predicates():
        col.bump("at_most:with at least one")
    # decisions
    if sa is None:
        col.add("sum_eligible", text, lambda: req_se, ERROR, False, "sum_eligible:error")
        return
    try:
        direct = direct_decisions(sa, prg)
        dtext = decisions_text(direct)
        after_direct = ser.prog(prg)
        assert f"(at_most {after_direct} {ser.preds(inputs)})" == req_am, "direct calls mutated the program"
        # the real machinery first (on a copy), then the stub (on the program itself)
        real_seq = None
        if sa_real is not None:
            cp = copy.deepcopy(prg)
            sa_real2 = make_sa(cp, inputs, stub=False)
            try:
                real_seq = decisions_text(seq_decisions(sa_real2, cp))
                col.bump("execute:real ok")
            except RuntimeError:
                col.bump("execute:real raised RuntimeError (domain creation, not modelled)")
        seq = seq_decisions(sa, prg)
        stext = decisions_text(seq)
        if real_seq is not None:
            assert real_seq == stext, "stubbed execute decides differently from the real one"
    except AssertionError as e:
        col.notes.append({"op": "sum_eligible", "program": text, "impl": "HARNESS-" + str(e), "model": None,
                          "request": req_se})
        return
    nontrivial = any(hs for _, aggs, _ in seq for _, hs, _ in aggs) or any(
        o != "rule" and o[1] is not None for _, _, o in seq) or any(
        hs for _, aggs, _ in direct for _, hs, _ in aggs) or any(o != "rule" and o[1] is not None for _, _, o in direct)
    if dtext != stext:
        col.bump("sum_eligible:execute differs from direct calls")
    if any(hs for _, aggs, _ in seq for _, hs, _ in aggs):
        col.bump("sum_eligible:programs with rewritten elements")
    if any(o != "rule" and o[1] is not None for _, _, o in seq):
        col.bump("sum_eligible:programs with rewritten objectives")
    if any(ds for _, aggs, _ in seq for _, _, ds in aggs):
        col.bump("sum_eligible:programs with dropped elements")
    col.add("sum_eligible", text, lambda: req_se, f"({dtext} {stext})", nontrivial,
            f"sum_eligible:{tag}:" + ("rewrite" if nontrivial else "nothing"))


def text_cases(col, rng, text, kind):
    prg = corpus.parses(text)
    if prg is None:
        col.bump("skip:unparsable")
        return
    for stm in prg:
        statement_cases(col, rng, text, stm, "raw")
    try:
        pre = preprocess(prg)
    except Exception:  # pylint: disable=broad-except
        col.bump("skip:preprocess raised")
        pre = None
    if pre is not None:
        for stm in pre:
            statement_cases(col, rng, text, stm, "pre")
    if rng.random() < (0.3 if kind != "sum" else 0.1):
        program_cases(col, rng, text, corpus.parses(text), "raw")
    if pre is not None:
        program_cases(col, rng, text, pre, "pre")


def make_texts(rng, n_gen, corpus_limit=None):
    harvested = corpus.harvest()
    texts = [(f"corpus:{o}", t) for o, t in harvested]
    if corpus_limit is not None and len(texts) > corpus_limit:
        texts = rng.sample(texts, corpus_limit)
    texts += [("tests", t) for t in TEST_PROGRAMS]
    sumtests = [t for o, t in harvested if o in ("sum_aggregates", "ast")]
    for i in range(n_gen):
        r = rng.random()
        if r < 0.15:
            texts.append((f"gen:{i}", gen.random_program(rng)))
        elif r < 0.3:
            base = rng.choice(harvested)[1] if rng.random() < 0.6 else gen.random_program(rng)
            for _ in range(rng.choice([1, 1, 2, 3])):
                base = gen.mutate(rng, base)
            texts.append((f"mut:{i}", base))
        elif r < 0.85:
            texts.append((f"sum:{i}", sum_program(rng)))
        else:
            base = rng.choice(sumtests) if (sumtests and rng.random() < 0.4) else sum_program(rng)
            for _ in range(rng.choice([1, 2])):
                base = gen.mutate(rng, base)
            texts.append((f"summut:{i}", base))
    return texts


def decode(ans):
    k = ans[0]
    if k == "unsupported":
        return None
    if k == "err":
        msg = ser._s(ans[1])  # pylint: disable=protected-access
        return ERROR if (msg.startswith("assert") or msg.startswith("IndexError")) else "MODEL-" + msg
    assert k == "ok", ans
    return ans[1:]


def run(rng, n_gen, chunk=4000, corpus_limit=None) -> dict:
    col = Collector()
    for label, text in make_texts(rng, n_gen, corpus_limit):
        text_cases(col, rng, text, label.split(":")[0])
    answers = []
    for i in range(0, len(col.reqs), chunk):
        answers.extend(leanio.run_batch(col.reqs[i:i + chunk], timeout=3600))
    res = {"evaluations": 0, "nontrivial": 0, "mismatches": list(col.notes), "unsupported": col.unsupported,
           "histogram": col.hist}
    for (op, text, value, nontrivial, branch), ans, req in zip(col.meta, answers, col.reqs):
        model = decode(ans)
        if model is None:
            res["unsupported"] += 1
            col.bump("unsupported:lean:" + op)
            continue
        res["evaluations"] += 1
        col.bump("op:" + op)
        if branch:
            col.bump(branch)
        if value == ERROR:
            col.bump("python raised")
        if nontrivial:
            res["nontrivial"] += 1
        if op == "at_most" and model != ERROR and value != ERROR and not isinstance(model, str):
            # compared as sets
            model = [sorted(model[0], key=repr), sorted(model[1], key=repr)]
            value = [sorted(value[0], key=repr), sorted(value[1], key=repr)]
        if model != value:
            res["mismatches"].append({"op": op, "program": text, "impl": value, "model": model, "request": req})
    return res


def _run_seed(seed, n_gen):
    return run(random.Random(seed), n_gen)


def main():
    n_gen = int(os.environ.get("N_GEN", "2000"))
    seeds = [int(s) for s in os.environ.get("SEEDS", "0,1,2").split(",")]
    total = {"evaluations": 0, "nontrivial": 0, "mismatches": [], "unsupported": 0, "histogram": {}}
    if os.environ.get("PARALLEL", "1") == "1" and len(seeds) > 1:
        import multiprocessing
        with multiprocessing.Pool(len(seeds)) as pool:
            results = pool.starmap(_run_seed, [(seed, n_gen) for seed in seeds])
    else:
        results = [_run_seed(seed, n_gen) for seed in seeds]
    for seed, r in zip(seeds, results):
        print(f"seed {seed}: evaluations={r['evaluations']} nontrivial={r['nontrivial']} "
              f"mismatches={len(r['mismatches'])} unsupported={r['unsupported']}")
        for k in ("evaluations", "nontrivial", "unsupported"):
            total[k] += r[k]
        total["mismatches"].extend(r["mismatches"])
        for k, v in r["histogram"].items():
            total["histogram"][k] = total["histogram"].get(k, 0) + v
    print(f"TOTAL: evaluations={total['evaluations']} nontrivial={total['nontrivial']} "
          f"mismatches={len(total['mismatches'])} unsupported={total['unsupported']}")
    for k in sorted(total["histogram"]):
        print(f"  {k:75s} {total['histogram'][k]}")
    for m in total["mismatches"][:10]:
        print("MISMATCH", m["op"])
        print("  program:", m["program"].replace("\n", " ")[:400])
        print("  request:", m["request"][:800])
        print("  impl   :", str(m["impl"])[:800])
        print("  model  :", str(m["model"])[:800])
    return 1 if total["mismatches"] else 0


if __name__ == "__main__":
    sys.exit(main())
