"""clingo AST <-> s-expression wire format (see lean/NgoVerif/Syntax.lean).

`to_sexp(ast)` is total on the fragment; anything else becomes (opaque "kind" "text") at statement level or
raises Unsupported below statement level (the caller then reports the case as `unsupported`).
`from_sexp(text)` rebuilds clingo AST objects through clingo's own constructors.
"""
from __future__ import annotations

import clingo
from clingo import ast as A
from clingo.ast import ASTType as T
from clingo.symbol import SymbolType

LOC = A.Location(A.Position("<string>", 1, 1), A.Position("<string>", 1, 1))


class Unsupported(Exception):
    pass


def q(s: str) -> str:
    return '"' + s.replace("\\", "\\\\").replace('"', '\\"').replace("\n", "\\n") + '"'


UN = {A.UnaryOperator.Minus: "minus", A.UnaryOperator.Negation: "neg", A.UnaryOperator.Absolute: "abs"}
BIN = {
    A.BinaryOperator.XOr: "xor", A.BinaryOperator.Or: "or", A.BinaryOperator.And: "and",
    A.BinaryOperator.Plus: "plus", A.BinaryOperator.Minus: "minus", A.BinaryOperator.Multiplication: "mul",
    A.BinaryOperator.Division: "div", A.BinaryOperator.Modulo: "mod", A.BinaryOperator.Power: "pow",
}
CMP = {
    A.ComparisonOperator.GreaterThan: "gt", A.ComparisonOperator.LessThan: "lt", A.ComparisonOperator.LessEqual: "le",
    A.ComparisonOperator.GreaterEqual: "ge", A.ComparisonOperator.NotEqual: "ne", A.ComparisonOperator.Equal: "eq",
}
SIGN = {A.Sign.NoSign: "0", A.Sign.Negation: "1", A.Sign.DoubleNegation: "2"}
AGG = {
    A.AggregateFunction.Count: "count", A.AggregateFunction.Sum: "sum", A.AggregateFunction.SumPlus: "sump",
    A.AggregateFunction.Min: "min", A.AggregateFunction.Max: "max",
}
RUN = {v: k for k, v in UN.items()}
RBIN = {v: k for k, v in BIN.items()}
RCMP = {v: k for k, v in CMP.items()}
RSIGN = {v: k for k, v in SIGN.items()}
RAGG = {v: k for k, v in AGG.items()}


def sym(s: clingo.Symbol) -> str:
    if s.type == SymbolType.Number:
        return f"(num {s.number})"
    if s.type == SymbolType.String:
        return f"(str {q(s.string)})"
    if s.type == SymbolType.Infimum:
        return "(inf)"
    if s.type == SymbolType.Supremum:
        return "(sup)"
    if s.type == SymbolType.Function:
        return f"(fun {q(s.name)} ({' '.join(sym(a) for a in s.arguments)}) {1 if s.positive else 0})"
    raise Unsupported(f"symbol {s}")


def term(t: A.AST) -> str:
    ty = t.ast_type
    if ty == T.Variable:
        return f"(var {q(t.name)})"
    if ty == T.SymbolicTerm:
        return f"(sym {sym(t.symbol)})"
    if ty == T.UnaryOperation:
        return f"(un {UN[t.operator_type]} {term(t.argument)})"
    if ty == T.BinaryOperation:
        return f"(bin {BIN[t.operator_type]} {term(t.left)} {term(t.right)})"
    if ty == T.Interval:
        return f"(ival {term(t.left)} {term(t.right)})"
    if ty == T.Function:
        return f"(fn {q(t.name)} ({' '.join(term(a) for a in t.arguments)}) {1 if t.external else 0})"
    if ty == T.Pool:
        return f"(pool ({' '.join(term(a) for a in t.arguments)}))"
    raise Unsupported(f"term {ty}")


def guard(g) -> str:
    if g is None:
        return "(none)"
    return f"(g {CMP[g.comparison]} {term(g.term)})"


def atom(a: A.AST) -> str:
    ty = a.ast_type
    if ty == T.SymbolicAtom:
        return f"(satom {term(a.symbol)})"
    if ty == T.Comparison:
        return f"(cmp {term(a.term)} ({' '.join(f'({CMP[g.comparison]} {term(g.term)})' for g in a.guards)}))"
    if ty == T.BooleanConstant:
        return f"(bool {1 if a.value else 0})"
    if ty == T.BodyAggregate:
        els = " ".join(f"(({' '.join(term(t) for t in e.terms)}) ({' '.join(lit(c) for c in e.condition)}))" for e in a.elements)
        b = a.location.begin
        return f"(bagg {b.line} {b.column} {guard(a.left_guard)} {AGG[a.function]} ({els}) {guard(a.right_guard)})"
    if ty == T.Aggregate:
        els = " ".join(clit(e) for e in a.elements)
        return f"(agg {guard(a.left_guard)} ({els}) {guard(a.right_guard)})"
    if ty == T.TheoryAtom:
        return f"(theory {q(str(a))})"
    raise Unsupported(f"atom {ty}")


def lit(l: A.AST) -> str:
    if l.ast_type != T.Literal:
        raise Unsupported(f"literal {l.ast_type}")
    return f"(lit {SIGN[l.sign]} {atom(l.atom)})"


def clit(c: A.AST) -> str:
    if c.ast_type != T.ConditionalLiteral:
        raise Unsupported(f"condlit {c.ast_type}")
    return f"(clit {lit(c.literal)} ({' '.join(lit(x) for x in c.condition)}))"


def blit(b: A.AST) -> str:
    if b.ast_type == T.Literal:
        return lit(b)
    if b.ast_type == T.ConditionalLiteral:
        return clit(b)
    raise Unsupported(f"body literal {b.ast_type}")


def head(h: A.AST) -> str:
    ty = h.ast_type
    if ty == T.Literal:
        return lit(h)
    if ty == T.Disjunction:
        return f"(disj ({' '.join(clit(e) for e in h.elements)}))"
    if ty == T.Aggregate:
        return f"(agg {guard(h.left_guard)} ({' '.join(clit(e) for e in h.elements)}) {guard(h.right_guard)})"
    if ty == T.HeadAggregate:
        els = " ".join(f"(({' '.join(term(t) for t in e.terms)}) {clit(e.condition)})" for e in h.elements)
        return f"(hagg {guard(h.left_guard)} {AGG[h.function]} ({els}) {guard(h.right_guard)})"
    if ty == T.TheoryAtom:
        return f"(theory {q(str(h))})"
    raise Unsupported(f"head {ty}")


def body(b) -> str:
    return "(" + " ".join(blit(x) for x in b) + ")"


def stm(s: A.AST) -> str:
    ty = s.ast_type
    try:
        if ty == T.Rule:
            b = s.location.begin
            return f"(rule {b.line} {b.column} {head(s.head)} {body(s.body)})"
        if ty == T.Minimize:
            b = s.location.begin
            return (f"(min {b.line} {b.column} {term(s.weight)} {term(s.priority)} "
                    f"({' '.join(term(t) for t in s.terms)}) {body(s.body)})")
        if ty == T.ShowSignature:
            return f"(showsig {q(s.name)} {s.arity} {1 if s.positive else 0})"
        if ty == T.ShowTerm:
            return f"(showterm {term(s.term)} {body(s.body)})"
        if ty == T.Definition:
            return f"(def {q(s.name)} {term(s.value)} {1 if s.is_default else 0})"
        if ty == T.Program:
            return f"(program {q(s.name)} ({' '.join(q(p.name) for p in s.parameters)}))"
        if ty == T.External:
            return f"(external {term(s.atom.symbol)} {body(s.body)} {term(s.external_type)})"
    except Unsupported:
        raise
    return f"(opaque {q(str(ty).replace('ASTType.', ''))} {q(str(s))})"


def prog(p) -> str:
    return "(" + " ".join(stm(s) for s in p) + ")"


def pred(p) -> str:
    return f"({q(p.name)} {p.arity})"


def preds(ps) -> str:
    return "(" + " ".join(pred(p) for p in ps) + ")"


# ---------------------------------------------------------------- reader

def parse_sexp(text: str):
    """returns nested python lists; strings are ('s', value) tuples, atoms plain str"""
    i = 0
    n = len(text)
    stack = [[]]
    while i < n:
        c = text[i]
        if c in " \t\r\n":
            i += 1
        elif c == "(":
            stack.append([])
            i += 1
        elif c == ")":
            x = stack.pop()
            stack[-1].append(x)
            i += 1
        elif c == '"':
            i += 1
            buf = []
            while text[i] != '"':
                if text[i] == "\\":
                    i += 1
                    buf.append("\n" if text[i] == "n" else text[i])
                else:
                    buf.append(text[i])
                i += 1
            i += 1
            stack[-1].append(("s", "".join(buf)))
        else:
            j = i
            while j < n and text[j] not in ' \t\r\n()"':
                j += 1
            stack[-1].append(text[i:j])
            i = j
    assert len(stack) == 1 and len(stack[0]) == 1, text[:200]
    return stack[0][0]


def _s(x):
    assert isinstance(x, tuple) and x[0] == "s", x
    return x[1]


def r_sym(x) -> clingo.Symbol:
    k = x[0]
    if k == "num":
        return clingo.Number(int(x[1]))
    if k == "str":
        return clingo.String(_s(x[1]))
    if k == "inf":
        return clingo.Infimum
    if k == "sup":
        return clingo.Supremum
    if k == "fun":
        return clingo.Function(_s(x[1]), [r_sym(a) for a in x[2]], x[3] == "1")
    raise ValueError(x)


def r_term(x) -> A.AST:
    k = x[0]
    if k == "var":
        return A.Variable(LOC, _s(x[1]))
    if k == "sym":
        return A.SymbolicTerm(LOC, r_sym(x[1]))
    if k == "un":
        return A.UnaryOperation(LOC, RUN[x[1]], r_term(x[2]))
    if k == "bin":
        return A.BinaryOperation(LOC, RBIN[x[1]], r_term(x[2]), r_term(x[3]))
    if k == "ival":
        return A.Interval(LOC, r_term(x[1]), r_term(x[2]))
    if k == "fn":
        return A.Function(LOC, _s(x[1]), [r_term(a) for a in x[2]], x[3] == "1")
    if k == "pool":
        return A.Pool(LOC, [r_term(a) for a in x[1]])
    raise ValueError(x)


def r_guard(x):
    if x[0] == "none":
        return None
    return A.Guard(RCMP[x[1]], r_term(x[2]))


def r_atom(x) -> A.AST:
    k = x[0]
    if k == "satom":
        return A.SymbolicAtom(r_term(x[1]))
    if k == "cmp":
        return A.Comparison(r_term(x[1]), [A.Guard(RCMP[g[0]], r_term(g[1])) for g in x[2]])
    if k == "bool":
        return A.BooleanConstant(x[1] == "1")
    if k == "bagg":
        loc = A.Location(A.Position("<string>", int(x[1]), int(x[2])), A.Position("<string>", int(x[1]), int(x[2])))
        els = [A.BodyAggregateElement([r_term(t) for t in e[0]], [r_lit(c) for c in e[1]]) for e in x[5]]
        return A.BodyAggregate(loc, r_guard(x[3]), RAGG[x[4]], els, r_guard(x[6]))
    if k == "agg":
        return A.Aggregate(LOC, r_guard(x[1]), [r_clit(e) for e in x[2]], r_guard(x[3]))
    if k == "theory":
        out = []
        A.parse_string(":- " + _s(x[1]) + ".", out.append)
        return out[-1].body[0].atom
    raise ValueError(x)


def r_lit(x) -> A.AST:
    assert x[0] == "lit", x
    return A.Literal(LOC, RSIGN[x[1]], r_atom(x[2]))


def r_clit(x) -> A.AST:
    assert x[0] == "clit", x
    return A.ConditionalLiteral(LOC, r_lit(x[1]), [r_lit(c) for c in x[2]])


def r_blit(x) -> A.AST:
    return r_lit(x) if x[0] == "lit" else r_clit(x)


def r_head(x) -> A.AST:
    k = x[0]
    if k == "lit":
        return r_lit(x)
    if k == "disj":
        return A.Disjunction(LOC, [r_clit(e) for e in x[1]])
    if k == "agg":
        return A.Aggregate(LOC, r_guard(x[1]), [r_clit(e) for e in x[2]], r_guard(x[3]))
    if k == "hagg":
        els = [A.HeadAggregateElement([r_term(t) for t in e[0]], r_clit(e[1])) for e in x[3]]
        return A.HeadAggregate(LOC, r_guard(x[1]), RAGG[x[2]], els, r_guard(x[4]))
    if k == "theory":
        out = []
        A.parse_string(_s(x[1]) + ".", out.append)
        return out[-1].head
    raise ValueError(x)


def _loc(l, c):
    return A.Location(A.Position("<string>", int(l), int(c)), A.Position("<string>", int(l), int(c)))


def r_stm(x) -> A.AST:
    k = x[0]
    if k == "rule":
        return A.Rule(_loc(x[1], x[2]), r_head(x[3]), [r_blit(b) for b in x[4]])
    if k == "min":
        return A.Minimize(_loc(x[1], x[2]), r_term(x[3]), r_term(x[4]), [r_term(t) for t in x[5]], [r_blit(b) for b in x[6]])
    if k == "showsig":
        return A.ShowSignature(LOC, _s(x[1]), int(x[2]), x[3] == "1")
    if k == "showterm":
        return A.ShowTerm(LOC, r_term(x[1]), [r_blit(b) for b in x[2]])
    if k == "def":
        return A.Definition(LOC, _s(x[1]), r_term(x[2]), x[3] == "1")
    if k == "program":
        return A.Program(LOC, _s(x[1]), [A.Id(LOC, _s(p)) for p in x[2]])
    if k == "external":
        return A.External(LOC, A.SymbolicAtom(r_term(x[1])), [r_blit(b) for b in x[2]], r_term(x[3]))
    if k == "opaque":
        out = []
        A.parse_string(_s(x[2]), out.append)
        return out[-1]
    raise ValueError(x)


def r_prog(x):
    return [r_stm(s) for s in x]


def from_sexp_prog(text: str):
    return r_prog(parse_sexp(text))


def r_pred(x):
    from ngo.utils.ast import Predicate
    return Predicate(_s(x[0]), int(x[1]))
