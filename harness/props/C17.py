"""C17 - optimize is pure: reproducible, history-independent, leaves its argument alone"""
from __future__ import annotations

import os
import random
import subprocess
import sys
import tempfile
from concurrent.futures import ThreadPoolExecutor

import core
import corpus
import gen
import semcheck
import tgen

MODULE = "NgoVerif.Props.C17"
LEVEL = ("Lean: order-insensitivity theorems for the hash-ordered iteration sites of the modelled code (auto_detect_input's "
         "second loop, the any-search over cleanup's mapping set, the name generators only ask set membership). Determinism of "
         "a Lean function is vacuous and is not claimed. The property itself is about the Python runtime - hash seeds, "
         "functools.cache keyed by object identity, AST.update() aliasing, in-place list edits - which no model exhibits: it "
         "is observed on the real code (byte comparison of `python -m ngo` under several PYTHONHASHSEEDs; str() of every "
         "argument statement before/after optimize; the same call after unrelated earlier calls in one process).")
RULE = ("hash-seed cases = (program, option vector) run in subprocesses under 8 (quick) / 48 (thorough) PYTHONHASHSEED values; "
        "purity cases = in-process optimize calls on corpus, mutated and targeted programs under default/all/single traits: "
        "argument snapshot before/after and result after a history of 3 unrelated calls; non-trivial = optimize changed the program")


def run_cli_seed(args):
    program, opts, hs = args
    env = dict(os.environ)
    env["PYTHONHASHSEED"] = str(hs)
    env["PYTHONPATH"] = os.path.join(core.REPO, "src") + os.pathsep + env.get("PYTHONPATH", "")
    with tempfile.NamedTemporaryFile("w", suffix=".lp", delete=False) as f:
        f.write(program)
        path = f.name
    try:
        with open(path, "rb") as fin:
            p = subprocess.run([sys.executable, "-W", "ignore", "-m", "ngo"] + opts, stdin=fin, stdout=subprocess.PIPE,
                               stderr=subprocess.DEVNULL, env=env, timeout=300, check=False)
        return p.returncode, p.stdout
    finally:
        os.unlink(path)


def purity_case(case):
    """in one (forked) process: fresh result; argument snapshot; result after a history of other calls"""
    text, flags, history = case
    import ngo.api  # noqa
    from ngo import auto_detect_input, auto_detect_output, optimize
    try:
        prg = semcheck.parse(text)
    except RuntimeError:
        return {"status": "unparsable"}
    inp, outp = auto_detect_input(prg), auto_detect_output(prg)
    before = [str(s) for s in prg]
    ids = [id(s) for s in prg]
    try:
        r1 = [str(s) for s in optimize(prg, inp, outp, **flags)]
    except Exception as e:  # noqa
        return {"status": "crash", "error": repr(e)}
    after = [str(s) for s in prg]
    out = {"status": "ok", "problems": [], "changed": r1 != before}
    if after != before or [id(s) for s in prg] != ids:
        diff = [(a, b) for a, b in zip(before, after) if a != b][:3]
        out["problems"].append({"kind": "optimize modified the statements the caller passed in", "before_after": diff,
                                "length": [len(before), len(after)]})
    # the argument list again, after the first call (second call on the same objects)
    try:
        r2 = [str(s) for s in optimize(prg, inp, outp, **flags)]
        if r2 != r1 and after == before:
            out["problems"].append({"kind": "a second call on the same argument gives a different result", "first": r1[:6], "second": r2[:6]})
    except Exception as e:  # noqa
        out["problems"].append({"kind": "a second call on the same argument raises", "error": repr(e)})
    # history: unrelated programs first, then a fresh parse of the same text
    for h in history:
        try:
            hp = semcheck.parse(h)
            optimize(hp, auto_detect_input(hp), auto_detect_output(hp), **flags)
        except Exception:  # noqa
            pass
    prg3 = semcheck.parse(text)
    try:
        r3 = [str(s) for s in optimize(prg3, auto_detect_input(prg3), auto_detect_output(prg3), **flags)]
        if r3 != r1:
            out["problems"].append({"kind": "the result depends on which programs were optimised earlier in the process",
                                    "fresh": r1[:8], "after_history": r3[:8]})
    except Exception as e:  # noqa
        out["problems"].append({"kind": "after a history of earlier calls optimize raises", "error": repr(e)})
    return out


def run(ctx) -> int:
    core.prepare_lean(ctx, MODULE)
    rng = ctx.rng
    H = corpus.harvest()
    default = semcheck.flags_only(*[t for t in semcheck.ALL_TRAITS if t != "duplication"])
    allf = semcheck.flags_only(*semcheck.ALL_TRAITS)
    # ---- purity in-process
    texts = [t for _, t in rng.sample(H, 130 if ctx.quick() else len(H))]
    texts += [gen.mutate(rng, rng.choice(H)[1]) for _ in range(40 if ctx.quick() else 1500)]
    for g in tgen.GENERATORS.values():
        texts += [g(rng) for _ in range(8 if ctx.quick() else 200)]
    # statements of every kind next to a rule (directives with bodies share their body with the caller's AST unless a pass
    # rebuilds it), and the programs of cleanup's targeted generator (literals deleted INSIDE aggregate elements and
    # conditional literals: the passes that do this in place must work on a copy)
    import corr_cleanup
    for _ in range(60 if ctx.quick() else 1500):
        r = rng.random()
        first = gen.other_stm(rng) if r < 0.5 else (
            f"#show {gen.term(rng, 1)} : {', '.join(gen.body_lit(rng) for _ in range(rng.choice([1, 2, 3])))}." if r < 0.75 else gen.objective(rng))
        texts.append(first + "\n" + gen.rule(rng))
    texts += [corr_cleanup.targeted_program(rng) for _ in range(40 if ctx.quick() else 1000)]
    cases = []
    for t in texts:
        fl = rng.choice([default, default, allf, semcheck.flags_only(rng.choice(semcheck.ALL_TRAITS))])
        cases.append((t, fl, [rng.choice(H)[1] for _ in range(3)]))
    results = semcheck.pool_map(purity_case, cases)
    for case, r in zip(cases, results):
        if r.get("status") != "ok":
            ctx.cov["skipped"] += 1
            continue
        ctx.count("purity:" + case[0] + repr(case[1]), r["changed"], branch="purity:" + ("changed" if r["changed"] else "unchanged"),
                  sample={"program": case[0][:160], "traits": [t for t, v in case[1].items() if v]})
        for pr in r["problems"]:
            ctx.violations.append({"kind": pr["kind"], "detail": pr, "program": case[0], "flags": case[1], "history": case[2]})
    # ---- hash seeds through the command line
    n_prog = 14 if ctx.quick() else 80
    seeds = list(range(8)) if ctx.quick() else list(range(48))
    progs = [t for _, t in rng.sample(H, n_prog // 2)] + [rng.choice(list(tgen.GENERATORS.values()))(rng) for _ in range(n_prog - n_prog // 2)]
    # programs with several candidates for "which predicate first": many predicates, choices with several atoms
    progs.append("{ take(P,C) : cost(P,C); skip(P,C) : penalty(P,C) } 1 :- slot(P). #minimize { C,P,t : take(P,C); C,P,s : skip(P,C) }.")
    progs.append("{a(X)} :- d(X). {b(X)} :- d(X). {c(X)} :- d(X). m1(M) :- M = #max{X : a(X)}.\nm2(M) :- M = #max{X : b(X)}.\nm3(M) :- M = #min{X : c(X)}.\n"
                 ":- a(X), a(Y), X != Y. :- b(X), b(Y), X != Y. #show m1/1. #show m2/1. #show m3/1.")
    jobs = []
    for p in progs:
        opts = rng.choice([[], ["--enable", "all"], ["--enable", "default", "duplication"], []])
        for hs in seeds:
            jobs.append((p, opts, hs))
    with ThreadPoolExecutor(max_workers=12) as ex:
        outs = list(ex.map(run_cli_seed, jobs))
    k = 0
    for p in progs:
        opts = jobs[k][1]
        group = outs[k:k + len(seeds)]
        k += len(seeds)
        distinct = {}
        for hs, (rc, out) in zip(seeds, group):
            distinct.setdefault((rc, out), []).append(hs)
        ctx.count("hashseed:" + p + repr(opts), len(group[0][1]) > 0 and group[0][0] == 0, branch="hashseed",
                  sample={"program": p[:160], "options": opts, "hash_seeds": len(seeds)})
        if len(distinct) > 1:
            variants = [{"seeds": v, "exit": key[0], "stdout": key[1].decode("utf8", "replace")[:1500]} for key, v in distinct.items()]
            ctx.violations.append({"kind": "stdout of `python -m ngo` depends on PYTHONHASHSEED", "program": p, "options": opts,
                                   "variants": variants[:3]})
    ctx.violations = ctx.violations[:10]
    return core.finish(ctx, LEVEL, core.COMMON_TRUSTED + ["the Python runtime itself is observed, not modelled"],
                       ["a hash seed / history dependence that no explored program or seed exhibits is not detected"], RULE)


def replay(ctx, data) -> int:
    if "options" in data:
        outs = {run_cli_seed((data["program"], data["options"], hs)) for hs in range(16)}
        print(len(outs), "distinct outputs over 16 hash seeds")
        return 1 if len(outs) > 1 else 0
    r = purity_case((data["program"], data["flags"], data.get("history", [])))
    print(r)
    return 1 if r.get("problems") else 0
