"""C04 - the result is a valid, safe clingo program and its printed form is faithful"""
from __future__ import annotations

import random

import clingo
from clingo.ast import ASTType, ProgramBuilder, parse_string

import core
import corpus
import corr_binding
import gen
import hyp
import oracle
import semcheck
import semprop
import tgen

MODULE = "NgoVerif.Props.C04"
LEVEL = ("Lean: rules created by projection are safe by ngo's own binding analysis (from C16_good_split_sound), make_unique "
         "keeps variable tokens lexically valid, invented predicates are fresh; the binding analysis itself is a total Lean "
         "function tied to utils/ast.py by exact comparison. Runtime facts about clingo that no model exhibits are observed "
         "on the real code for every statement optimize returns: ProgramBuilder.add + grounding without safety/syntax error, "
         "print/parse/print fixpoint, equal answer sets through the AST path and the text path.")
RULE = ("cases = safe programs (corpus, mutations, targeted generators) under default / all / single traits with auto "
        "declarations; per case: every returned statement is added to a ProgramBuilder and grounded with 3 instances, "
        "printed-parsed-printed, and solved through both paths; non-trivial = optimize changed the program")


def c04_case(case):
    text, flags, seed = case
    rng = random.Random(seed)
    try:
        prg, res, i, o, err = semcheck.run_optimize(text, "auto", "auto", flags)
    except RuntimeError:
        return {"status": "unparsable"}
    if err is not None:
        return {"status": "crash"}
    src_preds = semcheck.predicates_of(prg)
    inset = set((p.name, p.arity) for p in i)
    insts = semcheck.make_instances(rng, inset & src_preds, text, 3)
    # the source must be safe (the property's hypothesis)
    try:
        oracle.solve_text(text + "\n" + insts[-1], None, with_cost=False)
    except oracle.Broken:
        return {"status": "unsafe-source"}
    except oracle.Skip:
        pass
    res_text = semcheck.text_of(res)
    out = {"status": "ok", "problems": [], "changed": semcheck.text_of(prg) != res_text, "result": res_text, "program": text}
    # (b) print / parse / print
    for s in res:
        t = str(s)
        try:
            back = []
            parse_string(t, back.append, logger=lambda c, m: None)
            back = [x for x in back if x.ast_type != ASTType.Program or s.ast_type == ASTType.Program]
            t2 = " ".join(str(x) for x in back[-1:]) if back else ""
            if s.ast_type != ASTType.Program and t2 != t:
                out["problems"].append({"kind": "str(parse(str(s))) != str(s)", "statement": t, "reparsed": t2})
        except RuntimeError as e:
            out["problems"].append({"kind": "the printed statement does not parse", "statement": t, "error": str(e)[:200]})
    # (a)+(c) AST path vs text path
    for inst in insts:
        try:
            a = oracle.solve_ast(res, inst, None)
        except oracle.Skip:
            continue
        except oracle.Broken as e:
            try:
                oracle.solve_text(res_text + "\n" + inst, None)
                kind = "the returned AST is rejected by clingo (ProgramBuilder/ground) although its printed text is accepted"
            except oracle.Broken:
                kind = "the returned program is rejected by clingo (unsafe or invalid)"
            except oracle.Skip:
                continue
            out["problems"].append({"kind": kind, "error": str(e)[:300], "instance": inst})
            break
        try:
            b = oracle.solve_text(res_text + "\n" + inst, None)
        except (oracle.Skip, oracle.Broken):
            continue
        if a != b:
            out["problems"].append({"kind": "answer sets through the AST path and the text path differ", "instance": inst,
                                    "ast_only": oracle.describe(a - b, 2), "text_only": oracle.describe(b - a, 2)})
            break
    return out


# anonymous variables, local variables of joined aggregates and tuple variables where the traits build new rules/elements
HAND = [
    ("{opt(S,V)} :- o(S,V). best(M,X) :- M = #max{V : opt(S,V)}, S = #sum{W,X : item(X), weight(X,W)}, d(X).", "minmax_chains"),
    ("{ sel(P,V) } :- skill(P,V). res(X,P) :- person(P), X = #max { V : sel(P,V) }. :~ res(X,P). [X@0,P]", "minmax_chains"),
    ("{ shift(D,L) : pshift(D,L) } 1 :- day(D). a(__PREV) :- __PREV = #sum{L,D : shift(D,L)}.", "sum_chains"),
    ("{ shift(D,L) : pshift(D,L) } 1 :- day(D). :~ shift(__PREV,L), q(__PREV). [L@1,__PREV]", "sum_chains"),
    ("{skill(X,V)} :- d(X,V). best(__PREV,M) :- p(__PREV), M = #max{V : skill(__PREV,V)}.", "minmax_chains"),
    "{ shift(D,L) : pshift(D,L) } 1 :- day(D). a(X) :- X = #sum { L : shift(_,L) }.",
    "{ shift(D,L) : pshift(D,L) } 1 :- day(D). #minimize { L : shift(_,L) }.",
    "{ shift(D,L) : pshift(D,L) } 1 :- day(D). a(X) :- X = #sum { L,D : shift(D,L), ok(_) }.",
    "{ opt(S,V) } :- c(S,V). best(M) :- M = #max { V : opt(S,V) }, S = #sum { W,Y : item(Y), weight(Y,W) }.",
    "{ opt(S,V) } :- c(S,V). best(M) :- M = #min { V : opt(S,V) }, q(S,_), 1 { r(S,Z) : d(Z) }.",
    "a(X) :- X = #count { M1,W : match(M1,W), match(M2,W), M1 != M2 }.",
    "q(X) :- p(X), X = f(_). r(Y) :- p(Y), Y = (_,1), s(Y).",
    "{ p(X) } :- d(X). :- p(A), p(B), A != B, e(_).",
    "s(A,B) :- a(A), B = #sum { Y : person(A,Y,_) }. foo(X) :- X = #sum { F,V : s(V,F), t(_) }. { a(X) } :- d(X). #show foo/1.",
]


def run(ctx) -> int:
    core.prepare_lean(ctx, MODULE)
    if ctx.driver_ok:
        rng = random.Random(ctx.rng.random())
        r = corr_binding.run(rng, 40 if ctx.quick() else 2000, corpus_limit=40 if ctx.quick() else None)
        ctx.cov["evaluations"] += r["evaluations"]
        ctx.cov["distinct_nontrivial"] += r["nontrivial"]
        ctx.cov["unsupported"] += r["unsupported"]
        for m in r["mismatches"][:20]:
            ctx.mismatches.append({"op": m["op"], "program": m["program"], "impl": str(m["impl"])[:400], "model": str(m["model"])[:400]})
        ctx.cov["samples"].append({"correspondence": "binding analysis", "evaluations": r["evaluations"]})
    own = {f["id"]: f for f in core.findings_for(ctx)}
    # a finding explains an INVALID result only if it lists C04 or its mechanism is marked as able to produce one
    # (`invalid_output` in known_findings.json): a defect that merely changes the meaning (e.g. D16, the anonymous group of
    # a sum chain) is no explanation for an unsafe rule on a program of the same shape (corrections log 20)
    known = {f["id"]: f for f in core.findings_by_site(ctx) if "C04" in f.get("properties", []) or f.get("invalid_output")}
    default = semcheck.flags_only(*[t for t in semcheck.ALL_TRAITS if t != "duplication"])
    allf = semcheck.flags_only(*semcheck.ALL_TRAITS)
    H = corpus.harvest()
    texts = [t for _, t in ctx.rng.sample(H, 110 if ctx.quick() else len(H))]
    texts += [gen.mutate(ctx.rng, ctx.rng.choice(H)[1]) for _ in range(50 if ctx.quick() else 2000)]
    for f in own.values():
        texts.append(f["witness"]["program"])
    texts += [h for h in HAND if isinstance(h, str)] * 2
    cases = []
    # hand-written programs made for one trait run under that trait alone and under the default traits
    for h in HAND:
        if not isinstance(h, str):
            for fl in (semcheck.flags_only(h[1]), default):
                cases.append((h[0], fl, ctx.seed * 104729 + 40000 + len(cases)))
    for k, t in enumerate(texts):
        fl = ctx.rng.choice([default, default, allf, semcheck.flags_only(ctx.rng.choice(semcheck.ALL_TRAITS)), semcheck.flags_only()])
        cases.append((t, fl, ctx.seed * 104729 + k))
    # targeted programs run under the trait they are made for (and under all traits)
    for trait, g in tgen.GENERATORS.items():
        for j in range(14 if ctx.quick() else 400):
            cases.append((g(ctx.rng), ctx.rng.choice([semcheck.flags_only(trait), semcheck.flags_only(trait), allf]),
                          ctx.seed * 104729 + 50000 + len(cases)))
    # failing-input search: programs on which model and code of the binding analysis disagree, under every pass that uses it
    for m in ctx.mismatches[:12]:
        for fl in (semcheck.flags_only("projection"), semcheck.flags_only("duplication"), semcheck.flags_only("math"), allf):
            cases.append((m["program"], fl, ctx.seed * 104729 + 90000 + len(cases)))
    results = semcheck.pool_map(c04_case, cases)
    for case, r in zip(cases, results):
        if r.get("status") != "ok":
            ctx.cov["skipped"] += 1
            continue
        ctx.count(case[0] + repr(case[1]), r["changed"], branch="c04:" + ("changed" if r["changed"] else "unchanged"),
                  sample={"program": case[0][:160], "traits": [t for t, v in case[1].items() if v]})
        for pr in r["problems"]:
            keys = hyp.falsified(case[0], case[1], {"status": "broken-result", "result": r["result"], "instance": pr.get("instance", ""),
                                                     "inp": "auto", "outp": "auto"})
            fid = next((k for k, f in known.items() if f.get("key") in keys), None)
            if fid is not None and "rejected" in pr["kind"]:
                ctx.known_hits.setdefault(fid, {"what": known[fid]["what"]})
                continue
            ctx.violations.append({"kind": pr["kind"], "detail": pr, "program": case[0], "flags": case[1], "inp": "auto", "outp": "auto",
                                   "instance": pr.get("instance", ""), "result": r["result"], "falsified_hypotheses": sorted(keys)})
    ctx.violations = ctx.violations[:10]
    return core.finish(ctx, LEVEL, core.COMMON_TRUSTED + ["clingo's parser, printer, ProgramBuilder and grounder (observed, not modelled)"],
                       ["ngo's binding analysis is compared with gringo's safety only through this observation"], RULE)


def replay(ctx, data) -> int:
    r = c04_case((data["program"], data["flags"], 0))
    print({k: v for k, v in r.items() if k in ("status", "problems")})
    return 1 if r.get("problems") else 0
