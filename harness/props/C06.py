"""C06 - traits that only add auxiliary predicates keep all source atoms, one-to-one"""
from __future__ import annotations

import corr_dependency
import corr_duplication
import corr_minmax
import corr_sumagg
import corr_symmetry
import semcheck
import tgen
import semprop
from props import _generic

MODULE = "NgoVerif.Props.C06"
SEVEN = ["cleanup", "duplication", "symmetry", "minmax_chains", "sum_chains", "math", "projection"]
LEVEL = ("Lean: conservative extensions compose and their projection is injective on answer sets (so the number of answer "
         "sets is unchanged); non-recursive auxiliary definitions are one-to-one extensions (M3 both directions), positive-"
         "recursive ones (chain/next) sound (M4 =>, partial). That every added rule has a plain head over fresh predicates is "
         "observed on the real code together with the bijection (count and content on voc(P)) under subsets of the seven traits.")
RULE = ("oracle cases = harvested programs and mutations under all seven / random subsets of {cleanup, duplication, symmetry, "
        "minmax_chains, sum_chains, math, projection}; compared: answer sets restricted to voc(P) AND number of answer sets; "
        "non-trivial = the passes changed the program and an instance was compared")
EXTRA = [
    "served(C,R) :- customer(C,R), depot(C,D), link(D,W), 2 <= #count{P : stock(W,P), wants(C,P,R)}. {stock(W,P)} :- w(W), p(P).",
    "{ shift(D,L) : pshift(D,L) } 1 :- day(D). long_hours(S) :- S = #sum{L,D : shift(D,L), L > 8}.",
    "{a(X)} :- d(X). m(M) :- M = #max{X : a(X)}. :- a(X), a(Y), X != Y, not ok.",
]


def _corr(mod):
    def f(rng, quick):
        return mod.run(rng, 12 if quick else 1500, corpus_limit=12 if quick else None)
    return f


CORR = [("dependency", _corr(corr_dependency)), ("sumagg", _corr(corr_sumagg)), ("minmax", _corr(corr_minmax)),
        ("symmetry", _corr(corr_symmetry)), ("duplication", _corr(corr_duplication))]


def run(ctx) -> int:
    seven = semcheck.flags_only(*SEVEN)
    rnd = [semcheck.flags_only(*[t for t in SEVEN if ctx.rng.random() < 0.5]) for _ in range(2 if ctx.quick() else 10)]
    return _generic.run_semantic(ctx, MODULE, LEVEL, RULE, [seven] + rnd, "voc", None, EXTRA, (40, 500), (24, 1500), corr=CORR,
                                 n_inst=4, generators=list(tgen.GENERATORS.values()), outp_choices=("auto",), one_to_one=True,
                                 assumptions=("M4's converse (every stable model of the extension is the least-fixpoint extension) is not proved",))


def replay(ctx, data) -> int:
    return semprop.replay(ctx, data)
