"""C05 - with every trait disabled the rewrite is meaning-preserving for all predicates"""
from __future__ import annotations

import corr_normalize
import corr_semcond
import semcheck
import semprop
from props import _generic

MODULE = "NgoVerif.Props.C05"
LEVEL = ("Lean: table theorems over the comparison tables regenerated from utils/ast.py (guard moved to the left, negation, "
         "compare), chain splitting preserves the body's denotation for non-negated comparison literals (counterexample for "
         "negated chains = D8), #count = #sum+ of 1-prefixed tuples, distinct old-aggregate tags. The 650-line model of "
         "normalize.py (preprocess up to unpool, exline_arithmetic, inline_arithmetic) is tied to the code by exact comparison; "
         "clingo's unpool and ngo's global_vars_inside_body are parameters taken from the real run. Ex-/in-lining of arithmetic "
         "and old-aggregate tagging are not proved: validated with clingo on the whole vocabulary with facts over ANY predicate.")
RULE = ("correspondence: ops pre_unpool/exline/inline_arith on raw and preprocessed corpus + generated + mutated programs "
        "(old-style aggregates, #count, #inf/#sup guards, chains, intervals); oracle: all traits off, whole answer sets one-to-one "
        "+ costs, facts over any predicate of the program; non-trivial = the normal form differs from the parsed program")
EXTRA = [
    "crowded(R) :- row(R), 2 { cell(R,_,_) }. pick(R) :- row(R), not crowded(R).",
    "ready(T) :- step(T), done(A) : sched(A,T2), T = T2+1.",
    "q(X,Y,Z) :- d(X), d(Y), d(Z), X < Y < Z.",
    "a :- 1 #count { X : p(X) } 2. b :- #inf <= #sum { X : p(X) } <= #sup. c(N) :- N = #count { X,Y : p(X), p(Y), X < Y }.",
    "p(X+1) :- q(X), r(X*2), not s(X-1). t(A) :- A = B+1, q(B).",
    "x :- 1 { p(1..3) } 2. y :- { not p(X) : q(X) } 1.",
    ":~ q(X), p(X+1). [X*2@0,X]",
]


def corr(rng, quick):
    return corr_normalize.run(rng, 80 if quick else 3000, with_corpus=True, corpus_limit=90 if quick else None)


def semcond(rng, quick):
    return corr_semcond.run(rng, 40 if quick else 1500, corpus_limit=15 if quick else None)


def run(ctx) -> int:
    return _generic.run_semantic(ctx, MODULE, LEVEL, RULE, [semcheck.flags_only()], "all", {"normalize", "ast", "cleanup", "regression"},
                                 EXTRA, (120, 700), (100, 4000), corr=[("normalize", corr), ("theorem side conditions on real rewrites", semcond)], n_inst=5, facts_over="any",
                                 outp_choices=("auto",), one_to_one=True,
                                 assumptions=("clingo's AST.unpool is meaning-preserving (external parameter)",
                                              "global_vars_inside_body is supplied by the real run to the inline_arith op (it is modelled and tied separately in C16/C04)"))


def replay(ctx, data) -> int:
    return semprop.replay(ctx, data)
