"""C13 - sum_chains: chained weights add up to the original sum or objective"""
from __future__ import annotations

import corr_sumagg
import corr_sumrewrite
import semcheck
import tgen
import semprop
from props import _generic

MODULE = "NgoVerif.Props.C13"
LEVEL = ('Lean: telescoping - base weight plus one difference per chain step equals the chosen value, for any sorted domain; sum over per-step tuple sets = sum of sums iff disjoint (the next atom in the tuple). The at-most-one analysis and eligibility tests (Model/SumAgg.lean) and the whole rewriting - chain/next elements, requested domain rules, objectives, statement order, the in-place edit of shared element nodes - (Model/SumRewrite.lean) are executable models tied to sum_aggregates.py by corr_sumagg.py and corr_sumrewrite.py; their side conditions are: validated with clingo incl. per-group differing domains and costs.')
RULE = ('oracle cases = programs harvested from /repo/tests (sum_aggregates first) mutations of them and programs of a targeted type-directed generator (harness/tgen.py) under sum_chains only, 5 instances each (empty, small integer/symbolic domains, dense tiny domains, duplicates) over the input predicates; compared: answer sets on voc(P) one-to-one + costs; non-trivial = the pass changed the program and at least one instance was compared; distinct by program+flags')
EXTRA = ['{ shift(D,L) : pshift(D,L) } 1 :- day(D). a(__PREV) :- __PREV = #sum{L,D : shift(D,L)}.', '{ shift(D,L) : pshift(D,L) } 1 :- day(D). :~ shift(__PREV,L), q(__PREV). [L@1,__PREV]', '{ shift(D,L) : pshift(D,L) } 1 :- day(D). #minimize { L@L,D : shift(D,L) }.', '{ shift(D,L) : pshift(D,L) } 1 :- day(D). :~ overtime(D,L). [L@1,D] :~ shift(D,L). [L@1,D] {overtime(D,L)} :- pshift(D,L).', '{ shift(D,L) : pshift(D,L) } 1 :- day(D). long_hours(S) :- S = #sum{L,D : shift(D,L), L > 8}.', '{ shift(D,L) : pshift(D,L) } 1 :- day(D). a(X) :- X = #sum{L,D : shift(D,L)}.']


def corr(rng, quick):
    return corr_sumagg.run(rng, 120 if quick else 2500, corpus_limit=60 if quick else None)


def corr2(rng, quick):
    return corr_sumrewrite.run(rng, 160 if quick else 2500, corpus_limit=60 if quick else None)


def run(ctx) -> int:
    flags = [semcheck.flags_only("sum_chains")]
    return _generic.run_semantic(ctx, MODULE, LEVEL, RULE, flags, 'voc', {'sum_aggregates'}, EXTRA, (110, 700), (80, 3000), corr=[('sumagg', corr), ('sumrewrite', corr2)],
                                 n_inst=5, facts_over='in', outp_choices=('auto',), one_to_one=True, generators=[tgen.GENERATORS['sum_chains']],
                                 assumptions=("the pass's syntactic decisions are not derived from the ground-level side conditions in Lean (validated by the oracle)", 'instances range over the declared/auto-detected input predicates only'))


def replay(ctx, data) -> int:
    return semprop.replay(ctx, data)
