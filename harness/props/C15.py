"""C15 - inline: unfolding an aggregate-defining rule into its one user keeps values"""
from __future__ import annotations

import corr_inline
import semcheck
import tgen
import semprop
from props import _generic

MODULE = "NgoVerif.Props.C15"
LEVEL = ("Lean: unfolding a helper's sum into the using element is sum-of-sums: exact iff the per-group tuple sets are disjoint (counterexample: two groups with the same tuple); removing the helper rule is definitional extension read backwards. Candidate selection, function compatibility and tuple padding are decisions of inline.py: validated with clingo on IN u OUT with costs.")
RULE = ('oracle cases = programs harvested from /repo/tests (inline first) mutations of them and programs of a targeted type-directed generator (harness/tgen.py) under inline only, 5 instances each (empty, small integer/symbolic domains, dense tiny domains, duplicates) over the input predicates; compared: answer sets on IN u OUT + costs; non-trivial = the pass changed the program and at least one instance was compared; distinct by program+flags')
EXTRA = ['{person(A,Y)} :- pp(A,Y). s(A,B) :- a(A), B = #sum{Y : person(A,Y)}. foo(X) :- X = #sum{F,V : s(V,F), ok(V)}. #show foo/1.', 'w(1,5,a). w(1,-2,b). s(A,B) :- g(A), B = #sum{Y,T : w(A,Y,T)}. foo(X) :- X = #sum+{F,V : s(V,F)}. g(1). #show foo/1.', 'load(B,L) :- bin(B), L = #sum{W,I : in(I,B), weight(I,W)}. report(X) :- X = #sum{L,B: load(B,L)}, load(B2,L2), limit(M), L2 > M. #show report/1.', 's(A,B) :- a(A), B = #sum{Y : person(A,Y)}. foo(X) :- X = #sum{F : s(V,F)}. #show foo/1.']


def corr(rng, quick):
    return corr_inline.run(rng, 100 if quick else 2000, corpus_limit=40 if quick else None)


def run(ctx) -> int:
    flags = [semcheck.flags_only("inline")]
    return _generic.run_semantic(ctx, MODULE, LEVEL, RULE, flags, 'inout', {'inline'}, EXTRA, (110, 700), (80, 3000), corr=[('inline', corr)],
                                 n_inst=5, facts_over='in', outp_choices=('auto',), one_to_one=True, generators=[tgen.GENERATORS['inline']],
                                 assumptions=("the pass's syntactic decisions are not derived from the ground-level side conditions in Lean (validated by the oracle)", 'instances range over the declared/auto-detected input predicates only'))


def replay(ctx, data) -> int:
    return semprop.replay(ctx, data)
