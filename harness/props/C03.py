"""C03 - optimize always returns: no exception, failed assertion or endless fixpoint loop"""
from __future__ import annotations

import core
import corpus
import gen
import leanio
import oracle
import semcheck
import ser

MODULE = "NgoVerif.Props.C03"
LEVEL = ("Lean: every modelled loop is a total function (termination proofs are part of the build; name loops by "
         "pigeonhole); cycle => divergence and exit => fixpoint theorems for the outer loop of api.optimize; pass order as a "
         "table theorem over the generated API_ORDER. No termination theorem for the composed loop (it depends on every pass "
         "and on sympy): there the check observes the real optimize() through the NGO_VERIF trace - stage sequence against "
         "the model's schedule, repeated states (a proof of divergence by C03_cycle_diverges), exceptions, time-outs.")
RULE = ("cases = safe programs (corpus, mutations, generated, a fixed list of out-of-fragment constructs: theory atoms, "
        "externals, scripts, pools, intervals, #inf/#sup, strings, two-guard and multiple aggregates, head aggregates) x flag "
        "vectors (default, all, none, singles, random subsets; all 2^9 on small programs in the thorough tier) x declarations "
        "(auto, empty, random, absent predicates); non-trivial = optimize changed the program or needed >1 iteration")

EXOTIC = [
    "#theory t { term { + : 1, binary, left }; &diff/0 : term, {<=}, term, any }. &diff { a - b } <= 5. x :- &diff { a - b } <= 3.",
    "#external e(X) : d(X). d(1..3). a(X) :- e(X), d(X).",
    "#script (python)\ndef f(x):\n    return x\n#end.\na(@f(1)).",
    "p(1;2). q(X) :- p(X;Y), d(Y). d(1).",
    "d(1..3). a(X) :- X = 1..3, d(X). b(X..Y) :- d(X), d(Y).",
    "d(1). a :- #inf < #min { X : d(X) } < #sup. b(#inf). c(#sup) :- b(#inf).",
    "s(\"a b\"). t(X) :- s(X), X != \"c\".",
    "d(1..3). a :- 1 <= #sum { X : d(X) } <= 5, 2 < #count { X : d(X) }, #max { X : d(X) } > 1.",
    "d(1..3). a :- #sum { 1,X : d(X) }. b :- { d(X) }.",
    "d(1..3). c. #sum { 1,X : a(X) : d(X) } 2 :- c. #count { X : b(X) : d(X) } = 1. 1 #max { X : e(X) : d(X) }.",
    "d(1..3). 1 { a(X) : d(X) ; b(X) : d(X) } 2. :- a(X), b(X). #minimize { X@1,a : a(X) ; 1@2 : b(X) }.",
    "d(1..3). a(X) ; b(X) : d(X) :- d(X). -c(X) :- a(X). e(X) :- -c(X), not -d(X).",
    "#program step(t). a(t). #program base. b.",
    "#defined q/1. #project a/1. a(X) :- q(X). #heuristic a(X) : q(X). [1@2,true] #edge (X,Y) : e(X,Y). e(1,2).",
    "#const n = 3. d(1..n). a(n). b(X) :- d(X), X < n.",
    ":~ d(X), X > 1. [X@1,X] d(1..3). #maximize { X@2 : d(X) }.",
    "{ shift(D,L) : pshift(D,L) } 1 :- day(D). :~ shift(_,_), foo(L). [L@1] day(1). pshift(1,2). foo(3).",
    "d(1..3). a(X) :- d(X), not not b(X). b(X) :- a(X). :- not a(1), #false.",
    "d(1..2). a(|X|, -X, ~X, X**2, X\\2, X/1, X&1, X?1, X^1) :- d(X).",
    # integer corner cases: constants that leave the 32 bit range when multiplied out, zero divisors
    "w(1). big(W*60000*60000) :- w(W). huge :- w(W), W*65536*65536 > 0.",
    "v(3). s(S) :- v(V), S = V*100000, B = S*100000, B > 0.",
    "b(1,2). a(X) :- b(X,Y), X = Y\\0. c(X) :- b(X,Y), X = Y/0.",
    "n(2147483647). m(X+1) :- n(X). k(X) :- n(Y), X = Y*2-Y*2.",
]


def c03_case(case):
    text, flags, inp, outp = case
    stages = []
    states = []

    def hook(stage, it, prg):
        stages.append(stage)
        if stage in ("preprocess", "exline"):
            states.append("\n".join(str(s) for s in prg))

    try:
        prg, res, i, o, err = semcheck.run_optimize(text, inp, outp, flags, trace=hook)
    except RuntimeError as e:
        return {"status": "unparsable", "error": str(e)}
    rec = {"stages": stages, "iterations": len(states) - 1, "error": err, "status": "ok"}
    # repeated state: states[k] is the program at the start of iteration k+1
    seen = {}
    for k, st in enumerate(states):
        if st in seen and not (k == len(states) - 1 and seen[st] == k - 1):
            rec["cycle"] = [seen[st], k]
            break
        seen.setdefault(st, k)
    if err is not None:
        rec["status"] = "timeout" if err == "timeout" else "crash"
    else:
        rec["changed"] = semcheck.text_of(prg) != semcheck.text_of(res)
        # exit exactly at the first fixpoint
        if len(states) >= 2:
            rec["exit_ok"] = states[-1] == states[-2] and all(states[k] != states[k + 1] for k in range(len(states) - 2))
    return rec


def has_classical_negation(text):
    import astspec
    from clingo.ast import ASTType
    for stm in corpus.parses(text) or []:
        for _, sym in astspec.sym_atoms(stm):
            if sym.ast_type == ASTType.UnaryOperation:
                return True
    return False


def classify(text, error):
    if error.startswith("AttributeError: no attribute:") and has_classical_negation(text):
        return "D22"
    return None


def safe(text):
    try:
        oracle.solve_text(text, None, with_cost=False)
        return True
    except oracle.Skip:
        return True
    except oracle.Broken:
        return False


def run(ctx) -> int:
    core.prepare_lean(ctx, MODULE)
    rng = ctx.rng
    harvested = corpus.harvest()
    default = semcheck.flags_only(*[t for t in semcheck.ALL_TRAITS if t != "duplication"])
    allf = semcheck.flags_only(*semcheck.ALL_TRAITS)
    cases = []
    for t in EXOTIC:
        for fl in (default, allf, semcheck.flags_only()):
            cases.append((t, fl, "auto", "auto"))
        # with every predicate declared as output nothing is removed before the later passes see it
        allp = sorted(semcheck.predicates_of(corpus.parses(t) or []))
        cases.append((t, default, "auto", allp))
        cases.append((t, allf, "auto", allp))
    n = 260 if ctx.quick() else 4000
    while len(cases) < n + 3 * len(EXOTIC):
        r = rng.random()
        if r < 0.45:
            text = rng.choice(harvested)[1]
        elif r < 0.8:
            text = gen.mutate(rng, rng.choice(harvested)[1])
            if rng.random() < 0.4:
                text = gen.mutate(rng, text)
        elif r < 0.9:
            text = gen.random_program(rng)
        else:
            # the shapes the traits actually rewrite (type-directed generators), half of them with one integer literal
            # replaced by a symbol of another kind or with a variable named like a fresh one
            import tgen
            text = rng.choice(sorted(tgen.GENERATORS.items()))[1](rng)
            m = rng.random()
            if m < 0.5:
                text = gen.exotic_const(rng, text)
            elif m < 0.65:
                text = gen.collide_vars(rng, text)
        if not safe(text):
            ctx.cov["unsupported"] += 1
            continue
        fr = rng.random()
        if fr < 0.35:
            fl = default
        elif fr < 0.5:
            fl = allf
        elif fr < 0.6:
            fl = semcheck.flags_only(rng.choice(semcheck.ALL_TRAITS))
        else:
            fl = {t: rng.random() < 0.5 for t in semcheck.ALL_TRAITS}
        preds = sorted(semcheck.predicates_of(corpus.parses(text) or []))
        dr = rng.random()
        inp = "auto" if dr < 0.5 else ([] if dr < 0.65 else rng.sample(preds, min(len(preds), 2)) + ([("absent", 3)] if dr > 0.9 else []))
        dr = rng.random()
        outp = "auto" if dr < 0.5 else ([] if dr < 0.65 else rng.sample(preds, min(len(preds), 2)) + ([("nowhere", 1)] if dr > 0.9 else []))
        cases.append((text, fl, inp, outp))
    # symbol-kind sweep: in programs the traits rewrite, every integer literal in turn becomes a string, a constant, #sup,
    # a function term, a negative number, zero (code that reads `.number` or compares with 0 must look at the type first)
    import tgen
    sweep = []
    for name, g in sorted(tgen.GENERATORS.items()):
        for _ in range(3 if ctx.quick() else 40):
            sweep += [v for v in gen.exotic_sweep(g(rng))]
    rng.shuffle(sweep)
    for text in sweep[:(350 if ctx.quick() else 20000)]:
        if safe(text):
            cases.append((text, rng.choice([default, default, allf]), "auto", "auto"))
    if not ctx.quick():
        small = [t for _, t in harvested if len(t) < 160][:12]
        for t in small:
            for mask in range(512):
                cases.append((t, {tr: bool(mask >> k & 1) for k, tr in enumerate(semcheck.ALL_TRAITS)}, "auto", "auto"))
    known = {f["id"]: f for f in core.findings_for(ctx)}
    for fid, f in known.items():
        w = f["witness"]
        cases.append((w["program"], semcheck.flags_only(*w.get("traits", [])), "auto", "auto"))
    results = semcheck.pool_map(c03_case, cases)
    reqs, idx = [], []
    for k, (case, r) in enumerate(zip(cases, results)):
        text, fl, inp, outp = case
        if r["status"] == "unparsable":
            ctx.cov["unsupported"] += 1
            continue
        if r["status"] == "killed":
            ctx.cov["skipped"] += 1
            ctx.notes.append(f"case killed by the harness ({r.get('error')}; not a verdict): {text[:80]!r}")
            continue
        on = [t for t, v in fl.items() if v]
        rec = {"program": text, "flags": fl, "inp": inp, "outp": outp}
        if r["status"] == "crash":
            fid = classify(text, r["error"])
            if fid in known:
                ctx.known_hits.setdefault(fid, {"what": known[fid]["what"]})
                continue
            ctx.violations.append({"kind": "optimize raised an exception on a valid, safe program", "error": r["error"], **rec})
            continue
        if "cycle" in r:
            ctx.violations.append({"kind": "the outer loop repeats a state that is not a fixpoint: divergence (C03_cycle_diverges)",
                                   "iterations_with_equal_state": r["cycle"], **rec})
            continue
        if r["status"] == "timeout":
            ctx.cov["skipped"] += 1
            ctx.notes.append(f"time-out without a repeated state (not a verdict): {text[:80]!r} {on}")
            continue
        if r.get("exit_ok") is False:
            ctx.mismatches.append({"op": "optimize_loop_exit", "what": "the loop did not exit at the first fixpoint", **rec})
        ctx.count(text + repr(fl) + repr(inp) + repr(outp), bool(r.get("changed")) or r["iterations"] > 1,
                  branch=f"iterations={min(r['iterations'], 4)}", sample={"program": text[:160], "traits": on, "iterations": r["iterations"]})
        reqs.append("(stages (" + " ".join(f"({ser.q(t)} {1 if v else 0})" for t, v in fl.items()) + f") {r['iterations']})")
        idx.append(k)
    if ctx.driver_ok and reqs:
        answers = leanio.run_batch(reqs)
        for k, ans in zip(idx, answers):
            if ans[0] != "ok":
                ctx.cov["unsupported"] += 1
                continue
            model = [ser._s(x) for x in ans[1]]
            if model != results[k]["stages"]:
                ctx.mismatches.append({"op": "stages", "program": cases[k][0], "flags": cases[k][1], "impl": results[k]["stages"],
                                       "model": model})
    return core.finish(ctx, LEVEL, core.COMMON_TRUSTED + ["the NGO_VERIF trace hook in api.optimize (commit aba9689)"],
                       ["a time-out without a repeated state is reported as skipped, never as a verdict",
                        "recursion depth, sympy run time and wall time are runtime behaviour no model exhibits"], RULE)


def replay(ctx, data) -> int:
    r = c03_case((data["program"], data["flags"], data["inp"], data["outp"]))
    print(r)
    return 1 if r["status"] == "crash" or "cycle" in r else 0
