"""C07 - interface predicates untouched, invented names fresh, other statements verbatim"""
from __future__ import annotations

import random

from clingo.ast import ASTType, Variable

import astspec
import core
import corpus
import gen
import leanio
import semcheck
import ser

MODULE = "NgoVerif.Props.C07"
LEVEL = ("Lean theorems over every sequence of new_auxpredicate/new_predicate/make_unique requests from any vocabulary "
         "(termination of the naming loops by pigeonhole + injectivity of base++str(n); pairwise distinctness; disjointness "
         "from source and declarations). The state machines are tied to globals.py by running identical op sequences on "
         "both; the pass-level clauses (no new rules for inputs, invented heads are new, non-rule statements verbatim and "
         "in order) are observed on the real optimize() under adversarial vocabularies and layouts.")
RULE = ("op-sequence cases: random vocabularies seeded with ngo-shaped names (__aux_N, p1, AUX0...) and 1-12 requests; "
        "pass-level cases: corpus programs and mutations (template variable names, ngo-shaped predicate names, one-line "
        "layout) under default / all / single-trait configurations; non-trivial = a request had to skip a taken name, "
        "or the pass invented a predicate; distinct by hash of the case")


def _names_case(rng):
    arities = [0, 1, 2, 3]
    vocab = []
    for _ in range(rng.choice([0, 2, 4, 8])):
        r = rng.random()
        if r < 0.5:
            vocab.append((f"__aux_{rng.choice([1, 2, 3, 4, 5, 10])}", rng.choice(arities)))
        elif r < 0.8:
            vocab.append((rng.choice(["p", "p1", "p2", "dom", "__dom_p", "__dom_p1", "q", "q1"]), rng.choice(arities)))
        else:
            vocab.append((rng.choice(["a", "b"]), rng.choice(arities)))
    ops = []
    for _ in range(rng.choice([1, 2, 3, 5, 8, 12])):
        if rng.random() < 0.5:
            ops.append(("aux", rng.choice(arities)))
        else:
            ops.append(("pred", rng.choice(["p", "p1", "__dom_p", "q", "__aux_1", "new"]), rng.choice(arities)))
    inputs = [vocab.pop() for _ in range(min(len(vocab), rng.choice([0, 1, 2])))]
    return vocab, inputs, ops


def _impl_names(vocab, inputs, ops):
    from clingo.ast import parse_string
    from ngo.utils.ast import Predicate
    from ngo.utils.globals import UniqueNames
    text = " ".join(f"{n}({','.join('X' * 1 for _ in range(a))})." if a else f"{n}." for n, a in vocab) or "#program base."
    text = " ".join((f"{n}({','.join(['1'] * a)})." if a else f"{n}.") for n, a in vocab)
    prg = []
    if text:
        parse_string(text, prg.append)
    un = UniqueNames(prg, [Predicate(n, a) for n, a in inputs])
    out = []
    for op in ops:
        p = un.new_auxpredicate(op[1]) if op[0] == "aux" else un.new_predicate(op[1], op[2])
        out.append((p.name, p.arity))
    return prg, out


def _vars_case(rng):
    import re
    base = rng.choice(corpus.harvest())[1]
    prg = corpus.parses(base) or []
    stms = [s for s in prg if s.ast_type in (ASTType.Rule, ASTType.Minimize)]
    if not stms:
        return None
    stm = rng.choice(stms)
    names = sorted(set(astspec.variables(stm))) or ["X"]
    reqs = []
    for _ in range(rng.choice([1, 2, 4, 8])):
        r = rng.random()
        if r < 0.5:
            reqs.append("AUX")
        elif r < 0.8:
            reqs.append(rng.choice(names))
        elif r < 0.9:
            reqs.append("_")
        else:
            reqs.append(rng.choice(["AUX0", "X0", "X", "__NEXT"]))
    return stm, reqs


def _impl_vars(stm, reqs):
    from ngo.utils.ast import LOC
    from ngo.utils.globals import UniqueVariables
    uv = UniqueVariables(stm)
    return [uv.make_unique(Variable(LOC, v)).name for v in reqs]


def nonrule_strings(prg):
    return [str(s) for s in prg if s.ast_type not in (ASTType.Rule, ASTType.Minimize)]


def heads(p):
    d = {}
    for s in p:
        for q in set(astspec.pos_head(s)):
            d[q] = d.get(q, 0) + 1
    return d


def pass_case(case):
    """observe the pass-level clauses on the real optimize()"""
    import re
    text, flags, inp, outp = case
    try:
        prg, res, i, o, err = semcheck.run_optimize(text, inp, outp, flags)
        _, base, _, _, err0 = semcheck.run_optimize(text, inp, outp, semcheck.flags_only())
    except RuntimeError:
        return {"status": "unparsable"}
    if err is not None or err0 is not None:
        return {"status": "crash", "error": err or err0}
    src_preds = semcheck.predicates_of(prg)
    inset = set((p.name, p.arity) for p in i)
    outset = set((p.name, p.arity) for p in o)
    problems = []
    # (a) inputs never receive new defining rules.  Syntactically decidable part: an input predicate WITHOUT any rule in
    #     (the normal form of) the source has none in the result.  For an input that the source itself derives, rule
    #     splitting, unpooling and ex-/in-lining of head arithmetic change the number and the text of its rules, so
    #     "no NEW definition" is a semantic fact there: it is decided by the equivalence checks on IN u OUT (C01, C09).
    hs, hr = heads(base), heads(res)
    for q in sorted(inset):
        if hs.get(q, 0) == 0 and hr.get(q, 0) > 0:
            problems.append(("input predicate received a new defining rule", list(q)))
    # (b) invented head predicates are new w.r.t. source, IN, OUT
    invented = sorted(q for q in hr if q not in hs)
    for q in invented:
        if q in src_preds or q in inset or q in outset:
            problems.append(("a predicate of the source/declaration that had no rule is now defined by ngo", list(q)))
    # (c) non-rule statements verbatim and in order
    a, b = nonrule_strings(prg), nonrule_strings(res)
    if a != b:
        problems.append(("non-rule statements changed", {"source": a, "result": b}))
    # (d) single purpose, observed through a layout metamorphosis: all statements on one source line must invent as
    #     many distinct predicates as one statement per line
    if flags.get("minmax_chains") and invented:
        lines = [str(s) for s in prg if s.ast_type != ASTType.Program]
        try:
            _, r1, _, _, e1 = semcheck.run_optimize(" ".join(lines), inp, outp, flags)
            _, r2, _, _, e2 = semcheck.run_optimize("\n".join(lines), inp, outp, flags)
            if e1 is None and e2 is None:
                n1 = len([q for q in heads(r1) if q not in hs])
                n2 = len([q for q in heads(r2) if q not in hs])
                if n1 != n2:
                    problems.append(("invented predicates are shared between statements that sit on one source line",
                                     {"one_line": n1, "one_per_line": n2}))
        except RuntimeError:
            pass
    return {"status": "ok", "problems": problems, "invented": invented, "result": semcheck.text_of(res)}


TEMPLATE = {"X", "P", "N", "B", "L", "AUX", "__NEXT", "__PREV"}

# source variables named like the variables the passes invent
HAND_VARS = [
    "{skill(X,V)} :- d(X,V). best(__PREV,M) :- p(__PREV), M = #max{V : skill(__PREV,V)}. #show best/2.",
    "{skill(X,V)} :- d(X,V). best(__NEXT,M) :- p(__NEXT), M = #min{V : skill(__NEXT,V)}. #show best/2.",
    "{skill(X,V)} :- d(X,V). best(P,M) :- p(P), M = #max{V : skill(P,V)}. :~ best(__NEXT,M), q(__NEXT,__PREV). [M,__NEXT,__PREV]",
    "{ shift(D,L) : pshift(D,L) } 1 :- day(D). a(__PREV,S) :- q(__PREV), S = #sum{L,D : shift(D,L)}. #show a/2.",
    "{foo(X) : dom(X)}. hit(X0) :- cand(X0), 14 < #max{X : foo(X)}. #show hit/1.",
    "{foo(X) : dom(X)}. hit(X0,X1) :- cand(X0), cand(X1), 14 > #min{X : foo(X); X : bar(X)}. {bar(X)} :- dom(X). #show hit/2.",
    "{p(X)} :- d(X). a(AUX0) :- e(AUX0), 2 { p(X) : d(X) }. #show a/1.",
    "s(A,B) :- a(A), B = #sum{Y : person(A,Y)}. foo(X,Y0) :- X = #sum{F,V : s(V,F)}, d(Y0). {a(X)} :- d(X). #show foo/2.",
]


def _strip_args(stm: str) -> str:
    import re
    body = stm
    prev = None
    while prev != body:
        prev = body
        body = re.sub(r"\(([^()]*)\)", "", body)
    # a projected predicate may get a numeric suffix when the shorter signature is taken (c(_,Z) -> c1)
    return re.sub(r"\b([a-z_][A-Za-z_]*?)\d+\b", r"\1", body)


def _atom_arities(body: str, nonanon: bool = False):
    """arity of every atom-like token `name(...)` / bare `name` in a directive body, in order; with nonanon only the
    arguments other than `_` are counted"""
    import re
    out = []
    i = 0
    for m in re.finditer(r"(?<![A-Za-z0-9_\"@])([a-z_][A-Za-z0-9_]*)(\()?", body):
        if m.start() < i:
            continue
        if m.group(2) is None:
            out.append(0)
            continue
        depth, j, args, cur = 1, m.end(), [], ""
        while j < len(body) and depth:
            c = body[j]
            if c == "(":
                depth += 1
            elif c == ")":
                depth -= 1
            if c == "," and depth == 1:
                args.append(cur)
                cur = ""
            elif depth:
                cur += c
            j += 1
        args.append(cur)
        out.append(len([x for x in args if x.strip() != "_"]) if nonanon else len(args))
        i = j
    return out


def _d20_like(a: str, b: str) -> bool:
    """what `unused' does to a directive on the unchanged tree: `#show t : body` may have body atoms shrunk/renamed;
    `#external/#project/#heuristic a : body` may have the atom `a` shrunk/renamed, body atoms only renamed (their
    bodies count as usage, so they keep every argument); anything else is not D20"""
    if a == b:
        return True
    ka, kb = a.split(" ", 1)[0], b.split(" ", 1)[0]
    if ka != kb or ka not in ("#show", "#external", "#project", "#heuristic", "#edge"):
        return False
    ha, _, ba = a.partition(":")
    hb, _, bb = b.partition(":")
    if ka == "#show":
        return ha == hb
    if ka == "#edge" and ha != hb:
        return False
    lo, hi, got = _atom_arities(ba.split("[")[0], True), _atom_arities(ba.split("[")[0]), _atom_arities(bb.split("[")[0])
    # a body atom keeps every argument that is not `_` (its body counts as usage); `_` positions may be projected away
    return len(got) == len(hi) and all(l <= g <= h for l, g, h in zip(lo, got, hi)) and \
        ba.count("[") == bb.count("[") and ba.partition("[")[2] == bb.partition("[")[2]


def classify(text, flags, problem):
    """attribute a pass-level deviation to a known finding, by the hypothesis of the _partial statement it falsifies"""
    kind, detail = problem
    prg = corpus.parses(text) or []
    if kind == "non-rule statements changed":
        src, res = detail["source"], detail["result"]
        # D10: pooled non-rule statements are unpooled by preprocess: every extra statement comes from a pooled one
        pooled = [s for s in prg if s.ast_type not in (ASTType.Rule, ASTType.Minimize) and astspec_has_pool(s)]
        if pooled and [x for x in src if x not in map(str, pooled)] == [x for x in res if x in src and x not in map(str, pooled)]:
            return "D10"
        # D20: `unused' drops argument positions also inside the conditions of #show terms, #external, #project ...
        if flags is None or flags.get("unused"):
            if len(src) == len(res) and all(_d20_like(a, b) for a, b in zip(src, res)):
                return "D20"
        # D21: normalisation (comparison chains, #count, guards) is applied inside #show-term / #external conditions
        if len(src) == len(res):
            try:
                _, base, _, _, _ = semcheck.run_optimize(text, [], sorted(semcheck.predicates_of(prg)), semcheck.flags_only())
                if nonrule_strings(base) == res:
                    return "D21"
            except RuntimeError:
                pass
    if kind.startswith("invented predicates are shared") and flags and flags.get("minmax_chains"):
        return "D15"
    return None


def astspec_has_pool(node):
    if node.ast_type == ASTType.Pool:
        return True
    return any(astspec_has_pool(c) for c in astspec.children(node))


def run(ctx) -> int:
    core.prepare_lean(ctx, MODULE)
    rng = ctx.rng
    # ---- state machines vs the model
    n_ops = 400 if ctx.quick() else 20000
    reqs, expect = [], []
    for k in range(n_ops):
        vocab, inputs, ops = _names_case(rng)
        prg, impl = _impl_names(vocab, inputs, ops)
        sx = ser.prog(prg)
        ops_s = " ".join(f"(aux {o[1]})" if o[0] == "aux" else f"(pred {ser.q(o[1])} {o[2]})" for o in ops)
        ins_s = " ".join(f"({ser.q(n)} {a})" for n, a in inputs)
        reqs.append(f"(unique_names {sx} ({ins_s}) ({ops_s}))")
        expect.append(("unique_names", {"vocab": vocab, "inputs": inputs, "ops": ops}, impl))
        # the property itself on the real return values
        taken = set(vocab) | set(inputs)
        if len(set(impl)) != len(impl) or any(p in taken for p in impl):
            ctx.violations.append({"kind": "UniqueNames handed out a name that is not fresh", "vocab": vocab, "inputs": inputs,
                                   "ops": ops, "returned": impl})
    n_vars = 300 if ctx.quick() else 10000
    for k in range(n_vars):
        c = _vars_case(rng)
        if c is None:
            continue
        stm, vs = c
        impl = _impl_vars(stm, vs)
        try:
            sx = ser.stm(stm)
        except ser.Unsupported:
            ctx.cov["unsupported"] += 1
            continue
        reqs.append(f"(make_unique {sx} ({' '.join(ser.q(v) for v in vs)}))")
        expect.append(("make_unique", {"stm": str(stm), "requests": vs}, impl))
        present = set(astspec.variables(stm))
        got = [r for r in impl if r != "_"]
        if len(set(got)) != len(got) or any(r in present for r in got):
            ctx.violations.append({"kind": "UniqueVariables handed out a variable that is not fresh", "stm": str(stm),
                                   "requests": vs, "returned": impl})
    if ctx.driver_ok:
        answers = leanio.run_batch(reqs)
        for (op, case, impl), ans in zip(expect, answers):
            if ans[0] != "ok":
                if ans[0] == "unsupported":
                    ctx.cov["unsupported"] += 1
                    continue
                ctx.mismatches.append({"op": op, "case": case, "impl": impl, "model": ans})
                continue
            if op == "unique_names":
                mod = [(ser._s(p[0]), int(p[1])) for p in ans[1]]
                nontriv = any(n != f"__aux_{k + 1}" for k, (n, _) in enumerate([p for p in mod if p[0].startswith("__aux_")]))
            else:
                mod = [ser._s(v) for v in ans[1]]
                nontriv = any(m != r for m, r in zip(mod, case["requests"]))
            ctx.count(repr(case), nontriv, branch=op, sample={"op": op, **{k: str(v)[:200] for k, v in case.items()}, "returned": mod})
            if mod != impl:
                ctx.mismatches.append({"op": op, "case": case, "impl": impl, "model": mod})
    # ---- pass level observation on the real optimize
    harvested = corpus.harvest()
    n_pass = 220 if ctx.quick() else 3000
    default = semcheck.flags_only(*[t for t in semcheck.ALL_TRAITS if t != "duplication"])
    allf = semcheck.flags_only(*semcheck.ALL_TRAITS)
    cases = []
    for k in range(n_pass):
        origin, text = rng.choice(harvested)
        r = rng.random()
        if r < 0.5:
            text = gen.mutate(rng, text)
        if rng.random() < 0.3:
            text += "\n" + gen.other_stm(rng)
        if rng.random() < 0.25:
            # a directive over the program's own predicates, with variables that occur nowhere else
            ps = sorted(semcheck.predicates_of(corpus.parses(text) or []))
            ps = [q for q in ps if q[1] > 0]
            if ps:
                (n1, a1), (n2, a2) = rng.choice(ps), rng.choice(ps)
                at1 = f"{n1}({','.join('X' + str(k) for k in range(a1))})"
                at2 = f"{n2}({','.join('Y' + str(k) for k in range(a2))})"
                text += "\n" + rng.choice([f"#heuristic {at1} : {at2}. [Y0@0,true]", f"#edge (X0,Y0) : {at1}, {at2}.",
                                           f"#external {at1} : {at2}.", f"#show t(Y0) : {at2}.", f"#project {at1} : {at2}."])
        if rng.random() < 0.15:
            # a predicate that is derived by a rule and used ONLY in the body of a directive: its rules and all its argument
            # positions must survive (the bodies of directives count as usage)
            nm = rng.choice(["only_h", "only_e", "only_s"])
            text += f"\n{nm}(X,Y) :- {rng.choice(['dom(X), dom(Y)', 'edge(X,Y)', 'd(X), e(Y), X < Y'])}.\n" + rng.choice([
                f"#heuristic pick(X) : {nm}(X,Y), w(Y). [Y@1,true]\n{{ pick(X) }} :- dom(X).",
                f"#external lock(X) : {nm}(X,Y), w(Y).",
                f"#edge (X,Y) : {nm}(X,Y).",
                f"#show t(X,Y) : {nm}(X,Y).",
                f"#project pick(X) : {nm}(X,Y), w(Y).\n{{ pick(X) }} :- dom(X)."])
        flags = rng.choice([default, default, allf, semcheck.flags_only(rng.choice(semcheck.ALL_TRAITS)), semcheck.flags_only()])
        preds = sorted(semcheck.predicates_of(corpus.parses(text) or []))
        inp = "auto" if rng.random() < 0.6 or not preds else rng.sample(preds, min(len(preds), rng.choice([1, 2])))
        outp = "auto" if rng.random() < 0.6 or not preds else rng.sample(preds, min(len(preds), rng.choice([1, 2])))
        cases.append((text, flags, inp, outp))
    results = semcheck.pool_map(pass_case, cases)
    known = {f["id"]: f for f in core.findings_for(ctx)}
    for case, r in zip(cases, results):
        text, flags, inp, outp = case
        if r["status"] != "ok":
            ctx.cov["skipped"] += 1
            continue
        ctx.count("pass:" + text + repr(flags), bool(r["invented"]), branch="pass:" + ("invented" if r["invented"] else "plain"),
                  sample={"program": text[:200], "invented": r["invented"]})
        for pr in r["problems"]:
            fid = classify(text, flags, pr)
            if fid in known:
                ctx.known_hits.setdefault(fid, {"what": known[fid]["what"]})
            else:
                ctx.violations.append({"kind": pr[0], "detail": pr[1], "program": text, "flags": flags, "inp": inp, "outp": outp,
                                       "result": r["result"]})
    # ---- invented VARIABLES at the pass level: a fresh variable that is not fresh captures a source variable and changes
    # the meaning, so this clause is observed semantically: programs of the type-directed generators in which a source
    # variable carries the name a fresh-variable request for another variable would produce (X -> X0, X1)
    import tgen
    import semprop
    gens = [g for k, g in sorted(tgen.GENERATORS.items())]
    progs = list(HAND_VARS)
    for k in range(48 if ctx.quick() else 2500):
        x = gens[k % len(gens)](rng)
        if isinstance(x, str):
            y = gen.collide_vars(rng, x)
            if y != x:
                progs.append(y)
    vcases = semprop.oracle_cases(ctx, [default], "out", 0, 0, extra_programs=progs, n_hand=len(HAND_VARS), n_inst=5, one_to_one=False,
                                  facts_over="in", decl_mix=False)
    semprop.run_oracle(ctx, vcases, None)
    # replay the listed witnesses
    for fid, f in known.items():
        w = f["witness"]
        wf = semcheck.flags_only(*w.get("traits", []))
        r = pass_case((w["program"], wf, w.get("inp", "auto"), w.get("outp", "auto")))
        if r["status"] == "ok" and any(classify(w["program"], wf, pr) == fid for pr in r["problems"]):
            ctx.known_hits.setdefault(fid, {"what": f["what"]})
    return core.finish(ctx, LEVEL, core.COMMON_TRUSTED + ["harness/astspec.py generic walkers"],
                       ["`single purpose' of an invented predicate is a semantic fact; it is covered by the equivalence checks "
                        "C10-C13/C20, here only syntactic freshness is decided"], RULE)


def replay(ctx, data) -> int:
    if "program" in data:
        r = pass_case((data["program"], data["flags"], data["inp"], data["outp"]))
        print(r)
        return 1 if r.get("problems") else 0
    print(data)
    return 1
