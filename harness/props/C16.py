"""C16 - projection: a split rule derives exactly what the unsplit rule derived"""
from __future__ import annotations

import random

import core
import corr_binding
import corr_semcond
import tgen
import semcheck
import semprop

MODULE = "NgoVerif.Props.C16"
LEVEL = ("Lean: ground-level schema (definitional extension both directions M3, folding M3f => the split program is a "
         "conservative one-to-one extension) and decision-kernel theorems for the executable model of projection.py "
         "(good_split accepted => aux rule binds all its variables, rest safe given the interface, interface = shared "
         "globals, no global variable turns local, aggregates whole; emitted rules have the schema's shape with a fresh "
         "predicate). Models of the binding analysis (370 lines) and of projection (125 lines) are tied to the code by exact "
         "comparison; binding-vs-gringo agreement and syntactic=>ground side condition are validated with clingo.")
RULE = ("correspondence: ops binding_body/binding_head/global_body/global_head/bound_vars/unsafe_term/good_split/"
        "largest_subset/projection on corpus + generated + binding-stress + planted-split programs (raw and preprocessed); "
        "oracle: projection only, whole vocabulary one-to-one, result must ground (safety); non-trivial = non-default "
        "branch / the pass split a rule")
TRUSTED = core.COMMON_TRUSTED + ["clingo 5.8.2 grounder/solver as oracle (safety = no 'unsafe variables' error)",
                                 "ngo.normalize.inline_arithmetic is applied by the harness before the modelled part of execute"]
EXTRA = [
    "p(A,D) :- q(A,B,C), r(A,D), t(E), not s(B,E).",
    "assign(T,W,S) :- task(T,G), team(G,M), level(M,L), worker(T,W,S), skill(W,K) : needs(K,L). {skill(W,K)} :- w(W), k(K).",
    "ready(T,W) :- task(T,W), open(D), staffed(D), ok(S) : needs(T,S).",
    "late(P,D,G) :- booking(P,R,W), W = N\\7, not open(R,N), slot(P,D,G,N).",
    "served(C,R) :- customer(C,R), depot(C,D), link(D,W), 2 <= #count{P : stock(W,P), wants(C,P,R)}.",
    "p(A,D,F) :- q(A,B), not not c(B,X), not s(B,X), r(A,D,F), t(X,D,F).",
    "h(X,Y) :- a(X,Z), b(Z,W), c(W), d(X,Y), Z < W, not e(Z).",
    "{h(X,Y)} :- a(X,Z), b(Z,W), c(W), d(X,Y). :- h(X,Y), a(X,Z), b(Z,W), c(W), Y > 2.",
]


def run(ctx) -> int:
    core.prepare_lean(ctx, MODULE)
    extra = []
    if ctx.driver_ok:
        rng = random.Random(ctx.rng.random())
        r = corr_binding.run(rng, 70 if ctx.quick() else 3000, corpus_limit=60 if ctx.quick() else None)
        ctx.cov["evaluations"] += r["evaluations"]
        ctx.cov["distinct_nontrivial"] += r["nontrivial"]
        ctx.cov["unsupported"] += r["unsupported"]
        ctx.cov["histogram"].update({"corr:" + k: v for k, v in r["histogram"].items()})
        for m in r["mismatches"][:20]:
            ctx.mismatches.append({"op": m["op"], "program": m["program"], "impl": str(m["impl"])[:500], "model": str(m["model"])[:500]})
        extra = [m["program"] for m in r["mismatches"][:40]]
        ctx.cov["samples"].append({"correspondence": "binding + projection ops", "evaluations": r["evaluations"],
                                   "accepted_splits": r["histogram"].get("good_split:split", 0)})
        r2 = corr_semcond.run(random.Random(ctx.rng.random()), 60 if ctx.quick() else 2000, corpus_limit=20 if ctx.quick() else None)
        ctx.cov["evaluations"] += r2["evaluations"]
        ctx.cov["distinct_nontrivial"] += r2["nontrivial"]
        ctx.cov["histogram"].update({"corr:theorem side conditions on real rewrites:" + k: v for k, v in r2["histogram"].items()})
        for m in r2["mismatches"][:20]:
            ctx.mismatches.append({"op": m["op"], "program": m["program"], "impl": str(m["impl"])[:500], "model": str(m["model"])[:500]})
        extra += list(r2.get("extra_programs", []))[:40]
    extra += [tgen.gen_projection(ctx.rng) for _ in range(40 if ctx.quick() else 1500)]
    semprop.replay_known(ctx)
    flags = semcheck.flags_only("projection")
    cases = semprop.oracle_cases(ctx, [flags], "voc", 110 if ctx.quick() else 700, 80 if ctx.quick() else 3000,
                                 origins={"projection", "ast", "regression", "symmetry", "literal_duplication"}, n_inst=5,
                                 extra_programs=EXTRA + extra, n_hand=len(EXTRA))
    semprop.run_oracle(ctx, cases, None)
    return core.finish(ctx, LEVEL, TRUSTED,
                       ["ngo's binding analysis is compared with gringo only through the oracle (unsafe results are failing inputs)"], RULE)


def replay(ctx, data) -> int:
    return semprop.replay(ctx, data)
