"""C10 - duplication: a factored-out literal set means what the replaced literals meant"""
from __future__ import annotations

import corr_duplication
import corr_semcond
import semcheck
import tgen
import semprop
from props import _generic

MODULE = "NgoVerif.Props.C10"
LEVEL = ("Lean: factoring a literal set into aux(V) is definitional extension + folding (M3, M3f): stable models one-to-one, aux true exactly where the set holds - under the schema's hypotheses (definition independent of the new atom, persistent, occurrence = defining body under the same binding). The pass's syntactic decisions (binding of the set, connectedness, canonical renaming, variables passed on) are validated on the real code with clingo on the whole source vocabulary, one-to-one.")
RULE = ('oracle cases = programs harvested from /repo/tests (ast,literal_duplication first) mutations of them and programs of a targeted type-directed generator (harness/tgen.py) under duplication only, 5 instances each (empty, small integer/symbolic domains, dense tiny domains, duplicates) over the input predicates; compared: answer sets on voc(P) one-to-one + costs; non-trivial = the pass changed the program and at least one instance was compared; distinct by program+flags')
EXTRA = [('far(X,Z) :- edge(X,Y), edge(Y,Z), active, not not X != Z. hop(X,Z) :- edge(X,Y), edge(Y,Z), active, not blocked(Y).', ['edge(1,2). edge(2,1). edge(2,3). active.']), 'reserved(X,X) :- X = 1..N, size(N), open. other(X) :- X = 1..N, size(N), open, x.', 'half(H) :- H = #sum{ 2*P,A : price(A,P), sale(A); 1,B : price(B,Q), sale(B), big(Q) }.', 'a(X) :- b(X), c(Y) : d(X,Y), e(Y). f(X) :- b(X), c(Y) : d(X,Y), e(Y); g.', 'foo(X) :- a(X), b(X), c(X). bar(X) :- a(X), b(X), e(X).']


def corr(rng, quick):
    return corr_duplication.run(rng, 140 if quick else 2500, corpus_limit=60 if quick else None)


def semcond(rng, quick):
    return corr_semcond.run(rng, 50 if quick else 1500, corpus_limit=15 if quick else None)


def run(ctx) -> int:
    flags = [semcheck.flags_only("duplication")]
    return _generic.run_semantic(ctx, MODULE, LEVEL, RULE, flags, 'voc', {'literal_duplication', 'ast'}, EXTRA, (110, 700), (80, 3000), corr=[('duplication', corr), ('theorem side conditions on real rewrites', semcond)],
                                 n_inst=5, facts_over='in', outp_choices=('auto',), one_to_one=True, generators=[tgen.GENERATORS['duplication']],
                                 assumptions=("the pass's syntactic decisions are not derived from the ground-level side conditions in Lean (validated by the oracle)", 'instances range over the declared/auto-detected input predicates only'))


def replay(ctx, data) -> int:
    return semprop.replay(ctx, data)
