"""C14 - math: simplified comparisons and aggregates are exact over the integers"""
from __future__ import annotations

import corr_mathsimp
import semcheck
import tgen
import semprop
from props import _generic

MODULE = "NgoVerif.Props.C14"
LEVEL = ("Lean: a variable with coefficient a is eliminable exactly when a divides the rest (always for +-1, counterexample X = Y*3), guard moves follow the rhs2lhs/negate table theorems, merging aggregates is sum-of-sums with distinct tags. Everything of math_simplification.py except sympy is an executable model (Model/MathSimp.lean, Model/MathSimpPoly.lean) tied by corr_mathsimp.py, which records every sympy call (groebner, solve, combine, sort) of the real run and hands the answers to the model as external parameters (nothing is proved about sympy); exactness of the pass is validated with clingo with integers of both signs and 0.")
RULE = ('oracle cases = programs harvested from /repo/tests (math_simplification first) mutations of them and programs of a targeted type-directed generator (harness/tgen.py) under math only, 5 instances each (empty, small integer/symbolic domains, dense tiny domains, duplicates) over the input predicates; compared: answer sets on voc(P) one-to-one + costs; non-trivial = the pass changed the program and at least one instance was compared; distinct by program+flags')
EXTRA = [('cheap :- C = #sum{P,I : buy(I,P)}, S = #sum{P,I : ship(I,P)}, budget(B), target(T), C <= B, C + S >= T. {buy(I,P)} :- item(I,P). {ship(I,P)} :- item(I,P).', ['item(a,2). item(b,3). item(c,4). budget(5). target(8).', 'item(a,1). item(b,2). budget(1). target(3).', 'item(a,0). item(b,-3). budget(-1). target(0).']), 'sync :- X = #sum{1,S : lamp(S)}, not not X = #sum{1,S : on(S)}. {on(S)} :- lamp(S). on(S) :- sync, lamp(S).', 'q(X) :- d(X), X = Y+3, e(Y).', 'q(X,Z) :- d(X), e(Z), X*2 = Z+Z.', 'a(X) :- b(X,Y), X - Y > 2, Y + 1 < X.']


def corr(rng, quick):
    return corr_mathsimp.run(rng, 400 if quick else 2500, corpus_limit=60 if quick else None)


def run(ctx) -> int:
    flags = [semcheck.flags_only("math")]
    return _generic.run_semantic(ctx, MODULE, LEVEL, RULE, flags, 'voc', {'math_simplification'}, EXTRA, (110, 700), (80, 3000), corr=[('mathsimp', corr)],
                                 n_inst=5, facts_over='in', outp_choices=('auto',), one_to_one=True, generators=[tgen.GENERATORS['math']],
                                 assumptions=("the pass's syntactic decisions are not derived from the ground-level side conditions in Lean (validated by the oracle)", 'instances range over the declared/auto-detected input predicates only'))


def replay(ctx, data) -> int:
    return semprop.replay(ctx, data)
