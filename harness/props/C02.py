"""C02 - optimisation statements keep the cost of every answer set"""
from __future__ import annotations

import re

import corr_inline
import corr_minmax
import corr_sumrewrite
import semcheck
import tgen
import semprop
from props import _generic

MODULE = "NgoVerif.Props.C02"
LEVEL = ("Lean: C01's composition with the cost vector in the observation; aggregate algebra over sets of weighted tuples: "
         "telescoping chain weights, sum-of-sums flattening iff tuples stay distinct (with counterexample); for typed programs the "
         "cost tuples of an objective are kept by cleanup's deletions (weaker copy: every interpretation; implied literal: every "
         "stable model) and by unused's removals, each from an executable check evaluated on the real rewrites. The models of the passes that "
         "rewrite objectives (minmax, sum_chains, inline) are re-tied to the code here at a small size. The passes' tuple "
         "uniqueness / padding decisions are validated on the real optimize with clingo: pairs (answer set on OUT, cost per "
         "priority, absent level = 0) under --opt-mode=enum.")
RULE = ("oracle cases = harvested programs and mutations that contain #minimize/#maximize/:~ (several statements, shared "
        "and distinct priorities, negative weights, weights from #min/#max/#sum/#count), under default/all/single traits; "
        "compared: (answer set on OUT, cost vector); non-trivial = optimize changed the program and an instance was compared")
EXTRA = [
    ":~ q(X), p(X+1). [X*2@0,X] {q(1..3)}. p(2..4).",
    "{ shift(D,L) : pshift(D,L) } 1 :- day(D). #minimize { L@L,D : shift(D,L) }.",
    "{pick(P,V)} :- skill(P,V). best(P,V) :- person(P), V = #max{S : pick(P,S)}. #minimize{V@1,P : best(P,V)}. #minimize{V@1,P : bonus(P,V)}.",
    ":~ f(Z); X=#count{a:a}, Y=#count{b:b}. [Z+X+Y@1] {a}. {b}.",
    "{a(X)} :- d(X). #maximize { X@2 : a(X) }. :~ a(X), a(Y), X < Y. [-1@1,X,Y]",
]


def _corr(mod):
    def f(rng, quick):
        return mod.run(rng, 12 if quick else 1500, corpus_limit=12 if quick else None)
    return f


def _semcond(rng, quick):
    # the executable hypotheses of C02_cleanup_weaker_copy / C02_cleanup_implied on the deletions the real cleanup makes
    import corr_semcond
    return corr_semcond.run(rng, 60 if quick else 2000, corpus_limit=None, kinds={"cleanup"})


CORR = [("minmax (objectives)", _corr(corr_minmax)), ("sum rewriting (objectives)", _corr(corr_sumrewrite)), ("inline (objectives)", _corr(corr_inline)),
        ("cost theorems' side conditions on real deletions", _semcond)]


def has_objective(text):
    return bool(re.search(r":~|#minimi[sz]e|#maximi[sz]e", text))


def run(ctx) -> int:
    default = semcheck.flags_only(*[t for t in semcheck.ALL_TRAITS if t != "duplication"])
    allf = semcheck.flags_only(*semcheck.ALL_TRAITS)
    singles = [semcheck.flags_only(t) for t in ("minmax_chains", "sum_chains", "inline", "math", "unused")]
    return _generic.run_semantic(ctx, MODULE, LEVEL, RULE, [default, allf] + singles, "out", None, EXTRA, (200, 700), (200, 4000), corr=CORR,
                                 n_inst=4, generators=list(tgen.GENERATORS.values()), outp_choices=("auto",), one_to_one=False, program_filter=has_objective,
                                 assumptions=("costs are compared per priority with absent levels read as 0",))


def replay(ctx, data) -> int:
    return semprop.replay(ctx, data)
