"""C12 - minmax_chains: chains compute the same #min/#max, including the empty case"""
from __future__ import annotations

import corr_minmax
import semcheck
import tgen
import semprop
from props import _generic

MODULE = "NgoVerif.Props.C12"
LEVEL = ('Lean: over a finite domain with its covering relation, chain(v) <=> v <= max, the result rule picks exactly the maximum (given a selected element), no chain atom holds when nothing is selected (the #inf/#sup case), chain/next rules are a conservative positive-recursive extension (M4 =>), chain differences telescope to the extreme value; the argument position of the chain atom that receives the chain variable is the one holding the result of the old atom (C12_result_position, over the model of translate_parameters). The rule templates, the choice simple/chain translation and the replacement of results in sums/objectives are modelled in Model/MinMax.lean (tied by corr_minmax.py: minmax_rules, minmax, minmax_info) on top of Model/Dependency.lean; their side conditions are validated with clingo (no candidate, one, negatives, gaps, duplicates, groups with and without elements, costs).')
RULE = ('oracle cases = programs harvested from /repo/tests (dependency,minmax_aggregates first) mutations of them and programs of a targeted type-directed generator (harness/tgen.py) under minmax_chains only, 5 instances each (empty, small integer/symbolic domains, dense tiny domains, duplicates) over the input predicates; compared: answer sets on voc(P) one-to-one + costs; non-trivial = the pass changed the program and at least one instance was compared; distinct by program+flags')
EXTRA = ['{opt(S,V)} :- o(S,V). best(M,X) :- M = #max{V : opt(S,V)}, S = #sum{W,X : item(X), weight(X,W)}, d(X).', '{ sel(P,V) } :- skill(P,V). res(X,P) :- person(P), X = #max { V : sel(P,V) }. :~ res(X,P). [X@0,P]', '{ sel(P,V) } :- skill(P,V). res(X,P) :- person(P), X = #min { V : sel(P,V) }. tot(S) :- S = #sum { X,P : res(X,P) }.', '{skill(X,V)} :- d(X,V). best(__PREV,M) :- p(__PREV), M = #max{V : skill(__PREV,V)}.', '{skill(X,V)} :- d(X,V). best(P,M) :- p(P), M = #max{V : skill(P,V)}. :~ best(__NEXT,M), q(__NEXT,__PREV). [M,__NEXT,__PREV]', {'program': '{ sel(P,V) } :- skill(P,V). sel(P,0) :- person(P). res(X) :- X = #min { V: sel(_,V) }. :~ res(X). [X@0]', 'inp': [['person', 1], ['skill', 2], ['res', 1]], 'instances': ['person(3). res(1).', 'person(1). skill(1,2). res(5). res(0).']}, '{q(1..5)}. in_band :- 3 < #max{X : q(X)} < 7.', '{q(1..5)}. low :- 7 > #min{X : q(X)} >= 3.', 'person(2). person(-2). skill(2,3). skill(-2,5). {pick(P,V)} :- skill(P,V). max(P,V) :- person(P), V = #max{S : pick(P,S)}. #minimize{ V,P : max(P,V) }.', '{q(X)} :- d(X). m(M) :- M = #max{X : q(X)}. n(M) :- M = #min{X : q(X)}.', '{q(X)} :- d(X). a :- #max{X : q(X)} >= 2. b :- #min{X : q(X)} <= 1. c :- #max{X : q(X)} < 2.']


def corr(rng, quick):
    return corr_minmax.run(rng, 60 if quick else 2500, corpus_limit=60 if quick else None)


def run(ctx) -> int:
    flags = [semcheck.flags_only("minmax_chains")]
    return _generic.run_semantic(ctx, MODULE, LEVEL, RULE, flags, 'voc', {'dependency', 'minmax_aggregates'}, EXTRA, (110, 700), (80, 3000), corr=[('minmax', corr)],
                                 n_inst=5, facts_over='in', outp_choices=('auto',), one_to_one=True, generators=[tgen.GENERATORS['minmax_chains']],
                                 assumptions=("the pass's syntactic decisions are not derived from the ground-level side conditions in Lean (validated by the oracle)", 'instances range over the declared/auto-detected input predicates only'))


def replay(ctx, data) -> int:
    return semprop.replay(ctx, data)
