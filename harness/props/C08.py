"""C08 - cleanup deletes only literals and rules that cannot matter"""
from __future__ import annotations

import random

import core
import corr_cleanup
import corr_semcond
import semcheck
import semprop

MODULE = "NgoVerif.Props.C08"
LEVEL = ("Lean: for typed programs with plain heads and bodies, deleting a positive body literal implied by another one keeps "
         "the stable models, from the executable impliedCheck (Proofs/C08impl: supportedness + least model below T, all "
         "instances of the rule at once) - the check is evaluated by the driver on every top-level deletion the real pass "
         "makes; deleting a weaker copy of a literal (p(X), p(_)) is a strong equivalence in every program, from the "
         "executable anonCheck (Proofs/C08anon), also inside the condition of a body conditional literal or of an element "
         "of a body aggregate (condCheck, Proofs/C08anonCond+C08anonStm), evaluated on every such deletion; the boolean step is a strong equivalence for every head semantics; ground-level schema theorems "
         "(supportedness M5, removal of an implied positive body atom M6+ on the definite-reduct class) and decision-kernel theorems about the executable model of cleanup.py (sign, "
         "argument positions, mapping sign, boolean elimination). The model (443 lines, whole pass after inline_arithmetic) "
         "is tied to cleanup.py by exact output comparison on generated programs; the step from syntactic mappings to the "
         "schema's side condition is validated on the real code with clingo (whole vocabulary, instances over the inputs).")
RULE = ("correspondence: corpus + grammar-generated + mutated + targeted programs (rules with implied literals, several "
        "rules per head, choice heads with conditions, #true/#false) x 4 input declarations, ops cleanup and "
        "cleanup_mappings compared exactly; oracle: corpus(cleanup,ast,normalize first)+mutations under cleanup only, 4-5 "
        "instances each over the input predicates; non-trivial = the pass changed the program / mappings non-empty; "
        "distinct by program+declaration hash")
TRUSTED = core.COMMON_TRUSTED + ["clingo 5.8.2 grounder/solver as the meaning of programs in the oracle",
                                 "ngo.normalize.inline_arithmetic is applied by the harness before the modelled part of execute"]
EXTRA = [
    # b/1 is meant to be declared as input although it has a rule (decl_mix): the instance may add b-facts without d/e-facts
    "b(X) :- d(X), e(X). a(X) :- b(X), d(X). {c(X)} :- a(X).",
    "{p(X)} :- d(X). q(X) :- d(X), p(X), not p(X).",
    "a(X) :- dom(X), not not b(X). b(X) :- c(X). p(X) :- a(X), c(X). c(X) :- p(X).",
    "b(0,0). b(X,Y) :- dom(X), dom(Y), X<Y. a(X,Y) :- b(X,Y), dom(X), dom(Y). c(X) :- b(X,_), dom(X). n :- #count{X : b(X,Y), dom(Y)} < 1.",
    "free(X) :- slot(X), not blocked(X). blocked(X) :- reserved(X), locked(X). usable(X) :- free(X), reserved(X).",
    "a(X,Y) :- b(X), c(Y,X), not d(X). a(X,Y) :- b(X), c(Y,X), e(Y). f(X) :- a(X,Y), b(X), c(Y,X), not d(X).",
    "{ a(X) : b(X) } :- c(X). d(X) :- a(X), b(X), c(X). e(X) :- a(X), c(X).",
    "a(X) :- b(X), #true. c :- #false, b(X). d(X) :- b(X), e(Y) : #true, f(Y); #sum { 1,Y : f(Y), #false; 2,Y : f(Y), #true } > 0.",
]


def run(ctx) -> int:
    core.prepare_lean(ctx, MODULE)
    if ctx.driver_ok:
        rng = random.Random(ctx.rng.random())
        r = corr_cleanup.run(rng, 120 if ctx.quick() else 3000, with_corpus=True, n_targeted=120 if ctx.quick() else 2000,
                             corpus_limit=150 if ctx.quick() else None)
        ctx.cov["evaluations"] += r["evaluations"]
        ctx.cov["distinct_nontrivial"] += r["nontrivial"]
        ctx.cov["unsupported"] += r["unsupported"]
        ctx.cov["histogram"].update({"corr:" + k: v for k, v in r["histogram"].items()})
        for m in r["mismatches"][:20]:
            ctx.mismatches.append({"op": m["op"], "program": m["program"], "inputs": m["inputs"], "impl": str(m["impl"])[:600],
                                   "model": str(m["model"])[:600]})
        if r["mismatches"]:
            # failing-input search: the programs on which model and code disagree go first into the oracle
            extra = [m["program"] for m in r["mismatches"][:40]]
        else:
            extra = []
        ctx.cov["samples"].append({"correspondence": "cleanup/cleanup_mappings", "evaluations": r["evaluations"],
                                   "nontrivial": r["nontrivial"]})
        # the executable hypothesis of `C08_remove_implied_typed` on every top-level deletion the real pass makes; a
        # deletion outside the proved fragment is not a violation: its program joins the oracle's cases
        r2 = corr_semcond.run(random.Random(ctx.rng.random()), 150 if ctx.quick() else 3000, corpus_limit=None, kinds={"cleanup"})
        ctx.cov["evaluations"] += r2["evaluations"]
        ctx.cov["distinct_nontrivial"] += r2["nontrivial"]
        ctx.cov["unsupported"] += r2["unsupported"]
        ctx.cov["histogram"].update({"corr:semcond:" + k: v for k, v in r2["histogram"].items()})
        for m in r2["mismatches"][:20]:
            ctx.mismatches.append(m)
        extra += list(r2.get("extra_programs", []))[:40]
        ctx.cov["samples"].append({"correspondence": "theorem side conditions on real deletions", "evaluations": r2["evaluations"],
                                   "nontrivial": r2["nontrivial"]})
    else:
        extra = []
    semprop.replay_known(ctx)
    flags = semcheck.flags_only("cleanup")
    cases = semprop.oracle_cases(ctx, [flags], "voc", 130 if ctx.quick() else 700, 90 if ctx.quick() else 3000,
                                 origins={"cleanup", "ast", "normalize", "unused"}, n_inst=5,
                                 extra_programs=EXTRA + extra, n_hand=len(EXTRA), decl_mix=True)
    semprop.run_oracle(ctx, cases, None)
    return core.finish(ctx, LEVEL, TRUSTED,
                       ["the schema's side condition is not derived from the syntactic mappings in Lean (validated by the oracle)",
                        "instances range over the declared/auto-detected input predicates only (the property's hypothesis)"], RULE)


def replay(ctx, data) -> int:
    return semprop.replay(ctx, data)
