"""C20 - generated domain and order predicates describe the real domain"""
from __future__ import annotations

import random
import re

import clingo

import core
import corpus
import corr_dependency
import corr_semcond
import leanio
import oracle
import semcheck
import semprop
import tgen

MODULE = "NgoVerif.Props.C20"
LEVEL = ("Lean: the executable specification orderSpec (insertion sort without duplicates + consecutive pairs) is proved to be "
         "the least element, greatest element and covering relation of the value set (C20_order_spec_min/max/next, for every "
         "list of integers); chain/next/dom rules are a conservative positive-recursive extension (M4 =>). The 900-line model of "
         "dependency.py (static analysis, domain computation, name memo, min/max/next/chain templates) is tied to the code by "
         "exact comparison. On the real code, for every answer set of result+instance the __dom_/__min_/__max_/__next_ "
         "extensions reported by clingo are compared with the specification recomputed by the Lean driver from the __dom_ "
         "extension, and over-approximation / choice-independence of __dom_ are checked.")
RULE = ("correspondence: dep_static/dep_domain/dep_next/dep_chain/dep_seq on corpus + generated programs; extension level: "
        "programs of the corpus (dependency, minmax, sum, symmetry tests) and of the targeted generators under minmax_chains / "
        "sum_chains / symmetry x instances (gaps, several groups, negatives, empty); one case = one answer set's auxiliary "
        "extensions of one group; non-trivial = the group has >= 2 distinct domain values")
NAME = re.compile(r"^__(min|max|next)_(\d+(?:_\d+)*)_(\d+)(\D.*)$")


def atoms_by_pred(model_atoms):
    d = {}
    for a in model_atoms:
        s = clingo.parse_term(a)
        d.setdefault((s.name, len(s.arguments)), []).append(s.arguments)
    return d


def ext_case(case):
    """returns a list of observations / problems for one (program, flags) over its instances"""
    text, flags, seed = case
    rng = random.Random(seed)
    try:
        prg, res, i, o, err = semcheck.run_optimize(text, "auto", "auto", flags)
    except RuntimeError:
        return {"status": "unparsable"}
    if err is not None:
        return {"status": "crash"}
    res_text = semcheck.text_of(res)
    aux = sorted(set(re.findall(r"\b(__(?:min|max|next|dom)_\w+)\(", res_text)))
    if not aux:
        return {"status": "noaux"}
    src_preds = semcheck.predicates_of(prg)
    inset = set((p.name, p.arity) for p in i)
    insts = semcheck.make_instances(rng, inset & src_preds, text, 6)
    out = {"status": "ok", "problems": [], "groups": [], "result": res_text, "program": text}
    for inst in insts:
        try:
            models = oracle.solve_text(res_text + "\n" + inst, None, with_cost=False, allow_undefined=True)
        except (oracle.Skip, oracle.Broken):
            continue
        per_model = [atoms_by_pred(m) for m, _ in models]
        if not per_model:
            continue
        # choice independence of every __dom_ predicate
        doms = sorted(set(k for pm in per_model for k in pm if k[0].startswith("__dom_")))
        for k in doms:
            exts = set(frozenset(map(tuple, map(lambda args: tuple(map(str, args)), pm.get(k, [])))) for pm in per_model)
            if len(exts) > 1:
                out["problems"].append({"kind": "a __dom_ predicate differs between answer sets of one instance", "pred": k[0], "instance": inst})
        for pm in per_model:
            # over-approximation: p(t) in M => __dom_p(t) in M
            for (name, ar) in list(pm):
                if name.startswith("__dom_") and (name[len("__dom_"):], ar) in src_preds:
                    src = (name[len("__dom_"):], ar)
                    have = set(tuple(map(str, a)) for a in pm.get((name, ar), []))
                    for a in pm.get(src, []):
                        if tuple(map(str, a)) not in have:
                            out["problems"].append({"kind": "p(t) holds but __dom_p(t) does not", "pred": src[0], "tuple": [str(x) for x in a],
                                                    "instance": inst})
                            break
            # order predicates
            for (name, ar) in list(pm):
                m = NAME.match(name)
                if not m:
                    continue
                kind, annotated, pos, domname = m.group(1), [int(x) for x in m.group(2).split("_")], int(m.group(3)), m.group(4)
                darity = ar + len(annotated) - (2 if kind == "next" else 1)
                dom = pm.get((domname, darity), [])
                groups = {}
                for args in dom:
                    if pos >= len(args):
                        continue
                    g = tuple(str(args[k]) for k in range(len(args)) if k not in annotated)
                    groups.setdefault(g, []).append(args[pos])
                actual = {}
                for args in pm[(name, ar)]:
                    nval = 2 if kind == "next" else 1
                    g = tuple(str(x) for x in args[:len(args) - nval])
                    actual.setdefault(g, []).append(tuple(str(x) for x in args[len(args) - nval:]))
                for g in set(groups) | set(actual):
                    vals = groups.get(g, [])
                    if not all(v.type == clingo.SymbolType.Number for v in vals):
                        continue
                    out["groups"].append({"kind": kind, "pred": name, "group": list(g), "values": sorted(set(v.number for v in vals)),
                                          "actual": sorted(actual.get(g, [])), "instance": inst})
    return out


def run(ctx) -> int:
    core.prepare_lean(ctx, MODULE)
    if ctx.driver_ok:
        rng = random.Random(ctx.rng.random())
        r = corr_dependency.run(rng, 60 if ctx.quick() else 3000, corpus_limit=50 if ctx.quick() else None, workers=8)
        ctx.cov["evaluations"] += r["evaluations"]
        ctx.cov["distinct_nontrivial"] += r["nontrivial"]
        ctx.cov["unsupported"] += r["unsupported"]
        ctx.cov["histogram"].update({"corr:" + k: v for k, v in list(r["histogram"].items())[:40]})
        for m in r["mismatches"][:20]:
            ctx.mismatches.append({"op": m.get("op"), "program": m.get("program"), "impl": str(m.get("impl"))[:400], "model": str(m.get("model"))[:400]})
        ctx.cov["samples"].append({"correspondence": "dependency ops", "evaluations": r["evaluations"], "nontrivial": r["nontrivial"]})
        # the hypothesis of C20_domain_overapproximates (coveredCheck), evaluated on the programs the real passes produce
        r2 = corr_semcond.run(random.Random(ctx.rng.random()), 50 if ctx.quick() else 1500, corpus_limit=15 if ctx.quick() else None)
        ctx.cov["evaluations"] += r2["evaluations"]
        ctx.cov["distinct_nontrivial"] += r2["nontrivial"]
        ctx.cov["histogram"].update({"corr:theorem side conditions on real rewrites:" + k: v for k, v in r2["histogram"].items()})
        for m in r2["mismatches"][:20]:
            ctx.mismatches.append({"op": m.get("op"), "program": m.get("program"), "impl": str(m.get("impl"))[:400], "model": str(m.get("model"))[:400]})
    known = {f["id"]: f for f in core.findings_for(ctx)}
    semprop.replay_known(ctx)
    # ---- extension level on the real code
    H = [t for o, t in corpus.harvest() if o in ("dependency", "minmax_aggregates", "sum_aggregates", "symmetry")]
    ctx.rng.shuffle(H)
    texts = H[:60 if ctx.quick() else 400]
    for g in ("minmax_chains", "sum_chains", "symmetry"):
        texts += [tgen.GENERATORS[g](ctx.rng) for _ in range(25 if ctx.quick() else 600)]
    texts += [tgen.gen_layered(ctx.rng) for _ in range(70 if ctx.quick() else 1500)]
    # predicates with several defining rules one of which (not the last) has a dynamic aggregate: no domain may be inferred
    MULTI = ["{assign(T,W)} :- task(T), worker(W). load(W,L) :- worker(W), L = #sum{D,T : assign(T,W), dur(T,D)}. load(W,L) :- fixed(W,L). m(M) :- M = #max{L : load(_,L)}. #show m/1.",
             "{a(X)} :- d(X). c(X,N) :- d(X), N = #count{Y : a(Y), Y < X}. c(X,0) :- e(X). g :- c(X,N), c(Y,N), X != Y. #show g/0.",
             "{a(X)} :- d(X). s(X,V) :- d(X), V = #sum{Y : a(Y), Y <= X}. s(X,X) :- e(X). m(M) :- M = #min{V : s(_,V)}. #show m/1."]
    texts += MULTI * 3
    cases = []
    for k, t in enumerate(texts):
        fl = ctx.rng.choice([semcheck.flags_only("minmax_chains"), semcheck.flags_only("sum_chains"), semcheck.flags_only("symmetry"),
                             semcheck.flags_only("minmax_chains", "sum_chains", "symmetry")])
        cases.append((t, fl, ctx.seed * 7919 + k))
    results = semcheck.pool_map(ext_case, cases)
    reqs, meta = [], []
    for case, r in zip(cases, results):
        if r.get("status") != "ok":
            ctx.cov["skipped"] += 1
            continue
        for pr in r["problems"]:
            import hyp
            keys = hyp.falsified(case[0], case[1], {"result": r["result"], "status": "mismatch"})
            if "Hyp_dom_positive" in keys and "D6" in known:
                ctx.known_hits.setdefault("D6", {"what": known["D6"]["what"]})
            else:
                ctx.violations.append({"kind": pr["kind"], "detail": pr, "program": case[0], "flags": case[1], "inp": "auto", "outp": "auto",
                                       "instance": pr.get("instance"), "result": r["result"], "relation": "voc"})
        for g in r["groups"]:
            reqs.append("(order_spec (" + " ".join(str(v) for v in g["values"]) + "))")
            meta.append((case, r, g))
    if ctx.driver_ok and reqs:
        answers = leanio.run_batch(reqs)
        for (case, r, g), ans in zip(meta, answers):
            if ans[0] != "ok":
                ctx.cov["unsupported"] += 1
                continue
            mn, mx, nx = ans[1], ans[2], [(a, b) for a, b in ans[3]]
            if g["kind"] == "min":
                expect = [(mn,)] if mn != "none" else []
            elif g["kind"] == "max":
                expect = [(mx,)] if mx != "none" else []
            else:
                expect = sorted(nx)
            ctx.count(repr((case[0], g["pred"], g["group"], g["values"], g["instance"])), len(g["values"]) >= 2,
                      branch="ext:" + g["kind"], sample={"pred": g["pred"], "group": g["group"], "dom_values": g["values"],
                                                          "extension": g["actual"][:6]})
            if sorted(expect) != sorted(g["actual"]):
                ctx.violations.append({"kind": f"the {g['kind']} predicate is not the {g['kind']} of the domain values of its group",
                                       "pred": g["pred"], "group": g["group"], "domain_values": g["values"],
                                       "expected_by_specification": sorted(expect), "in_answer_set": g["actual"],
                                       "program": case[0], "flags": case[1], "inp": "auto", "outp": "auto", "instance": g["instance"],
                                       "result": r["result"], "relation": "voc"})
    ctx.violations = ctx.violations[:10]
    return core.finish(ctx, LEVEL, core.COMMON_TRUSTED + ["clingo reports the extensions; only integer-valued groups are compared"],
                       ["groups with symbolic values are skipped (clingo's term order is not modelled)",
                        "M4's converse is not proved"], RULE)


def replay(ctx, data) -> int:
    r = ext_case((data["program"], data["flags"], 0))
    print({k: v for k, v in r.items() if k in ("status", "problems")})
    return semprop.replay(ctx, data)
