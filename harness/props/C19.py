"""C19 - the command line is the API: options select exactly the documented traits"""
from __future__ import annotations

import contextlib
import io
import json
import os
import subprocess
import sys
import tempfile
from argparse import ArgumentTypeError
from concurrent.futures import ThreadPoolExecutor

import core
import corpus
import gen
import leanio
import ser

MODULE = "NgoVerif.Props.C19"
LEVEL = ("Lean theorems for every --enable list (any length, repetitions) over option tables that are regenerated "
         "from parser.py/__main__.py/api.py on each run (expansion = documented meaning, rejection, keyword wiring, API "
         "defaults); the argparse actions are tied to the model in-process, and the real `python -m ngo` is run in "
         "subprocesses: the keyword flags it passes to optimize and its stdout are compared with the model / the API.")
RULE = ("cases = --enable lists over {all,none,default}+nine traits (lengths 1-5, repetitions, invalid words, mixed case), "
        "--input/--output-predicates values (absent, auto, empty, lists, malformed), log levels; subprocess cases add a "
        "program from the corpus; non-trivial = accepted option list whose expansion is not the default set, or a "
        "non-empty predicate list; distinct by the option vector")
TRAITS = ["minmax_chains", "symmetry", "duplication", "cleanup", "unused", "sum_chains", "math", "inline", "projection"]

WITNESS = {
    "minmax_chains": "{ q(X) } :- d(X). m(M) :- M = #max { X : q(X) }. #show m/1.",
    "sum_chains": "{ shift(D,L) : pshift(D,L) } 1 :- day(D). :~ shift(D,L). [L@1,D]",
    "symmetry": "{ p(X) } :- d(X). :- p(A), p(B), A != B.",
    "duplication": "a(X) :- p(X), q(X), r(X). b(X) :- p(X), q(X), s(X). c(X) :- p(X), q(X), t(X). #show a/1. #show b/1. #show c/1.",
    "cleanup": "b(X) :- a(X). foo(X) :- a(X), b(X). #show foo/1.",
    "unused": "u(X,Y) :- d(X,Y). a(X) :- u(X,_). #show a/1.",
    "math": "p(X) :- q(X), X*3 = 12, X > 2. #show p/1.",
    "inline": "{ a(X) } :- d(X). s(A,B) :- a(A), B = #sum { Y : person(A,Y) }. foo(X) :- X = #sum { F,V : s(V,F) }. #show foo/1.",
    "projection": "p(A,D) :- q(A,B,C), r(A,D), t(E), not s(B,E). #show p/2.",
}

WRAPPER = r"""
import json, sys
import ngo.__main__ as m
import ngo.api
_real = m.optimize
def _rec(prg, inp, out, **kw):
    sys.stderr.write("NGO_VERIF_CALL " + json.dumps({"in": [[p.name, p.arity] for p in inp], "out": [[p.name, p.arity] for p in out], "flags": kw}) + "\n")
    return _real(prg, inp, out, **kw)
m.optimize = _rec
m.main()
"""


def enable_lists(ctx, n):
    words = ["all", "none", "default"] + TRAITS
    out = [["all"], ["none"], ["default"], ["default", "duplication"], ["duplication", "default"], ["none", "cleanup"],
           ["all", "none"], ["default", "default"], ["all", "default"], ["ALL"], ["Default", "Duplication"], ["bogus"], []]
    out += [[t] for t in TRAITS]
    while len(out) < n:
        k = ctx.rng.choice([1, 1, 2, 2, 3, 4, 5])
        vs = [ctx.rng.choice(words) for _ in range(k)]
        r = ctx.rng.random()
        if r < 0.08:
            vs[ctx.rng.randrange(k)] = ctx.rng.choice(["foo", "clean", "", "al l"])
        elif r < 0.2:
            i = ctx.rng.randrange(k)
            vs[i] = vs[i].upper() if ctx.rng.random() < 0.5 else vs[i].capitalize()
        out.append(vs)
    return out


def pred_values(ctx, n):
    out = [None, "auto", "", "a/1", "edge/2,node/1", " a /3", "a", "a/b", "a/1/2", "a/1,", "a/-1", "a/ 2", "a/1_0", "a/+1",
           "AUTO", "a/1,b/2,c/0", ",", "/", "a/", "/1", "a b/2", "a/1 ,b/2", "a/٣", "a/1.0", "a/0x1"]
    names = ["a", "edge", "p", "__aux_1", "x y", " q", "q ", "f(x)", ""]
    ars = ["0", "1", "2", "10", "-1", "x", "", " 3", "3 ", "1_0", "_1", "1__0", "+2", "２"]
    while len(out) < n:
        k = ctx.rng.choice([1, 1, 2, 3])
        parts = []
        for _ in range(k):
            r = ctx.rng.random()
            if r < 0.8:
                parts.append(f"{ctx.rng.choice(names)}/{ctx.rng.choice(ars)}")
            elif r < 0.9:
                parts.append(ctx.rng.choice(names))
            else:
                parts.append(f"{ctx.rng.choice(names)}/{ctx.rng.choice(ars)}/{ctx.rng.choice(ars)}")
        out.append(",".join(parts))
    return out


def impl_enable(vs):
    from ngo.utils.parser import get_parser
    parser = get_parser()
    try:
        with contextlib.redirect_stderr(io.StringIO()):
            ns = parser.parse_args(["--enable"] + vs)
    except SystemExit:
        return None
    except ArgumentTypeError:
        return None
    return {t: (t in ns.enable) for t in TRAITS}


def impl_predlist(v):
    from ngo.utils.parser import get_parser
    parser = get_parser()
    argv = ["--input-predicates"] + ([] if v is None else [v])
    try:
        with contextlib.redirect_stderr(io.StringIO()):
            ns = parser.parse_args(argv)
    except SystemExit:
        return "reject"
    except ArgumentTypeError:
        return "reject"
    r = ns.input_predicates
    if r == "auto":
        return "auto"
    return [(p.name, p.arity) for p in r]


def model_enable(ans):
    if ans[0] == "reject":
        return None
    return {ser._s(k): b == "1" for k, b in ans[2]}


def model_predlist(ans):
    if ans[0] in ("auto", "reject"):
        return ans[0]
    return [(ser._s(p[0]), int(p[1])) for p in ans[1]]


def spec_enable(vs):
    """the documented meaning, written independently"""
    low = [v.lower() for v in vs]
    if not low or any(v not in ["all", "none", "default"] + TRAITS for v in low):
        return None
    if "none" in low and len(low) > 1:
        return None
    default = [t for t in TRAITS if t != "duplication"]
    return {t: ("all" in low) or (t in low) or ("default" in low and t in default) for t in TRAITS} if "none" not in low \
        else {t: False for t in TRAITS}


def run_cli(argv, program):
    with tempfile.NamedTemporaryFile("w", suffix=".lp", delete=False) as f:
        f.write(program)
        path = f.name
    try:
        env = dict(os.environ)
        env["PYTHONPATH"] = os.path.join(core.REPO, "src") + os.pathsep + env.get("PYTHONPATH", "")
        with open(path, "rb") as fin:
            p = subprocess.run([sys.executable, "-W", "ignore", "-c", WRAPPER] + argv, stdin=fin, stdout=subprocess.PIPE,
                               stderr=subprocess.PIPE, env=env, timeout=300, check=False)
        return p.returncode, p.stdout.decode("utf8", "replace"), p.stderr.decode("utf8", "replace")
    finally:
        os.unlink(path)


def expected_cli(program, flags, inp, outp):
    """stdout the property prescribes: optimize(parse(stdin), IN, OUT, flags) printed one statement per line"""
    from clingo.ast import parse_string
    from ngo import auto_detect_input, auto_detect_output, optimize
    from ngo.utils.ast import Predicate
    prg = []
    parse_string(program, prg.append)
    i = auto_detect_input(prg) if inp == "auto" else [Predicate(n, a) for n, a in inp]
    o = auto_detect_output(prg) if outp == "auto" else [Predicate(n, a) for n, a in outp]
    res = optimize(prg, i, o, **flags)
    return "".join(str(s) + "\n" for s in res), i, o


def cli_case(case):
    vs, inv, outv, level, program = case
    argv = []
    if level is not None:
        argv += ["--log", level]
    if vs is not None:
        argv += ["--enable"] + vs
    if inv is not False:
        argv += ["--input-predicates"] + ([] if inv is None else [inv])
    if outv is not False:
        argv += ["--output-predicates"] + ([] if outv is None else [outv])
    rc, out, err = run_cli(argv, program)
    return argv, rc, out, err


def run(ctx) -> int:
    core.prepare_lean(ctx, MODULE)
    n_en = 300 if ctx.quick() else 20000
    n_pl = 200 if ctx.quick() else 10000
    ens = enable_lists(ctx, n_en)
    pls = pred_values(ctx, n_pl)
    ens_norm = [[v.lower() for v in vs] for vs in ens]  # argparse type=str.lower runs before the action
    reqs = ["(expand_enable (" + " ".join(ser.q(v) for v in vs) + "))" for vs in ens_norm]
    reqs += ["(pred_list " + ("none" if v is None else ser.q(v)) + ")" for v in pls]
    answers = leanio.run_batch(reqs) if ctx.driver_ok else [None] * len(reqs)
    model_en = {}
    for vs, raw, ans in zip(ens_norm, ens, answers[:len(ens)]):
        impl = impl_enable(raw)
        spec = spec_enable(raw)
        label = " ".join(raw)
        if impl != spec:
            ctx.violations.append({"kind": "--enable expansion differs from the documented meaning (in-process argparse)",
                                   "enable": raw, "impl": impl, "documented": spec})
        if ans is not None:
            mod = model_enable(ans)
            model_en[tuple(raw)] = mod
            nontriv = mod is not None and mod != spec_enable(["default"])
            ctx.count("enable:" + label, nontriv, branch="rejected" if mod is None else
                      ("all" if "all" in vs else "default+" if "default" in vs else "none" if "none" in vs else "names"),
                      sample={"enable": raw, "flags": mod})
            if mod != impl:
                ctx.mismatches.append({"op": "expand_enable", "enable": raw, "impl": impl, "model": mod})
    for v, ans in zip(pls, answers[len(ens):]):
        impl = impl_predlist(v)
        if ans is None:
            continue
        if ans[0] == "unsupported":
            ctx.cov["unsupported"] += 1
            continue
        mod = model_predlist(ans)
        ctx.count("predlist:" + repr(v), isinstance(mod, list) and len(mod) > 0,
                  branch=mod if isinstance(mod, str) else "list", sample={"value": v, "result": mod})
        if mod != impl:
            # int() grammar outside the modelled ASCII subset is not a disagreement
            if v is not None and not v.isascii():
                ctx.cov["unsupported"] += 1
                continue
            ctx.mismatches.append({"op": "pred_list", "value": v, "impl": impl, "model": mod})
    # ---- the real command line, in subprocesses
    harvested = [t for _, t in corpus.harvest()]
    n_cli = 48 if ctx.quick() else 600
    cases = []
    fixed = [(["default", "duplication"], False, False, None), (["none"], "", "", None), (["all"], "auto", "auto", "DEBUG"),
             (None, False, False, None), (["cleanup"], "a/1", None, "error"), (["none", "cleanup"], False, False, None),
             (["bogus"], False, False, None), (["duplication", "default"], None, "", "INFO"),
             (["default"], False, "b/1", "warning"), (["unused", "inline"], "", None, None)]
    demo = ("foo(X) :- a(X), b(X), c(X). bar(X) :- a(X), b(X), e(X). b(X) :- a(X). c(X) :- b(X). :- c(X), X>3. "
            "#show b/1. #show foo/1. d(X) :- c(X), not e(X).")
    for f in fixed:
        cases.append((*f, demo))
    # one program per trait on which that trait alone changes the output: `--enable t` and `--enable <the other eight>`
    # tell a swapped or dropped keyword apart with a concrete command line (the wiring theorem alone names no input)
    for t, wprog in WITNESS.items():
        cases.append(([t], False, False, None, wprog))
        cases.append(([x for x in TRAITS if x != t], False, False, None, wprog))
    while len(cases) < n_cli:
        vs = ctx.rng.choice([e for e in ens if spec_enable(e) is not None] * 3 + ens + [None] * 40)
        inv = ctx.rng.choice([False, False, None, "auto", "", "a/1", "a/1,b/1", "dom/1,edge/2", "a/1", "a" if ctx.rng.random() < 0.2 else "d/1"])
        outv = ctx.rng.choice([False, False, None, "auto", "", "b/1", "foo/1,bar/1", "x/y" if ctx.rng.random() < 0.2 else "q/2"])
        level = ctx.rng.choice([None, None, None, "ERROR", "warning", "INFO", "debug", "TRACE" if ctx.rng.random() < 0.3 else "info"])
        program = demo if ctx.rng.random() < 0.3 else ctx.rng.choice(harvested)
        cases.append((vs, inv, outv, level, program))
    with ThreadPoolExecutor(max_workers=12) as ex:
        results = list(ex.map(cli_case, cases))
    for case, (argv, rc, out, err) in zip(cases, results):
        vs, inv, outv, level, program = case
        flags = spec_enable(vs if vs is not None else ["default"])
        inp = "auto" if inv in (False, "auto") else ([] if inv in (None, "") else impl_predlist_spec(inv))
        outp = "auto" if outv in (False, "auto") else ([] if outv in (None, "") else impl_predlist_spec(outv))
        lvl_ok = level is None or level.upper() in ["ERROR", "WARNING", "INFO", "DEBUG"]
        valid = flags is not None and inp != "reject" and outp != "reject" and lvl_ok
        ctx.count("cli:" + " ".join(argv) + "|" + program, valid and (vs is not None or inv is not False or outv is not False),
                  branch="cli-valid" if valid else "cli-invalid", sample={"argv": argv, "program": program[:120]})
        rec = {"argv": argv, "program": program, "exit": rc, "stdout": out[:2000], "stderr_tail": err[-600:]}
        if not valid:
            if rc == 0 or out != "":
                ctx.violations.append({"kind": "invalid option combination was not rejected without output", **rec})
            continue
        call = [l for l in err.splitlines() if l.startswith("NGO_VERIF_CALL ")]
        try:
            exp, i, o = expected_cli(program, flags, inp, outp)
        except Exception as e:  # optimize itself fails on this input: C03's business, not C19's
            ctx.cov["skipped"] += 1
            continue
        if rc != 0 or out != exp:
            ctx.violations.append({"kind": "stdout of `python -m ngo` differs from optimize() for the documented expansion",
                                   "expected_stdout": exp[:2000], "documented_flags": flags, **rec})
            continue
        if len(call) == 1:
            got = json.loads(call[0][len("NGO_VERIF_CALL "):])
            mflags = model_en.get(tuple(vs)) if vs is not None else spec_enable(["default"])
            if mflags is not None and got["flags"] != mflags:
                ctx.mismatches.append({"op": "main_wiring", "argv": argv, "impl": got["flags"], "model": mflags})
    return core.finish(
        ctx, LEVEL,
        core.COMMON_TRUSTED + ["Python's argparse (choices, nargs, type=str.lower are applied before the modelled actions)"],
        ["int()'s full lexical grammar is modelled for ASCII input only", "clingo.parse_files('-') and parse_string build the same AST"],
        RULE)


def impl_predlist_spec(v):
    """documented parse of a name/arity list (independent of the implementation)"""
    out = []
    for part in v.split(","):
        sl = part.split("/")
        if len(sl) != 2:
            return "reject"
        try:
            out.append((sl[0].strip(" "), int(sl[1])))
        except ValueError:
            return "reject"
    return out


def replay(ctx, data) -> int:
    if "argv" in data:
        rc, out, err = run_cli(data["argv"], data["program"])
        print("exit", rc)
        print(out)
        if "expected_stdout" in data:
            print("--- expected\n" + data["expected_stdout"])
            return 0 if (rc == 0 and out == data["expected_stdout"]) else 1
        return 0 if (rc != 0 and out == "") else 1
    impl = impl_enable(data["enable"])
    print("impl", impl, "documented", spec_enable(data["enable"]))
    return 0 if impl == spec_enable(data["enable"]) else 1
