"""C18 - auto-detected input/output predicates are exactly the open and the shown ones"""
from __future__ import annotations

from clingo.ast import ASTType, parse_string

import astspec
import core
import corpus
import gen
import leanio
import ser

MODULE = "NgoVerif.Props.C18"
LEVEL = ("Lean theorems over all programs for the model of auto_detect_input/output (completeness w.r.t. an "
         "independent generic-fold specification, exclusion, output exactness); the model is tied to /repo by "
         "running both on the same parsed programs and diffing; a disagreement triggers the specification being "
         "evaluated on the implementation's own return value as failing-input search.")
RULE = ("cases = programs harvested from /repo/tests + grammar-generated programs + mutations (pools, signs, "
        "adversarial names); non-trivial = auto_detect_input or auto_detect_output returns a non-empty list; "
        "distinct by hash of the program's s-expression")


def _impl(prg):
    from ngo.utils.globals import auto_detect_input, auto_detect_output
    return auto_detect_input(prg), auto_detect_output(prg)


def spec_violations(prg, impl_in, impl_out):
    """the property's own clauses evaluated on the implementation's return value"""
    res = []
    sin = set((p.name, p.arity) for p in impl_in)
    occ, ph = set(), set()
    defined_without_use = set()
    for stm in prg:
        o = set(astspec.occurs(stm))
        h = set(astspec.pos_head(stm))
        b = set(astspec.body_occurs(stm))
        occ |= o
        ph |= h
        defined_without_use |= (h - b)
    missing = (occ - ph) - sin
    if missing:
        res.append(("input_complete", sorted(missing)))
    wrong = defined_without_use & sin
    if wrong:
        res.append(("input_excludes", sorted(wrong)))
    shown = set()
    for stm in prg:
        if stm.ast_type == ASTType.ShowSignature and not (stm.name == "" and stm.arity == 0):
            shown.add((stm.name, stm.arity))
        elif stm.ast_type == ASTType.ShowTerm:
            for b in stm.body:
                for _, s in astspec.sym_atoms(b):
                    shown.update(astspec.sigs(s))
    sout = [(p.name, p.arity) for p in impl_out]
    if set(sout) != shown:
        res.append(("output_exact", {"extra": sorted(set(sout) - shown), "missing": sorted(shown - set(sout))}))
    if sout != sorted(set(sout)):
        res.append(("output_sorted_nodup", sout))
    return res


def classify(prg, clause, detail):
    """attribute a specification violation to a known finding (by the hypothesis it falsifies) or None"""
    if clause in ("input_complete", "input_excludes"):
        # Hyp_no_pool: some symbolic atom has a non-Function symbol naming the missing predicate
        pooled = set()
        for stm in prg:
            if stm.ast_type in (ASTType.Rule, ASTType.Minimize):
                for _, s in astspec.sym_atoms(stm):
                    if s.ast_type == ASTType.Pool:
                        pooled.update(astspec.sigs(s))
        if all(tuple(p) in pooled for p in detail):
            return "D9"
    if clause == "output_exact":
        if detail["missing"] == [] and detail["extra"] == [("", 0)] and any(
                s.ast_type == ASTType.ShowSignature and s.name == "" for s in prg):
            return "D18"
        pooled = set()
        for stm in prg:
            if stm.ast_type == ASTType.ShowTerm:
                for b in stm.body:
                    for _, s in astspec.sym_atoms(b):
                        if s.ast_type == ASTType.Pool:
                            pooled.update(astspec.sigs(s))
        if detail["extra"] in ([], [("", 0)]) and all(tuple(p) in pooled for p in detail["missing"]):
            return "D9"
    return None


def make_cases(ctx):
    texts = []
    harvested = corpus.harvest()
    for origin, t in harvested:
        texts.append((f"corpus:{origin}", t))
    n_gen = 150 if ctx.quick() else 3000
    for i in range(n_gen):
        texts.append((f"gen:{i}", gen.random_program(ctx.rng)))
    # every statement kind in isolation, next to one rule: a predicate that occurs ONLY in the body of a #show term,
    # an #external, a head aggregate's condition, ... must be seen (a two-statement program makes that likely)
    for i in range(260 if ctx.quick() else 5000):
        r = ctx.rng.random()
        if r < 0.45:
            first = gen.other_stm(ctx.rng)
        elif r < 0.6:
            first = f"#show {gen.term(ctx.rng, 1)} : {', '.join(gen.body_lit(ctx.rng) for _ in range(ctx.rng.choice([1, 2, 3])))}."
        elif r < 0.75:
            first = gen.objective(ctx.rng)
        else:
            first = gen.rule(ctx.rng)
        texts.append((f"stmt:{i}", first + "\n" + gen.rule(ctx.rng)))
    n_mut = 150 if ctx.quick() else 3000
    for i in range(n_mut):
        _, base = ctx.rng.choice(harvested) if ctx.rng.random() < 0.6 else ("", gen.random_program(ctx.rng))
        m = base
        for _ in range(ctx.rng.choice([1, 1, 2, 3])):
            m = gen.mutate(ctx.rng, m)
        texts.append((f"mut:{i}", m))
    return texts


def parse(text):
    return corpus.parses(text)


def known_witnesses(ctx):
    for f in core.findings_for(ctx):
        yield f["id"], f


def run(ctx) -> int:
    core.prepare_lean(ctx, MODULE)
    cases = []
    for label, text in make_cases(ctx):
        prg = parse(text)
        if prg is None:
            ctx.cov["unsupported"] += 1
            continue
        cases.append((label, text, prg))
    # known findings first
    for fid, f in known_witnesses(ctx):
        prg = parse(f["witness"]["program"])
        i, o = _impl(prg)
        v = spec_violations(prg, i, o)
        if any(classify(prg, c, d) == fid for c, d in v):
            ctx.known_hits[fid] = {"what": f["what"]}
    reqs = []
    idx = []
    impl = []
    for n, (label, text, prg) in enumerate(cases):
        try:
            sx = ser.prog(prg)
        except ser.Unsupported:
            ctx.cov["unsupported"] += 1
            impl.append(None)
            continue
        i, o = _impl(prg)
        impl.append((i, o))
        reqs.append(f"(detect_in {sx})")
        reqs.append(f"(detect_out {sx})")
        idx.append(n)
        # the specification is evaluated on every implementation result (cheap)
        for clause, detail in spec_violations(prg, i, o):
            fid = classify(prg, clause, detail)
            if fid is not None and any(k == fid for k, _ in known_witnesses(ctx)):
                ctx.known_hits.setdefault(fid, {"what": next(f["what"] for k, f in known_witnesses(ctx) if k == fid)})
            else:
                ctx.violations.append({"kind": "specification violated by auto_detect on the real code",
                                       "clause": clause, "detail": detail, "program": text, "case": label,
                                       "auto_detect_input": [str(p) for p in i], "auto_detect_output": [str(p) for p in o]})
    if ctx.driver_ok:
        answers = leanio.run_batch(reqs)
        for k, n in enumerate(idx):
            label, text, prg = cases[n]
            i, o = impl[n]
            a_in, a_out = answers[2 * k], answers[2 * k + 1]
            ii = [(p.name, p.arity) for p in i]
            oo = [(p.name, p.arity) for p in o]
            nontrivial = bool(ii or oo)
            if a_in[0] != "ok" or a_out[0] != "ok":
                ctx.cov["unsupported"] += 1
                continue
            first = [(ser._s(p[0]), int(p[1])) for p in a_in[1]]
            second = [(ser._s(p[0]), int(p[1])) for p in a_in[2]]
            mout = [(ser._s(p[0]), int(p[1])) for p in a_out[1]]
            ctx.count(text, nontrivial, branch=("second-loop" if second else "plain") + ("+show" if oo else ""),
                      sample={"program": text[:300], "input": [f"{a}/{b}" for a, b in ii], "output": [f"{a}/{b}" for a, b in oo]})
            ok_in = ii[:len(first)] == first and set(ii) == set(first) | set(second) and \
                sorted(ii[len(first):]) == sorted(second)
            if not ok_in or oo != mout:
                ctx.mismatches.append({"op": "detect_in" if not ok_in else "detect_out", "case": label, "program": text,
                                       "impl": [ii, oo], "model": [first, second, mout]})
    return core.finish(
        ctx, LEVEL,
        core.COMMON_TRUSTED + ["harness/astspec.py (generic child_keys walker used as the search oracle)"],
        ["the list order of auto_detect_input's second (hash-ordered) loop is compared as a multiset; order belongs to C17",
         "classical negation (-p) and theory atoms are outside the fragment"],
        RULE)


def replay(ctx, data) -> int:
    prg = parse(data["program"])
    i, o = _impl(prg)
    v = spec_violations(prg, i, o)
    print("auto_detect_input :", [str(p) for p in i])
    print("auto_detect_output:", [str(p) for p in o])
    print("specification clauses violated:", v)
    return 1 if v else 0
