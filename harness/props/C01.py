"""C01 - optimised program has the same answer sets on the output predicates"""
from __future__ import annotations

import corr_pipeline
import semcheck
import tgen
import semprop
from props import _generic

MODULE = "NgoVerif.Props.C01"
LEVEL = ("Lean: composition theorems (a run of any length whose every pass application preserves an observation "
         "preserves it; finer observations and one-to-one conservative extensions give the OUT observation; satisfiability is "
         "preserved) and the schedule of the model of api.optimize (enabled passes in the documented order, exit at the first "
         "fixpoint; tied to the code by the NGO_VERIF trace in C03). The per-pass premises are the per-pass properties "
         "(C05, C08-C16) - proved as far as their own files say - so C01 as a whole is partial: it is validated end-to-end "
         "on the real optimize under default/all/random trait subsets and auto/explicit declarations with clingo.")
RULE = ("oracle cases = programs harvested from /repo/tests and mutations under default, all and random trait subsets, "
        "auto-detected and explicit random IN/OUT (IN always contains the predicates without rules), 4 instances each; "
        "compared: answer sets restricted to OUT (what #show displays when auto) + costs; non-trivial = optimize changed the "
        "program and an instance was compared; thorough: all 2^9 trait subsets on small programs")
EXTRA = [
    "free(X) :- slot(X), not blocked(X). blocked(X) :- reserved(X), locked(X). usable(X) :- free(X), reserved(X). #show usable/1.",
    "ready(T,W) :- task(T,W), open(D), staffed(D), ok(S) : needs(T,S). #show ready/2.",
    "b(X) :- a(X). c(X) :- b(X). :- c(X), X>3. #show b/1.",
    "{ a(X) : d(X) }. s(S) :- S = #sum{ X : a(X) }. m(M) :- M = #max{ X : a(X) }. #show s/1. #show m/1.",
]


def pipeline(rng, quick):
    return corr_pipeline.run(rng, 30 if quick else 600, corpus_limit=30 if quick else 300)


def run(ctx) -> int:
    default = semcheck.flags_only(*[t for t in semcheck.ALL_TRAITS if t != "duplication"])
    allf = semcheck.flags_only(*semcheck.ALL_TRAITS)
    rnd = [{t: ctx.rng.random() < 0.5 for t in semcheck.ALL_TRAITS} for _ in range(2 if ctx.quick() else 6)]
    return _generic.run_semantic(ctx, MODULE, LEVEL, RULE, [default, allf] + rnd, "out", None, EXTRA, (50, 400), (40, 1500), corr=[('pipeline stages', pipeline)],
                                 n_inst=4, generators=list(tgen.GENERATORS.values()), outp_choices=("auto",), one_to_one=False,
                                 assumptions=("C01 composes the per-pass properties; where those are partial, so is C01",
                                              "instances range over the input predicates only"))


def replay(ctx, data) -> int:
    return semprop.replay(ctx, data)
