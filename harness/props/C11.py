"""C11 - symmetry: ordered/counted joins fire exactly when the != joins fired"""
from __future__ import annotations

import corr_symmetry
import corr_semcond
import semcheck
import tgen
import semprop
from props import _generic

MODULE = "NgoVerif.Props.C11"
LEVEL = ("Lean: for a symmetric context 'some pair with x != y' = 'some pair with x < y' (and a counterexample without symmetry), 'two different witnesses' = 'count >= 2' (Finset), auxiliary count rule = definitional extension. The pass's syntactic symmetry test and its use of projected domain atoms are validated with clingo (instances with <k, =k, >k matching atoms and ties).")
RULE = ('oracle cases = programs harvested from /repo/tests (dependency,symmetry first) mutations of them and programs of a targeted type-directed generator (harness/tgen.py) under symmetry only, 5 instances each (empty, small integer/symbolic domains, dense tiny domains, duplicates) over the input predicates; compared: answer sets on voc(P) one-to-one + costs; non-trivial = the pass changed the program and at least one instance was compared; distinct by program+flags')
EXTRA = ['f :- p(A), p(B), q(A,X), q(B,Y), A != B, X < Y.', '1 { a(X,Y) : b(Y) } Q :- p(Q,X,V1), p(A,X,V2), Q != A, V1 != V2.', ':- p(A,S), p(B,S), p(C,S), A != B, B != C, A != C.', 'g(S) :- p(A,S), p(B,S), A != B.', '{p(1..4,a)}. :- p(X,S), p(Y,S), X < Y.']


def corr(rng, quick):
    return corr_symmetry.run(rng, 140 if quick else 2500, corpus_limit=60 if quick else None)


def semcond(rng, quick):
    return corr_semcond.run(rng, 40 if quick else 1500, corpus_limit=20 if quick else None)


def run(ctx) -> int:
    flags = [semcheck.flags_only("symmetry")]
    return _generic.run_semantic(ctx, MODULE, LEVEL, RULE, flags, 'voc', {'dependency', 'symmetry'}, EXTRA, (110, 700), (80, 3000), corr=[('symmetry', corr), ('theorem side conditions on real rewrites', semcond)],
                                 n_inst=5, facts_over='in', outp_choices=('auto',), one_to_one=True, generators=[tgen.GENERATORS['symmetry']],
                                 assumptions=("the pass's syntactic decisions are not derived from the ground-level side conditions in Lean (validated by the oracle)", 'instances range over the declared/auto-detected input predicates only'))


def replay(ctx, data) -> int:
    return semprop.replay(ctx, data)
