"""factory for the semantic property checks that share one shape: Lean obligations + (optional) pass correspondence +
clingo oracle on the real optimize + known-finding replay"""
from __future__ import annotations

import random

import core
import semcheck
import semprop

import os
import time


def _tick(ctx, what):
    if os.environ.get("VERIF_PROFILE"):
        print(f"[profile] {what}: {time.time() - ctx.t0:.1f} s", flush=True)


TRUSTED = core.COMMON_TRUSTED + ["clingo 5.8.2 grounder/solver as the meaning of programs in the oracle"]


def _run_corr(job):
    name, fn, seed, quick = job
    t = time.time()
    r = fn(random.Random(seed), quick)
    if os.environ.get("VERIF_PROFILE"):
        print(f"[profile]   correspondence {name}: {time.time() - t:.1f} s", flush=True)
    return r


def run_semantic(ctx, module, level, rule, flags_list, relation, origins, extra, n_corpus, n_mut, corr=None, n_inst=4,
                 facts_over="in", outp_choices=("auto",), one_to_one=True, assumptions=(), program_filter=None, decl_mix=True,
                 generators=()):
    core.prepare_lean(ctx, module)
    _tick(ctx, 'lean')
    extra = list(extra)
    n_hand = len(extra)
    if corr is not None and ctx.driver_ok:
        rng = random.Random(ctx.rng.random())
        jobs = [(name, fn, rng.getrandbits(64), ctx.quick()) for name, fn in corr]
        # the correspondences of one property are independent: each runs in its own forked process
        outs = semcheck.pool_map(_run_corr, jobs, workers=len(jobs), task_timeout=7200) if len(jobs) > 1 else [_run_corr(jobs[0])]
        for (name, fn, seed, quick), r in zip(jobs, outs):
            if not isinstance(r, dict) or "evaluations" not in r:
                r = _run_corr((name, fn, seed, quick))   # a killed child is repeated in the parent: a tie is never dropped
            ctx.cov["evaluations"] += r["evaluations"]
            ctx.cov["distinct_nontrivial"] += r["nontrivial"]
            ctx.cov["unsupported"] += r["unsupported"]
            ctx.cov["histogram"].update({f"corr:{name}:" + k: v for k, v in r["histogram"].items()})
            for m in r["mismatches"][:20]:
                ctx.mismatches.append({"op": m.get("op"), "program": m.get("program"), "impl": str(m.get("impl"))[:500],
                                       "model": str(m.get("model"))[:500]})
            # programs on which model and code disagree are the first place to look for a failing input: they get the
            # multiplicity of the hand-written programs
            sus = [m["program"] for m in r["mismatches"][:12] if isinstance(m.get("program"), str)]
            extra[0:0] = sus
            n_hand += len(sus)
            extra += list(r.get("extra_programs", []))[:40]
            ctx.cov["samples"].append({"correspondence": name, "evaluations": r["evaluations"], "nontrivial": r["nontrivial"]})
    for g in generators:
        progs = [g(ctx.rng) for _ in range((40 if ctx.quick() else 1500) // max(1, len(generators)))]
        extra += progs
        # the same shapes with a source variable that carries the name a fresh-variable request would produce
        import gen
        extra += [q for q in (gen.collide_vars(ctx.rng, x) for x in progs[:max(4, len(progs) // 6)] if isinstance(x, str)) if q not in progs]
    _tick(ctx, 'correspondence + generators')
    semprop.replay_known(ctx)
    _tick(ctx, 'replay of known witnesses')
    qn, tn = n_corpus
    qm, tm = n_mut
    cases = []
    for outp in outp_choices:
        cases += semprop.oracle_cases(ctx, flags_list, relation, (qn if ctx.quick() else tn) // len(outp_choices),
                                      (qm if ctx.quick() else tm) // len(outp_choices), origins=origins, n_inst=n_inst,
                                      facts_over=facts_over, outp=outp, extra_programs=extra, one_to_one=one_to_one,
                                      decl_mix=decl_mix, n_hand=n_hand)
        extra = []
    if program_filter is not None:
        cases = [c for c in cases if program_filter(c["program"])]
    _tick(ctx, f'{len(cases)} oracle cases built')
    semprop.run_oracle(ctx, cases, None)
    _tick(ctx, 'oracle + classification')
    return core.finish(ctx, level, TRUSTED, list(assumptions), rule)
