"""C09 - unused removes or shrinks only what no output, constraint or objective can see"""
from __future__ import annotations

import corr_unused
import corr_semcond
import semcheck
import tgen
import semprop
from props import _generic

MODULE = "NgoVerif.Props.C09"
LEVEL = ('Lean: deleting the plain rules of an unobserved predicate is definitional extension read backwards (one-to-one, M3 both directions), observation on the remaining atoms unchanged. The usage scan / position projection / copy unfolding are decisions of unused.py: validated on the real code by the clingo oracle on IN u OUT with costs, under auto-detected and explicit declarations.')
RULE = ('oracle cases = programs harvested from /repo/tests (inline,regression,unused first) mutations of them and programs of a targeted type-directed generator (harness/tgen.py) under unused only, 5 instances each (empty, small integer/symbolic domains, dense tiny domains, duplicates) over the input predicates; compared: answer sets on IN u OUT + costs; non-trivial = the pass changed the program and at least one instance was compared; distinct by program+flags')
EXTRA = ['{c}. {b}. a :- c. not a :- b. #show b/0. #show c/0.', '{c(X)} :- d(X). a(X) :- c(X), e(X). not a(X) :- f(X). #show c/1.', 'a(X) :- b(X). b(X) :- c(X). d :- a(1).', 'on :- not not latch. latch :- on, power. {power}.', 'on :- not not latch. latch :- on, power. {power}. #show latch/0.', 'bin(b,5). item(1,2). item(2,3). item(3,4). C = #sum{W,I : pick(B,I,W) : item(I,W)} :- bin(B,C). used(B) :- pick(B,_,_).', 'p(X,Y) :- q(X,Y). q(X,Y) :- r(Y,X). s(X) :- p(X,_). #show s/1.', 'a(X,X) :- b(X,Y). q(P,Q) :- a(P,Q), c(P), c(Q). #show q/2.']


def corr(rng, quick):
    return corr_unused.run(rng, 30 if quick else 2500, n_targeted=40 if quick else 2000, corpus_limit=40 if quick else None)


def semcond(rng, quick):
    return corr_semcond.run(rng, 40 if quick else 1500, corpus_limit=20 if quick else None)


def run(ctx) -> int:
    flags = [semcheck.flags_only("unused")]
    return _generic.run_semantic(ctx, MODULE, LEVEL, RULE, flags, 'inout', {'regression', 'unused', 'inline'}, EXTRA, (110, 700), (80, 3000), corr=[('unused', corr), ('theorem side conditions on real rewrites', semcond)],
                                 n_inst=5, facts_over='in', outp_choices=('auto',), one_to_one=True, generators=[tgen.GENERATORS['unused']],
                                 assumptions=("the pass's syntactic decisions are not derived from the ground-level side conditions in Lean (validated by the oracle)", 'instances range over the declared/auto-detected input predicates only'))


def replay(ctx, data) -> int:
    return semprop.replay(ctx, data)
