#!/usr/bin/env python3
"""Stage-wise correspondence of the WHOLE pipeline: the real `ngo.optimize` is run with the NGO_VERIF trace; every pass
application (program before -> program after, as serialised AT TRACE TIME, because later passes edit nodes in place) is
replayed on the Lean model of that pass and must give exactly the traced result.

This ties the models to the code on the programs the pipeline really feeds them (results of other passes, several loop
iterations), not only on preprocessed inputs, and it ties `api.optimize` itself: a pass constructed with the wrong
declaration list, skipped, or run in another order shows up as a mismatch of some stage.

Stages replayed: cleanup, unused, duplication, symmetry, minmax_chains, sum_chains (with the sharing groups of the live
objects), inline, projection (on `inline_arithmetic` of the traced program), exline.  `math` needs the recorded sympy
answers (corr_mathsimp.py does that on its own inputs) and is skipped here, as are pre-/postprocess (corr_normalize.py).
"""
from __future__ import annotations

import collections
import copy
import random
import sys

import corpus
import corr_sumrewrite
import gen
import leanio
import ser
import tgen

TRAITS = ["cleanup", "unused", "duplication", "symmetry", "minmax_chains", "sum_chains", "math", "inline", "projection"]
OPS = {"cleanup": "cleanup", "unused": "unused", "duplication": "duplication", "symmetry": "symmetry",
       "minmax_chains": "minmax", "sum_chains": "sum_chains", "inline": "inline", "projection": "projection", "exline": "exline"}


def all_preds(prg):
    from ngo.utils.ast import predicates
    out = set()
    for s in prg:
        for sp in predicates(s):
            out.add(sp.pred)
    return out


class Snap:
    __slots__ = ("stage", "it", "text", "groups", "post", "extra")


def snapshot(stage, it, prg):
    from ngo.normalize import inline_arithmetic
    s = Snap()
    s.stage, s.it = stage, it
    try:
        s.text = ser.prog(prg)
    except ser.Unsupported:
        s.text = None
    s.groups = s.post = s.extra = None
    if s.text is not None:
        try:
            groups, problem = corr_sumrewrite.sharing_groups(prg)
            s.groups = corr_sumrewrite.groups_text(groups) if problem is None else None
        except Exception:  # noqa
            s.groups = None
        try:
            cp = copy.deepcopy(list(prg))
            post = inline_arithmetic(cp)
            s.post = ser.prog(post)
            s.extra = sorted(all_preds(cp) - all_preds(post))
        except Exception:  # noqa
            s.post = None
    return s


def trace_run(text, flags, decl_rng):
    """[Snap ...] of one real optimize run, the declarations used, and whether it raised"""
    import ngo.api
    from ngo import optimize, auto_detect_input, auto_detect_output
    from ngo.utils.ast import Predicate
    prg = corpus.parses(text)
    if not prg:
        return None
    ins = list(auto_detect_input(prg))
    outs = list(auto_detect_output(prg))
    r = decl_rng.random()
    if r < 0.3:
        heads = sorted(all_preds(prg) - set(ins))
        ins += [p for p in heads if decl_rng.random() < 0.3]
    if decl_rng.random() < 0.3:
        outs = sorted(p for p in all_preds(prg) if decl_rng.random() < 0.4)
    snaps = []
    ngo.api.VERIF_HOOK = lambda stage, it, p: snaps.append(snapshot(stage, it, p))
    raised = False
    try:
        optimize(prg, ins, outs, **flags)
    except BaseException:  # noqa - crashes are C03's business; the stages before the crash are still compared
        raised = True
    finally:
        ngo.api.VERIF_HOOK = None
    return snaps, ins, outs, raised


def requests_of(snaps, ins, outs):
    sin, sout = ser.preds(ins), ser.preds(outs)
    reqs = []
    for a, b in zip(snaps, snaps[1:]):
        op = OPS.get(b.stage)
        if op is None or a.text is None or b.text is None:
            continue
        if op in ("unused", "inline"):
            req = f"({op} {a.text} {sin} {sout})"
        elif op == "sum_chains":
            if a.groups is None:
                continue
            req = f"(sum_chains {a.text} {sin} {a.groups})"
        elif op == "projection":
            if a.post is None:
                continue
            req = f"(projection {a.post} {ser.preds(list(ins) + list(a.extra))})"
        elif op == "cleanup":
            if a.post is None:
                continue
            req = f"(cleanup {a.post} {sin})"   # the model starts after the pass's own `inline_arithmetic` line
        elif op == "exline":
            req = f"(exline {a.text})"
        else:
            req = f"({op} {a.text} {sin})"
        reqs.append((b.stage, req, b.text, a.text != b.text))
    return reqs


def make_texts(rng, n_gen, corpus_limit=None):
    H = corpus.harvest()
    if corpus_limit is not None:
        H = rng.sample(H, min(len(H), corpus_limit))
    texts = [("corpus:" + o, t) for o, t in H]
    gens = list(tgen.GENERATORS.values())
    for i in range(n_gen):
        r = rng.random()
        if r < 0.6:
            texts.append(("tgen", rng.choice(gens)(rng)))
        elif r < 0.8:
            texts.append(("mutated", gen.mutate(rng, rng.choice(corpus.harvest())[1])))
        elif r < 0.9:
            texts.append(("layered", gen.layered_program(rng)))
        else:
            texts.append(("random", gen.random_program(rng)))
    return texts


def run(rng, n_gen, corpus_limit=None) -> dict:
    hist = collections.Counter()
    items = []
    for label, text in make_texts(rng, n_gen, corpus_limit):
        u = rng.random()
        if u < 0.35:
            flags = {t: t != "duplication" for t in TRAITS}
        elif u < 0.55:
            flags = {t: True for t in TRAITS}
        else:
            flags = {t: rng.random() < 0.5 for t in TRAITS}
        tr = trace_run(text, flags, random.Random(rng.getrandbits(32)))
        if tr is None:
            hist["skip:unparsable"] += 1
            continue
        snaps, ins, outs, raised = tr
        if raised:
            hist["real optimize raised (stages before the crash are compared)"] += 1
        hist["loop iterations: " + str(min(max((s.it for s in snaps), default=0), 4)) + ("+" if max((s.it for s in snaps), default=0) > 4 else "")] += 1
        for stage, req, expected, changed in requests_of(snaps, ins, outs):
            items.append((text, stage, req, expected, changed))
    answers = leanio.run_batch([it[2] for it in items], timeout=3600) if items else []
    mismatches = []
    unsupported = 0
    nontrivial = 0
    for (text, stage, req, expected, changed), ans in zip(items, answers):
        if isinstance(ans, list) and ans and ans[0] == "unsupported":
            unsupported += 1
            hist[f"{stage}: unsupported by the model ({ser_show(ans[1]) if len(ans) > 1 else ''})"] += 1
            continue
        exp = ser.parse_sexp(expected)
        if isinstance(ans, list) and len(ans) >= 2 and ans[0] == "ok" and ans[1] == exp:
            hist[f"{stage}: {'changed the program' if changed else 'identity'}, model agrees"] += 1
            nontrivial += 1 if changed else 0
        else:
            hist[f"{stage}: MISMATCH"] += 1
            mismatches.append({"op": "pipeline:" + stage, "program": text, "impl": expected[:600], "model": ser_show(ans)[:600]})
    return {"evaluations": len(items), "nontrivial": nontrivial, "mismatches": mismatches, "unsupported": unsupported,
            "histogram": dict(hist)}


def ser_show(x) -> str:
    if isinstance(x, tuple):
        return ser.q(x[1])
    if isinstance(x, list):
        return "(" + " ".join(ser_show(y) for y in x) + ")"
    return str(x)


if __name__ == "__main__":
    n = int(sys.argv[1]) if len(sys.argv) > 1 else 200
    for seed in (0, 1):
        r = run(random.Random(seed), n, corpus_limit=int(sys.argv[2]) if len(sys.argv) > 2 else None)
        print(f"seed {seed}: evaluations={r['evaluations']} nontrivial={r['nontrivial']} mismatches={len(r['mismatches'])} "
              f"unsupported={r['unsupported']}")
        for k, v in sorted(r["histogram"].items()):
            print(f"   {k:100s} {v}")
        for m in r["mismatches"][:6]:
            print("  MISMATCH", m["op"], "\n    program:", m["program"].replace("\n", " | ")[:300], "\n    impl :", m["impl"][:300], "\n    model:", m["model"][:300])
