"""targeted, type-directed program generators per trait: most generated programs make the trait fire, and the shapes
vary along the dimensions the property quantifies over (guard forms, signs, tuples, groups, declarations)"""
from __future__ import annotations

OPS = ["<", "<=", ">", ">=", "=", "!="]
SIGNS = ["", "", "", "not ", "not not "]


def _agg_lit(rng, fun, elems, var="X", consts=("1", "2", "3", "5")):
    """an aggregate literal in one of the guard shapes"""
    inner = f"{fun} {{ {elems} }}"
    r = rng.random()
    c, c2 = rng.choice(consts), rng.choice(consts)
    if r < 0.35:
        return f"{var} = {inner}", True
    if r < 0.42:
        return f"{inner} = {var}", True
    if r < 0.62:
        return f"{rng.choice(SIGNS)}{c} {rng.choice(OPS)} {inner}", False
    if r < 0.82:
        return f"{rng.choice(SIGNS)}{inner} {rng.choice(OPS)} {c}", False
    if r < 0.95:
        return f"{rng.choice(SIGNS)}{c} {rng.choice(['<', '<='])} {inner} {rng.choice(['<', '<='])} {c2}", False
    return f"{rng.choice(SIGNS)}{c} {rng.choice(OPS)} {inner} {rng.choice(OPS)} {c2}", False


def gen_minmax2(rng):
    """two group keys: the tuple of the consuming #sum / objective must identify BOTH (P+Q, P*Q, P do not)"""
    fun = rng.choice(["#max", "#min"])
    lines = [rng.choice(["{ sel(P,Q,V) } :- skill(P,Q,V).", "{ sel(P,Q,V) : skill(P,Q,V) } :- slot(P,Q)."])]
    lines.append(f"res(P,Q,X) :- slot(P,Q), X = {fun} {{ V : sel(P,Q,V) }}.")
    key = rng.choice(["P,Q", "P+Q", "P-Q", "P*Q", "(P,Q)", "P", "Q,P", "P+Q,P", "f(P,Q)", "P+1,Q"])
    u = rng.random()
    if u < 0.5:
        lines.append(f"tot(S) :- S = #sum {{ X,{key} : res(P,Q,X) }}.")
    elif u < 0.8:
        lines.append(f"#{rng.choice(['minimize', 'maximize'])} {{ X,{key} : res(P,Q,X) }}.")
    else:
        lines.append(f":~ res(P,Q,X). [X@1,{key}]")
    return "\n".join(lines)


def gen_minmax(rng):
    if rng.random() < 0.14:
        return gen_minmax2(rng)
    fun = rng.choice(["#max", "#min"])
    lines = []
    r = rng.random()
    if r < 0.5:
        lines.append("{ sel(P,V) } :- skill(P,V).")
    elif r < 0.7:
        lines.append("{ sel(P,V) : skill(P,V) } :- person(P).")
    elif r < 0.85:
        lines.append("{ pick(P) } :- person(P). sel(P,V) :- skill(P,V), pick(P).")
    else:
        lines.append("{ blocked(P) } :- person(P). sel(P,V) :- skill(P,V), not blocked(P).")
    if rng.random() < 0.25:
        lines.append("sel(P,0) :- person(P).")
    grouped = rng.random() < 0.7
    tup = rng.choice(["V", "V", "V,T", "V+1", "V*2", "-V"])
    cond = "sel(P,V)" if grouped else "sel(_,V)"
    if "T" in tup:
        cond = cond.replace("sel(P,V)", "sel(P,V), tag(T)").replace("sel(_,V)", "sel(_,V), tag(T)")
    if rng.random() < 0.2:
        cond += rng.choice([", V > 1", ", not low(V)", ", V != 3"])
    elems = f"{tup} : {cond}"
    if rng.random() < 0.15:
        elems += f"; {rng.choice(['0', '4', 'W : bonus(W)'])}"
    lit, assigns = _agg_lit(rng, fun, elems)
    outer = "person(P), " if grouped else ""
    if grouped and rng.random() < 0.15:
        # a second aggregate over another choice predicate, joined through the group variable: upper bounds are anti-monotone,
        # so a domain computed from the DOMAIN of that predicate is no over-approximation
        lines.append("{ kind(P,K) } :- avail(P,K).")
        outer += rng.choice(["#sum { 1,K : kind(P,K) } <= 1, ", "#count { K : kind(P,K) } < 2, ", "1 <= #count { K : kind(P,K) }, ",
                             "C = #count { K : kind(P,K) }, C < 2, "])
    if assigns:
        head = "res(P,X)" if grouped else "res(X)"
        lines.append(f"{head} :- {outer}{lit}.")
        u = rng.random()
        if u < 0.25:
            lines.append(f"#{rng.choice(['minimize', 'maximize'])} {{ X{rng.choice(['', '@2'])},{rng.choice(['P', 'P', '|P|', 'p(P)'])} : res(P,X) }}." if grouped
                         else "#minimize { X : res(X) }.")
            if rng.random() < 0.5:  # a second objective with the same tuple text: equal ground tuples are charged once
                lines.append(lines[-1].replace("res(", "fee("))
        elif u < 0.4:
            lines.append(f"tot(S) :- S = #sum {{ X,{rng.choice(['P', 'P', 'P+1', 'p(P)', '|P|', 'P*P'])} : res(P,X) }}." if grouped else "tot(S) :- S = #sum { X : res(X) }.")
        elif u < 0.5:
            lines.append(f":~ {'res(P,X)' if grouped else 'res(X)'}. [X@1{',P' if grouped else ''}]")
        elif u < 0.56 and grouped:  # the weight is NOT the result
            lines.append(rng.choice([":~ res(P,X), w(P,W). [W@1,P,X]", "tot(S) :- S = #sum { W,P,X : res(P,X), w(P,W) }."]))
    else:
        head = rng.choice(["ok(P)", "ok(P)", ""]) if grouped else rng.choice(["ok", ""])
        lines.append(f"{head} :- {outer}{lit}.")
    if rng.random() < 0.2:
        lines.append(rng.choice(["#show res/2.", "#show ok/1.", "#show sel/2."]))
    return "\n".join(lines)


def gen_sumchains(rng):
    bound = rng.choice(["{ shift(D,L) : pshift(D,L) } 1", "1 >= { shift(D,L) : pshift(D,L) }", "{ shift(D,L) : pshift(D,L) } < 2",
                        "{ shift(D,L) : pshift(D,L) } = 1", "#count { L : shift(D,L) : pshift(D,L) } 1",
                        "#sum { 1,L : shift(D,L) : pshift(D,L) } <= 1", "{ shift(D,L) : pshift(D,L) } 2",
                        "0 { shift(D,L) : pshift(D,L) } 1", "1 { shift(D,L) : pshift(D,L) } 1"])
    body = rng.choice(["day(D)", "day(D)", "day(D), active(D)", "day(D), not off(D)"])
    lines = [f"{bound} :- {body}."]
    if "active" in body:
        lines.append("{ active(D) } :- day(D).")
    if rng.random() < 0.15:
        lines.append("shift(D,0) :- day(D), forced(D).")
    u = rng.random()
    extra = rng.choice(["", "", ", L > 2", ", ok(D)", ", not bad(L)"])
    tup = rng.choice(["L,D", "L,D", "L", "L,D,x", "L*2,D", "-L,D"])
    if u < 0.45:
        f = rng.choice(["#sum", "#sum", "#sum+"])
        lit, assigns = _agg_lit(rng, f, f"{tup} : shift(D,L){extra}", var="S")
        lines.append(f"total(S) :- {lit}." if assigns else f"big :- {lit}.")
    elif u < 0.75:
        pr = rng.choice(["", "@1", "@2", "@L"])
        lines.append(f"#{rng.choice(['minimize', 'minimize', 'maximize'])} {{ {tup.split(',')[0]}{pr},{','.join(tup.split(',')[1:]) or 'D'} : shift(D,L){extra} }}.")
    else:
        lines.append(f":~ shift(D,L){extra}. [L@1,D]")
        if rng.random() < 0.4:
            lines.append(":~ over(D,L). [L@1,D]\n{ over(D,L) } :- pshift(D,L).")
    w = rng.random()
    if w < 0.08:  # the weight variable is also bound outside of the aggregate
        lines.append("a(D,L,X) :- pshift(D,L), X = #sum { L,D : shift(D,L) }.")
    elif w < 0.14:  # a NEGATED literal of the at-most-one predicate
        lines.append(rng.choice(["b(D,X) :- day(D), X = #sum { L,D : pshift(D,L), not shift(D,L) }.",
                                 ":~ pshift(D,L), not shift(D,L). [L@1,D]"]))
    if rng.random() < 0.12:  # anonymous group argument in the consumer (finding D16 is about its meaning, C04 about its safety)
        lines[-1] = lines[-1].replace("shift(D,L)", "shift(_,L)").replace(",D", "").replace("ok(D)", "ok(L)")
    return "\n".join(lines)


def gen_inline(rng):
    lines = ["{ in(I,B) : bin(B) } = 1 :- item(I)." if rng.random() < 0.7 else "{ in(I,B) } :- item(I), bin(B)."]
    f1 = rng.choice(["#sum", "#sum", "#count", "#sum+", "#min", "#max"])
    inner = "W,I : in(I,B), weight(I,W)" if f1 != "#count" else "I : in(I,B)"
    helper_extra = rng.choice(["", "", ", open(B)"])
    lines.append(f"load(B,S) :- bin(B){helper_extra}, S = {f1} {{ {inner} }}.")
    u = rng.random()
    f2 = rng.choice(["#sum", "#sum", "#sum+", "#count", "#max", "#min"])
    if u < 0.45 and rng.random() < 0.25:
        # uses of the helper that do not identify its group or its value: tuple without the group, repeated variable,
        # constant, anonymous group; a helper whose body joins the aggregate through a variable that is not in its head
        if rng.random() < 0.3:
            lines[-1] = f"load(B,S) :- bin(B), cls(B,K), S = {f1} {{ {inner.replace('weight(I,W)', 'weight(I,W), kind(I,K)').replace('I : in(I,B)', 'I : in(I,B), kind(I,K)')} }}."
        el = rng.choice(["L : load(B,L)", "L,B : load(B,L), load(B2,L), B != B2", "L : load(L,L)", "3,B : load(B,3)", "L : load(_,L)",
                         "L,B : load(B,L); 1,b1 : extra", "L,B : load(B,L); L2,B2 : cap(B2,L2)"])
        lines.append(f"report(X) :- X = {f2} {{ {el} }}.")
        lines.append("#show report/1.")
    elif u < 0.45:
        el = "L,B : load(B,L)" + rng.choice(["", "", "", ", heavy(B)", ", not light(B)", ", B != b1"])  # further conditions
        if rng.random() < 0.3:
            el += rng.choice(["; 1,x : extra", "; W : bonus(W)", "; L2,B2 : cap(B2,L2)"])
        lines.append(f"report(X) :- X = {f2} {{ {el} }}{rng.choice(['', '', ', load(B2,L2), limit(M), L2 > M'])}.")
        lines.append("#show report/1.")
    elif u < 0.7:
        lines.append(f":~ load(B,L){rng.choice(['', ', heavy(B)', ', ok(I) : item(I)', ', not bad(W) : tag(W)'])}. [L@{rng.choice(['1', '2'])},B]")
        if rng.random() < 0.3:  # a second objective: the same tuple text, or a tuple of another length
            lines.append(rng.choice([":~ fee(B,L). [L@1,B]", ":~ fee(B,L). [L@2,B]", ":~ toll(L). [L@1]", ":~ fee(B,L), open(B). [L@1,B,x]"]))
    elif u < 0.85:
        lines.append("over(B) :- load(B,L), cap(B,C), L > C. #show over/1.")
    else:
        lines.append("bad :- not load(b1,0). #show bad/0.")
    return "\n".join(lines)


def gen_math(rng):
    lines = []
    u = rng.random()
    if u < 0.4:
        n = rng.choice([2, 3])
        vs = ["X", "Y", "Z"][:n]
        body = [f"d({v})" for v in vs]
        for _ in range(rng.choice([1, 2, 3])):
            a, b = rng.sample(vs, 2)
            body.append(rng.choice([f"{a} = {b} + {rng.choice('123')}", f"{a} - {b} {rng.choice(OPS)} {rng.choice('012')}",
                                    f"{a} + {b} {rng.choice(OPS)} {rng.choice('345')}", f"{a} {rng.choice(OPS)} {b}",
                                    f"2*{a} = {b} + {b}", f"{a} = {b} * {rng.choice('23')}", f"W = {a} + {b}, W > 3",
                                    # numbers divided / taken modulo with a negative operand: clingo rounds towards zero
                                    f"W = {b}, {a} = (0-{rng.choice('579')}){rng.choice(['/', chr(92)])}{rng.choice('23')} + W",
                                    f"W = {b}, {a} = {rng.choice('579')}{rng.choice(['/', chr(92)])}(0-{rng.choice('23')}) + W"]))
        if rng.random() < 0.15:
            c = rng.choice([f"not {vs[0]} != {vs[1]}", f"not not {vs[0]} < {vs[1]}", "not 1 != 1", f"not {vs[0]} > 2"])
            body += [c, c]
        lines.append(f"h({','.join(vs[:rng.choice([1, n])])}) :- {', '.join(body)}.")
    else:
        lines.append("{ on(S) } :- sw(S).")
        aggs = []
        names = ["N", "M", "K"]
        for v in names[:rng.choice([1, 2, 2, 3])]:
            f = rng.choice(["#sum", "#count", "#sum+", "#sum"])
            el = rng.choice(["S : on(S)", "1,S : on(S)", "C,S : on(S), cost(S,C)", "S : sw(S)", "C,S : cost(S,C)"])
            aggs.append(f"{rng.choice(['', '', '', 'not not ', 'not '])}{v} = {f} {{ {el} }}")
        used = [a.split(" = ")[0].split()[-1] for a in aggs]
        rel = []
        for _ in range(rng.choice([1, 2])):
            a = rng.choice(used)
            b = rng.choice(used + ["T"])
            rel.append(rng.choice([f"{a} {rng.choice(OPS)} {rng.choice('01234')}", f"{a} + {b} {rng.choice(OPS)} {rng.choice('2345')}",
                                   f"{a} {rng.choice(OPS)} {b}", f"{a} - {b} {rng.choice(OPS)} 0",
                                   f"V0 = 0-{a}, val(V0)", f"V0 = {rng.choice('23')}*{a}, val(V0)", f"V0 = (0-2)*{a}, V0 {rng.choice(OPS)} -3",
                                   # two-sided bounds, one of them 0 / negative: the constants of the two relations differ in kind
                                   f"{a} {rng.choice(['>', '>=', '!='])} 0, {a} {rng.choice(['<', '<='])} {rng.choice('2345')}",
                                   f"{a} {rng.choice(['<', '<='])} {rng.choice('234')}, {a} {rng.choice(['>', '>='])} -{rng.choice('012')}"]))
        if rng.random() < 0.12:  # a signed comparison, twice (dict keys collapse)
            c = rng.choice(["not 1 != 1", "not not 1 = 1", f"not {used[0]} != {used[0]}", "not 2 < 1"])
            rel += [c, c]
        extra = ", lim(T)" if any("T" in r for r in rel) else ""
        head = rng.choice(["sync", "sync", "", "lvl(N)" if "N" in used else "sync"])
        lines.append(f"{head} :- {', '.join(aggs + rel)}{extra}.")
        if rng.random() < 0.3:
            lines.append("on(S) :- sync, sw(S).")
    return "\n".join(lines)


def gen_duplication(rng):
    if rng.random() < 0.1:
        # a literal set with more than ten variables: the auxiliary atom's arguments are numbered __AUX_0 .. __AUX_10,
        # whose lexicographic order is not their numeric order
        n = rng.choice([9, 10, 11, 12])
        vs = [chr(ord("A") + i) for i in range(n)]
        k = n // 2
        shared = f"leg({','.join(vs[:k + 1])}), hop({','.join(vs[k:])})"
        return (f"reach({vs[0]},{vs[-1]}) :- {shared}, fee({vs[-1]},W0), W0 > 1.\n"
                f"direct({vs[0]},{vs[-2]}) :- {shared}, ok({vs[1]}).\n"
                f":~ {shared}, fee({vs[-1]},W0). [W0@1,{vs[0]}]")
    shared = rng.choice(["a(X), b(X)", "a(X), b(X,Y), Y > 1", "a(X), not c(X)", "price(I,2*H), sale(I)", "w(T,W), not ex(G,W)",
                         "a(X), b(X,Y), c(Y)"])
    v = "X" if "X" in shared else ("I" if "I" in shared else "T")
    lines = []
    u = rng.random()
    if u < 0.45:
        lines.append(f"foo({v}) :- {shared}, e({v}).")
        lines.append(f"bar({v}) :- {shared}, {rng.choice(['f(' + v + ')', 'not g(' + v + ')', v + ' != 2', 'not not ' + v + ' != 2', 'not ' + v + ' != 2', 'not not ' + v + ' = 2'])}.")
        if rng.random() < 0.4:
            lines.append(f":- {shared}, bad({v}).")
    elif u < 0.8:
        binder1 = "coupon(H)" if "H" in shared else ("grp(T,G)" if "G" in shared else "e(" + v + ")")
        binder2 = "big(H)" if "H" in shared else ("team(T,G)" if "G" in shared else "f(" + v + ")")
        w = "H" if "H" in shared else ("W" if "W" in shared else "1")
        lines.append(f"s1(S) :- S = #sum {{ {w},{v} : {shared}, {binder1} }}.")
        lines.append(f"s2(N) :- N = #count {{ {v} : {shared}, {binder2} }}.")
    else:
        lines.append(f"p({v}) :- q({v}), r(Z) : {shared.replace(v, 'Z') if v == 'X' else shared}.")
        lines.append(f"p2({v}) :- q2({v}), r(Z) : {shared.replace(v, 'Z') if v == 'X' else shared}.")
    return "\n".join(lines)


def gen_symmetry(rng):
    k = rng.choice([2, 2, 2, 3])
    vs = ["A", "B", "C"][:k]
    shared = rng.choice(["", ",S", ",S,T"])
    atoms = [f"p({v}{shared})" for v in vs]
    cmps = []
    for i in range(k):
        for j in range(i + 1, k):
            cmps.append(rng.choice([f"{vs[i]} != {vs[j]}", f"{vs[i]} != {vs[j]}", f"{vs[i]} < {vs[j]}", f"not {vs[i]} = {vs[j]}",
                                    f"{vs[j]} > {vs[i]}", f"{vs[i]} != {vs[j]}",
                                    # negated orders: `not A > B` is the NON-strict `A <= B` (holds for A = B)
                                    rng.choice([f"not {vs[i]} > {vs[j]}", f"not {vs[i]} >= {vs[j]}", f"not {vs[i]} < {vs[j]}",
                                                f"not {vs[i]} <= {vs[j]}", f"{vs[i]} <= {vs[j]}"])]))
    if k == 3 and rng.random() < 0.3:
        cmps.pop()
    extra = rng.choice(["", "", f", q({vs[0]},V1), q({vs[1]},V2), V1 != V2", f", r({vs[0]})", ", ok(S)" if shared else "",
                        # a second group that shares one unequal variable / uses one at an equal position
                        f", q({vs[1]}), q(Z), {vs[1]} != Z", f", m({vs[0]},V1), m({vs[0]},V2), V1 != V2"])
    if rng.random() < 0.1 and k == 2:  # one copy carries a constant where the other has the variable: no symmetry
        c0 = rng.choice(["1", "2", "a"])
        atoms = [f"p({vs[0]}{shared})", f"p({c0}{shared})"]
        cmps = [rng.choice([f"{vs[0]} != {c0}", f"{vs[0]} > {c0}", f"not {vs[0]} = {c0}"])]
    if rng.random() < 0.08:  # the unequal variable also at an `equal' position of the copies
        atoms = [f"p({vs[0]},{vs[0]})", f"p({vs[1]},{vs[0]})"] + atoms[2:]
    head = rng.choice(["", "", "f", f"g({'S' if shared else '1'})", f"h({vs[0]})"])
    lines = [f"{head} :- {', '.join(atoms + cmps)}{extra}."]
    if rng.random() < 0.2:  # the symmetric literals inside an aggregate element: the tuple's variables are used outside of the condition
        tup = rng.choice([f"{vs[0]}{shared}", (shared[1:] or "1"), ",".join(vs) + shared, f"1{shared}", f"{vs[1]}"])
        f = rng.choice(["#count", "#count", "#sum"])
        lines = [f"a(X) :- X = {f} {{ {tup} : {', '.join(atoms + cmps)} }}{', s(S)' if shared and rng.random() < 0.3 else ''}. #show a/1."]
    r = rng.random()
    if r < 0.4:
        lines.append(f"{{ p(X{shared}) }} :- d(X){',s(S)' if shared else ''}{',t(T)' if 'T' in shared else ''}.")
    elif r < 0.6:
        lines.append(f"p(X{shared}) :- d(X){',s(S)' if shared else ''}{',t(T)' if 'T' in shared else ''}, not out(X).")
        lines.append("{ out(X) } :- d(X).")
    return "\n".join(lines)


def gen_unused(rng):
    lines = []
    n = rng.choice([2, 3, 4])
    chain = ["c0", "c1", "c2", "c3", "c4"]
    lines.append(rng.choice(["{ c0(X,Y) } :- d(X), e(Y).", "c0(X,Y) :- d(X), e(Y), not n(X).", "{ c0(X,Y) : e(Y) } 1 :- d(X)."]))
    for i in range(1, n):
        args = rng.choice(["X,Y", "Y,X", "X,Y", "X,X", "X,1"])
        body = rng.choice([f"{chain[i - 1]}(X,Y)", f"{chain[i - 1]}(X,Y)", f"not not {chain[i - 1]}(X,Y)", f"{chain[i - 1]}(X,Y), d(X)"])
        lines.append(f"{chain[i]}({args}) :- {body}.")
    last = chain[n - 1]
    u = rng.random()
    if u < 0.3:
        lines.append(f"out(X) :- {last}(X,_). #show out/1.")
    elif u < 0.55:
        lines.append(f"out(X,Y) :- {last}(X,Y), m(Y). #show out/2.")
    elif u < 0.7:
        lines.append(f":- {last}(X,Y), X > Y. junk(X) :- {last}(X,_).")
    elif u < 0.85:
        lines.append(f"#minimize {{ Y,X : {last}(X,Y) }}. aux(Y) :- {last}(_,Y).")
    else:
        lines.append(f"#show f(X) : {last}(X,_). g :- {chain[0]}(_,_).")
    if rng.random() < 0.3:
        lines.append(f"{chain[0]}(X,X) :- back(X), {last}(X,_).")
    if rng.random() < 0.15:
        # a literal with a sign in the HEAD is a use of its predicate: `not a :- B.` is `:- B, a.`, `not not a :- B.` is
        # `:- B, not a.`
        lines.append(f"{rng.choice(['not', 'not not'])} side(X,Y) :- d(X), e(Y), m(Y). side(X,Y) :- {last}(X,Y){rng.choice(['', ', X != Y'])}.")
    return "\n".join(lines)


def gen_layered(rng):
    import gen
    return gen.layered_program(rng)


def gen_projection(rng):
    """rules whose body falls into parts that share few variables (what `projection` splits), with local scopes,
    anonymous variables, negation and comparisons in either part"""
    vs = ["X", "Y", "Z", "W", "V"]
    n = rng.choice([3, 4, 5])
    chain = []
    for i in range(n - 1):
        a, b = vs[i], vs[i + 1]
        chain.append(rng.choice([f"e{i}({a},{b})", f"e{i}({a},{b},_)", f"e{i}({b},{a})", f"e{i}({a},f({b}))"]))
    extras = []
    for _ in range(rng.choice([0, 1, 2, 2])):
        v = rng.choice(vs[:n])
        extras.append(rng.choice([f"not bad({v})", f"{v} > 1", f"ok({v},_)", f"not not good({v})", f"m({v}) : dom({v},K), K > 1",
                                  f"1 <= #count {{ U : cnt({v},U) }}", f"{v} != {rng.choice(vs[:n])}"]))
    body = chain + extras
    rng.shuffle(body)
    hv = rng.sample(vs[:n], rng.choice([1, 1, 2]))
    head = rng.choice([f"h({','.join(hv)})", f"h({','.join(hv)})", f"{{ h({','.join(hv)}) }}", "",
                       f"h({hv[0]}) : not q({rng.choice(vs[:n])})", f"h({hv[0]}) : r({rng.choice(vs[:n])}); g({hv[0]})"])
    if rng.random() < 0.1:  # an interval whose bound is a variable: it does not bind it
        body = [x.replace(f"({vs[0]},{vs[1]})", f"({vs[0]},1..{vs[1]})") for x in body]
    lines = [f"{head} :- {'; '.join(body)}."]   # `;`: a conditional literal ends at the next `;`, not at a `,`
    if rng.random() < 0.4:
        lines.append("{ e0(X,Y) } :- d(X), d(Y).")
    if rng.random() < 0.3:
        lines.append(f"g({vs[0]}) :- h({','.join(hv)}), not bad({vs[0]}), aux({vs[0]}).".replace("aux", rng.choice(["aux", "__aux_1", "q"])))
    return "\n".join(lines)


GENERATORS = {"minmax_chains": gen_minmax, "sum_chains": gen_sumchains, "inline": gen_inline, "math": gen_math,
              "duplication": gen_duplication, "symmetry": gen_symmetry, "unused": gen_unused, "projection": gen_projection}
