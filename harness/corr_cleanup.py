"""correspondence of the Lean model NgoVerif.Model.Cleanup with ngo/cleanup.py (CleanupTranslator)

ops
  (cleanup <prog> (<input preds>))           -> (ok <prog>) | (err ..)   compared exactly with the real
                                                 CleanupTranslator(inputs).execute(prog) (inline_arithmetic patched
                                                 to the identity: <prog> is already inlined by the harness)
  (cleanup_mappings <prog> (<input preds>))  -> (ok (<mapping>...))      compared as a set with clt.superseeds after
                                                 clt._find_superseeded(prog)

inputs: program text -> clingo.ast.parse_string -> ngo.normalize.preprocess -> ngo.normalize.inline_arithmetic
The real pass edits aggregate elements of its *input* in place, so every case gets a freshly prepared program and
the request is serialised before the real function runs.
"""
from __future__ import annotations

import copy
import random
import re
import sys
from collections import Counter

import corpus
import gen
import leanio
import ser

import ngo.cleanup as cleanup_mod
from ngo.cleanup import CleanupTranslator
from ngo.normalize import inline_arithmetic, preprocess
from ngo.utils.ast import Predicate, predicates
from ngo.utils.globals import auto_detect_input

# `execute` minus its first step: patched only while the real pass is called (see build_case)
_ORIG_INLINE = cleanup_mod.inline_arithmetic


# ---------------------------------------------------------------- targeted generator

T_PREDS = [("a", 2), ("b", 1), ("c", 2), ("d", 1), ("e", 0), ("f", 3), ("g", 1), ("h", 2), ("p", 1), ("q", 2), ("r", 0)]
T_VARS = ["X", "Y", "Z"]


def _t_args(rng, pool, ar):
    return [rng.choice(pool) for _ in range(ar)]


def _t_atom(rng, pool, preds=T_PREDS):
    name, ar = rng.choice(preds)
    if ar == 0:
        return name
    return f"{name}({','.join(_t_args(rng, pool, ar))})"


def _t_sign(rng):
    r = rng.random()
    return "" if r < 0.7 else ("not " if r < 0.92 else "not not ")


def _t_bool(rng):
    return rng.choice(["#true", "#false", "#true", "not #false", "not #true", "not not #true", "not not #false"])


def _t_lits(rng, pool, implied, n, booleans=0.08):
    """n literals over the argument pool; literals of `implied` (the skeleton shared by the rules of a head) are
    repeated often so that superseeded literals occur"""
    out = []
    for _ in range(n):
        r = rng.random()
        if r < booleans:
            out.append(_t_bool(rng))
        elif r < 0.55 and implied:
            out.append(rng.choice(implied))
        elif r < 0.62 and out:
            out.append(rng.choice(out))  # plain duplicate
        elif r < 0.68 and (out or implied):
            # a copy of an earlier literal with one argument anonymised (`_superseeded` skips `_` on the rhs)
            src = rng.choice(out + implied)
            m = [x for x in re.finditer(r"(?<=[(,])[A-Z](?=[,)])", src)]
            if m:
                x = rng.choice(m)
                src = src[: x.start()] + "_" + src[x.end():]
            out.append(src)
        elif r < 0.70:
            out.append(f"{rng.choice(pool)} {rng.choice(['<', '!=', '='])} {rng.choice(pool)}")
        else:
            out.append(_t_sign(rng) + _t_atom(rng, pool))
    return out


def targeted_program(rng) -> str:
    lines = []
    defined = []  # (head atom text, skeleton literal texts)
    n_heads = rng.choice([1, 2, 2, 3])
    head_preds = rng.sample([p for p in T_PREDS if p[1] > 0], n_heads)
    for name, ar in head_preds:
        pool = T_VARS[: max(1, min(3, ar + rng.choice([0, 0, 1])))]
        hargs = []
        for _ in range(ar):
            r = rng.random()
            hargs.append(rng.choice(pool) if r < 0.8 else rng.choice(["1", "f(X)", "X+1", "_", "a"]))
        hatom = f"{name}({','.join(hargs)})"
        # skeleton: literals over the head arguments, shared by all rules of this head
        skel = []
        for _ in range(rng.choice([1, 2, 2, 3])):
            bn, bar = rng.choice([p for p in T_PREDS if p[0] != name])
            bargs = [rng.choice(hargs) for _ in range(bar)]
            skel.append(_t_sign(rng) + (f"{bn}({','.join(bargs)})" if bar else bn))
        defined.append((hatom, skel, hargs))
        for _ in range(rng.choice([1, 1, 2, 3])):
            pool2 = sorted(set(hargs + T_VARS[:2]))
            keep = [s for s in skel if rng.random() < 0.9]
            extra = _t_lits(rng, pool2, keep, rng.choice([0, 1, 2]))
            body = keep + extra
            rng.shuffle(body)
            r = rng.random()
            if r < 0.55:
                head = hatom
                lines.append(f"{head} :- {', '.join(body)}." if body else f"{head}.")
            elif r < 0.8:
                # choice head: skeleton partly in the element condition
                k = rng.randrange(len(body) + 1)
                cond, rest = body[:k], body[k:]
                cond = [c for c in cond if ":" not in c]
                other = _t_atom(rng, pool2)
                el = f"{hatom} : {', '.join(cond)}" if cond else hatom
                els = [el] + ([f"{other} : {', '.join(cond)}" if cond and rng.random() < 0.5 else other] if rng.random() < 0.5 else [])
                rng.shuffle(els)
                h = f"{rng.choice(['', '1 '])}{{ {'; '.join(els)} }}{rng.choice(['', ' 1'])}"
                lines.append(f"{h} :- {', '.join(rest)}." if rest else f"{h}.")
            elif r < 0.9:
                k = rng.randrange(len(body) + 1)
                cond, rest = body[:k], body[k:]
                el = f"{hatom} : {', '.join(cond)}" if cond else hatom
                h = f"{el}; {_t_atom(rng, pool2)}"
                lines.append(f"{h} :- {', '.join(rest)}." if rest else f"{h}.")
            else:
                k = rng.randrange(len(body) + 1)
                cond, rest = body[:k], body[k:]
                el = f"{rng.choice(pool2)} : {hatom} : {', '.join(cond)}" if cond else f"{rng.choice(pool2)} : {hatom}"
                h = f"#sum {{ {el} }} >= 1"
                lines.append(f"{h} :- {', '.join(rest)}." if rest else f"{h}.")
    # users: bodies/conditions/aggregates that repeat implied literals
    for _ in range(rng.choice([1, 2, 3, 4])):
        hatom, skel, hargs = rng.choice(defined)
        pool = sorted(set(hargs + T_VARS))
        r = rng.random()
        sk = [s for s in skel if rng.random() < 0.8]
        if r < 0.35:
            body = [hatom] + sk + _t_lits(rng, pool, sk, rng.choice([0, 1, 2]))
            rng.shuffle(body)
            head = rng.choice(["", _t_atom(rng, pool), _t_atom(rng, pool)])
            lines.append(f"{head} :- {', '.join(body)}.")
        elif r < 0.55:
            cond = [hatom] + sk + _t_lits(rng, pool, sk, rng.choice([0, 1]), booleans=0.2)
            rng.shuffle(cond)
            cond = [c for c in cond if rng.random() < 0.7]
            clhead = _t_bool(rng) if rng.random() < 0.3 else f"{_t_sign(rng)}{_t_atom(rng, pool)}"
            if rng.random() < 0.15:
                cond = [_t_bool(rng) for _ in range(rng.choice([0, 1, 2]))]
            cl = f"{clhead} : {', '.join(cond)}" if cond else f"{clhead} : "
            body = [cl] + _t_lits(rng, pool, sk, rng.choice([0, 1, 2]))
            rng.shuffle(body)
            lines.append(f"{rng.choice(['', _t_atom(rng, pool)])} :- {'; '.join(body)}.")
        elif r < 0.8:
            els = []
            for _ in range(rng.choice([1, 2])):
                cond = [hatom] + sk + _t_lits(rng, pool, sk, rng.choice([0, 1]), booleans=0.2)
                rng.shuffle(cond)
                els.append(f"{rng.choice(pool)},{rng.choice(pool)} : {', '.join(cond)}")
            agg = f"{rng.choice(['#sum', '#count', '#max'])} {{ {'; '.join(els)} }}"
            agg = rng.choice([f"{agg} >= 1", f"W = {agg}", f"not {agg} < 2", agg])
            body = [agg] + _t_lits(rng, pool, sk + [hatom], rng.choice([0, 1, 2]))
            rng.shuffle(body)
            lines.append(f"{rng.choice(['', _t_atom(rng, pool)])} :- {', '.join(body)}.")
        elif r < 0.9:
            els = []
            for _ in range(rng.choice([1, 2])):
                cond = [hatom] + sk + _t_lits(rng, pool, sk, rng.choice([0, 1]), booleans=0.2)
                rng.shuffle(cond)
                els.append(f"{_t_sign(rng)}{_t_atom(rng, pool)} : {', '.join(cond)}")
            agg = f"{rng.choice(['', '1 '])}{{ {'; '.join(els)} }}{rng.choice(['', ' 2'])}"
            body = [agg] + _t_lits(rng, pool, sk + [hatom], rng.choice([0, 1]))
            lines.append(f":- {', '.join(body)}.")
        else:
            body = [hatom] + sk + _t_lits(rng, pool, sk, rng.choice([0, 1]), booleans=0.15)
            rng.shuffle(body)
            if rng.random() < 0.5:
                lines.append(f":~ {', '.join(body)}. [1@1,{rng.choice(pool)}]")
            else:
                lines.append(f"#minimize {{ 1@1,{rng.choice(pool)} : {', '.join(body)} }}.")
    if rng.random() < 0.3:
        lines.append(gen.rule(rng))
    rng.shuffle(lines)
    return "\n".join(lines)


# ---------------------------------------------------------------- real side

def prepare(text):
    """the pipeline in front of CleanupTranslator.execute's second line; None if the text does not parse"""
    prg = corpus.parses(text)
    if prg is None:
        return None
    prg = preprocess(prg)
    return inline_arithmetic(prg)


def program_preds(prg):
    out = set()
    for stm in prg:
        out.update(sp.pred for sp in predicates(stm))
    return sorted(out)


def mapping_key(m):
    return (m.head_pred.name, m.head_pred.arity, int(m.body_pred.sign), m.body_pred.pred.name, m.body_pred.pred.arity,
            tuple(m.var_map))


def model_mapping_key(x):
    return (ser._s(x[0]), int(x[1]), int(x[2]), ser._s(x[3]), int(x[4]), tuple(int(i) for i in x[5]))


def input_variants(rng, prg):
    """[(label, list of Predicate, program)] for a prepared program.  The real pass mutates its input, so every
    variant gets its own ASTs: the first one the pipeline's own objects (with whatever node sharing the pipeline
    produced), the others deep copies taken before anything ran."""
    ps = program_preds(prg)
    k = rng.randrange(len(ps) + 1) if ps else 0
    sub = rng.sample(ps, k) if ps else []
    sub2 = rng.sample(ps, rng.randrange(len(ps) + 1)) if ps else []
    return [("empty", [], prg), ("auto", auto_detect_input(prg), [copy.deepcopy(s) for s in prg]),
            ("random", sub, [copy.deepcopy(s) for s in prg]), ("raw", sub2, None)]


class Case:
    __slots__ = ("origin", "text", "label", "inputs", "req_prog", "before", "impl_exec", "impl_maps", "n_stm")


def build_case(origin, text, label, inputs, prg):
    """runs the real code on `prg` (fresh ASTs); returns a Case or a string naming why the case is not comparable"""
    try:
        req_prog = ser.prog(prg)
    except ser.Unsupported:
        return "ser_unsupported"
    c = Case()
    c.origin, c.text, c.label, c.inputs, c.req_prog = origin, text, label, list(inputs), req_prog
    c.before = ser.parse_sexp(req_prog)
    c.n_stm = len(prg)
    # mappings (does not mutate the program)
    try:
        clt = CleanupTranslator(list(inputs))
        clt._find_superseeded(prg)
        c.impl_maps = sorted(mapping_key(m) for m in clt.superseeds)
    except Exception as e:  # pylint: disable=broad-except
        c.impl_maps = ("error", type(e).__name__)
    cleanup_mod.inline_arithmetic = lambda p: list(p)
    try:
        res = CleanupTranslator(list(inputs)).execute(prg)
        c.impl_exec = ser.parse_sexp(ser.prog(res))
    except ser.Unsupported:
        return "ser_unsupported_result"
    except Exception as e:  # pylint: disable=broad-except
        c.impl_exec = ("error", type(e).__name__)
    finally:
        cleanup_mod.inline_arithmetic = _ORIG_INLINE
    return c


def run(rng, n_gen, with_corpus=True, n_targeted=None, corpus_limit=None) -> dict:
    hist = Counter()
    texts = []
    if with_corpus:
        texts += [("corpus:" + o, t) for o, t in corpus.harvest()]
        if corpus_limit is not None and len(texts) > corpus_limit:
            texts = rng.sample(texts, corpus_limit)
    pool = [t for _, t in corpus.harvest()]
    for i in range(n_gen):
        if i % 2 == 0:
            texts.append(("gen.random_program", gen.random_program(rng)))
        else:
            base = rng.choice(pool) if rng.random() < 0.6 else gen.random_program(rng)
            t = gen.mutate(rng, base)
            if rng.random() < 0.3:
                t = gen.mutate(rng, t)
            texts.append(("gen.mutate", t))
    for _ in range(n_gen // 2 if n_targeted is None else n_targeted):
        texts.append(("targeted", targeted_program(rng)))

    cases = []
    unsupported = 0
    for origin, text in texts:
        try:
            prg = prepare(text)
            if prg is None:
                hist["skipped:does_not_parse"] += 1
                continue
            variants = input_variants(rng, prg)
        except Exception as e:  # pylint: disable=broad-except
            hist[f"skipped:pipeline_raises_{type(e).__name__}"] += 1
            continue
        for label, inputs, vprg in variants:
            if vprg is None:
                # not preprocessed: the parsed program as it is (old-style body aggregates, unnormalised heads, ...)
                vprg = corpus.parses(text)
            c = build_case(origin, text, label, inputs, vprg)
            if isinstance(c, str):
                unsupported += 1
                hist["unsupported:" + c] += 1
            else:
                cases.append(c)

    reqs = []
    for c in cases:
        ins = ser.preds(c.inputs)
        reqs.append(f"(cleanup {c.req_prog} {ins})")
        reqs.append(f"(cleanup_mappings {c.req_prog} {ins})")
    answers = leanio.run_batch(reqs)

    evaluations = 0
    nontrivial = 0
    mismatches = []
    changed_by_origin = Counter()
    total_by_origin = Counter()
    for i, c in enumerate(cases):
        a_exec, a_maps = answers[2 * i], answers[2 * i + 1]
        kind = c.origin.split(":")[0]
        # ---- execute
        if a_exec[0] == "unsupported":
            unsupported += 1
            hist["unsupported:lean_reader"] += 1
        else:
            evaluations += 1
            total_by_origin[kind] += 1
            if isinstance(c.impl_exec, tuple):
                impl = "error"
            else:
                impl = c.impl_exec
            model = "error" if a_exec[0] == "err" else a_exec[1]
            if impl != model:
                mismatches.append({"op": "cleanup", "program": c.text, "inputs": ser.preds(c.inputs), "impl": impl,
                                   "model": model, "origin": c.origin})
            if impl == "error":
                hist["cleanup:error"] += 1
                nontrivial += 1
            elif impl != c.before:
                hist["cleanup:changed"] += 1
                changed_by_origin[kind] += 1
                nontrivial += 1
                if len(impl) < len(c.before):
                    hist["cleanup:statement_dropped"] += 1
            else:
                hist["cleanup:unchanged"] += 1
        # ---- mappings
        if a_maps[0] == "unsupported":
            unsupported += 1
        else:
            evaluations += 1
            if isinstance(c.impl_maps, tuple):
                impl = "error"
            else:
                impl = c.impl_maps
            if a_maps[0] == "err":
                model = "error"
            else:
                model = [model_mapping_key(x) for x in a_maps[1]]
                if sorted(set(model)) != sorted(model):
                    model = ("duplicates", model)
                else:
                    model = sorted(model)
            if impl != model:
                mismatches.append({"op": "cleanup_mappings", "program": c.text, "inputs": ser.preds(c.inputs),
                                   "impl": impl, "model": model, "origin": c.origin})
            if impl == "error":
                hist["mappings:error"] += 1
                nontrivial += 1
            elif impl:
                hist["mappings:nonempty"] += 1
                nontrivial += 1
                hist[f"mappings:size_{min(len(impl), 10) if len(impl) < 10 else '10+'}"] += 1
            else:
                hist["mappings:empty"] += 1
    for k in total_by_origin:
        hist[f"changed_fraction:{k}"] = f"{changed_by_origin[k]}/{total_by_origin[k]}"
    return {"evaluations": evaluations, "nontrivial": nontrivial, "mismatches": mismatches, "unsupported": unsupported,
            "histogram": dict(hist)}


def main():
    n_gen = int(sys.argv[1]) if len(sys.argv) > 1 else 2000
    total = {"evaluations": 0, "nontrivial": 0, "mismatches": [], "unsupported": 0}
    for seed in range(3):
        res = run(random.Random(seed), n_gen, with_corpus=True)
        print(f"seed {seed}: evaluations={res['evaluations']} nontrivial={res['nontrivial']} "
              f"mismatches={len(res['mismatches'])} unsupported={res['unsupported']}")
        for k in sorted(res["histogram"]):
            print(f"    {k}: {res['histogram'][k]}")
        for k in ("evaluations", "nontrivial", "unsupported"):
            total[k] += res[k]
        total["mismatches"] += res["mismatches"]
    print(f"TOTAL evaluations={total['evaluations']} nontrivial={total['nontrivial']} "
          f"mismatches={len(total['mismatches'])} unsupported={total['unsupported']}")
    for m in total["mismatches"][:10]:
        print("---- MISMATCH", m["op"], m["origin"], "inputs", m["inputs"])
        print(m["program"])
        print("impl :", str(m["impl"])[:1500])
        print("model:", str(m["model"])[:1500])
    return 1 if total["mismatches"] else 0


if __name__ == "__main__":
    sys.exit(main())
