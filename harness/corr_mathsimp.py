"""correspondence of the Lean model Model/MathSimp.lean with ngo.math_simplification.MathSimplification

    PYTHONPATH=/tmp/model/math/harness:/repo/src /venv/bin/python corr_mathsimp.py

sympy is EXTERNAL to the model.  `real_run` monkeypatches (inside try/finally) the names through which
`ngo/math_simplification.py` enters sympy after the equation system is built

 * `groebner(equalities, varlist)`      request `(groebner (<poly>…) ("<symbol>"…))`   answer `(g ok <tree>…)` | `(g exc)`
 * `solve(expr, symbol)`                request `(solve <poly> "<symbol>")`            answer `(s ok <tree>…)` | `(s exc)`
 * `Goebner.combine(relations, i, j)`   request `(combine <r3> <r3>)`                  answer `(c none <r3> <r3>)` |
                                        (relations[i], relations[j])                    `(c some <r5> <r3> <r3>)` | `(c exc)`
   (its body is sympy: `collect`, `lcm`, expression arithmetic; the two relations come back because it mutates them)
 * `sorted(<relations>, key=default_sort_key)`  request `(sort <rel>…)`                answer `(o <index>…)` | `(o exc)`
   (only for two or more relations; recorded by wrapping `default_sort_key`)

and records every call in call order.  Canonical structures:

 * `<poly>`: an integer polynomial in expanded normal form `((<coeff> (("<symbol>" <exp>)…))…)`, the factors of a
   monomial sorted by symbol name, the monomials sorted by the string `name^exp*name^exp…` (code point order).  The
   real sympy expression is normalised with `sympy.expand` before it is printed, the model computes the normal form
   from the clingo term.
 * `<tree>`: the sympy expression tree as `expr.func`/`expr.args` show it: `(int n)`, `(rat p q)`, `(sym "name")`,
   `(add <tree>…)`, `(mul <tree>…)`, `(pow <base> <exp> <exp.is_positive is True>)`, `(other "Class" <tree>…)`.
 * symbols: a `Symbol` is its name, the k-th `Dummy` (by `dummy_index`) of the variable list handed to `groebner`
   is `$k`.
 * `<r3>` = `(r3 <tree> <op> <tree>)`, `<r5>` = `(r5 <tree> <op> <tree> <op> <tree>)`.

The model gets the recorded answers and must (a) produce exactly the program `execute` returns (after `ser.stm`) and
(b) ask exactly the recorded requests in the recorded order.  A Python exception leaving `execute` corresponds to
`(err "py: …")`.  `(unsupported …)` answers (non-polynomial arithmetic `/ \\ |x| **`, theory atoms…) are counted, never
compared.
"""
from __future__ import annotations

import logging
import os
import random
import sys

sys.path.insert(0, os.path.dirname(os.path.abspath(__file__)))

import sympy  # noqa: E402
from clingo.ast import ASTType  # noqa: E402

import corpus  # noqa: E402
import gen  # noqa: E402
import leanio  # noqa: E402
import ser  # noqa: E402
import tgen  # noqa: E402

import ngo.math_simplification as ms  # noqa: E402
from ngo.normalize import preprocess  # noqa: E402

logging.disable(logging.CRITICAL)

ERROR = "error"
MAX_POW = 64


# ---------------------------------------------------------------- canonical structures

class Names:
    """symbol naming of one statement (set when `groebner` is called)"""

    def __init__(self):
        self.dummies = {}

    def set_varlist(self, varlist):
        ds = sorted((v for v in varlist if isinstance(v, sympy.Dummy)), key=lambda d: d.dummy_index)
        self.dummies = {d: f"${i}" for i, d in enumerate(ds)}

    def name(self, s) -> str:
        if isinstance(s, sympy.Dummy):
            return self.dummies.get(s, "$?" + s.name)
        return s.name


def enc_tree(e, names: Names) -> str:
    f = e.func
    if f in (sympy.Integer, sympy.core.numbers.Zero, sympy.core.numbers.One, sympy.core.numbers.NegativeOne):
        return f"(int {int(e)})"
    if isinstance(e, sympy.Rational):
        return f"(rat {e.p} {e.q})"
    if isinstance(e, sympy.Symbol):
        return f"(sym {ser.q(names.name(e))})"
    args = " ".join(enc_tree(a, names) for a in e.args)
    if f == sympy.Add:
        return f"(add {args})"
    if f == sympy.Mul:
        return f"(mul {args})"
    if f == sympy.Pow and len(e.args) == 2:
        return f"(pow {args} {1 if e.args[1].is_positive is True else 0})"
    return f"(other {ser.q(f.__name__)}{' ' if args else ''}{args})"


def _too_big(e) -> bool:
    for sub in sympy.preorder_traversal(e):
        if sub.func == sympy.Pow and (not sub.args[1].is_Integer or abs(int(sub.args[1])) > MAX_POW):
            return True
    return False


def enc_poly(e, names: Names) -> str:
    """expanded normal form; `(nonpoly "…")` if the expression is no integer polynomial in its symbols"""
    e = sympy.sympify(e)
    if _too_big(e):
        return f"(nonpoly {ser.q(str(e))})"
    ex = sympy.expand(e)
    terms = []
    for mono, coeff in ex.as_coefficients_dict().items():
        if not coeff.is_Integer:
            return f"(nonpoly {ser.q(str(e))})"
        if coeff == 0:
            continue
        factors = []
        for base, exp in mono.as_powers_dict().items():
            if base == 1:
                continue
            if not isinstance(base, sympy.Symbol) or not exp.is_Integer or exp <= 0:
                return f"(nonpoly {ser.q(str(e))})"
            factors.append((names.name(base), int(exp)))
        factors.sort()
        terms.append(("*".join(f"{n}^{k}" for n, k in factors), int(coeff), factors))
    terms.sort(key=lambda t: t[0])
    return "(" + " ".join(f"({c} ({' '.join(f'({ser.q(n)} {k})' for n, k in fs)}))" for _, c, fs in terms) + ")"


def enc_rel(rel, names: Names) -> str:
    if len(rel) == 3:
        return f"(r3 {enc_tree(rel[0], names)} {ser.CMP[rel[1]]} {enc_tree(rel[2], names)})"
    return (f"(r5 {enc_tree(rel[0], names)} {ser.CMP[rel[1]]} {enc_tree(rel[2], names)} {ser.CMP[rel[3]]} "
            f"{enc_tree(rel[4], names)})")


# ---------------------------------------------------------------- recording the real run

class Recorder:
    def __init__(self):
        self.log = []  # (kind, request, answer) | ("key", item, key | None)
        self.names = Names()
        self.events = {}  # what the pass logged (caught exceptions, skipped statements) / which sympy call raised what

    def event(self, key):
        self.events[key] = self.events.get(key, 0) + 1

    def info(self, msg, *args):
        """stands in for `log.info` of the module"""
        msg = str(msg)
        if msg.startswith("Unable to simplfiy because of:"):
            m = msg[len("Unable to simplfiy because of:"):].strip()
            known = ("list.remove(x)", "Solve for t first", "integer ", "need_bound")
            self.event("caught Exception: " + (m[:40] if m.startswith(known) or m == "" else "<message of a sympy exception>"))
        elif msg.startswith("Can't simplify"):
            self.event("not converted: " + " ".join(msg.split()[:4]))
        elif msg.startswith("Simplification could not bind"):
            self.event("skipped: Simplification could not bind all needed variables")
        else:
            if msg.startswith("Variables "):
                msg = "Variables … seem to be unbound"
            self.event("caught SympyApi: " + msg[:50])

    def debug(self, *args):
        pass

    warning = error = debug

    def finish(self):
        """turn the runs of `default_sort_key(<tuple>)` calls into `sort` records"""
        out = []
        i = 0
        while i < len(self.log):
            if self.log[i][0] != "key":
                out.append(self.log[i])
                i += 1
                continue
            j = i
            while j < len(self.log) and self.log[j][0] == "key":
                j += 1
            group = self.log[i:j]
            i = j
            if len(group) < 2:
                continue
            req = "(sort " + " ".join(g[1] for g in group) + ")"
            try:
                if any(g[2] is None for g in group):
                    raise ValueError
                perm = sorted(range(len(group)), key=lambda k: group[k][2])
                ans = "(o " + " ".join(str(k) for k in perm) + ")"
            except Exception:  # pylint: disable=broad-except
                ans = "(o exc)"
            out.append(("sort", req, ans))
        return out


def real_run(prg, optimize=True):
    """-> (result program as parsed s-expressions | ERROR, [(kind, request, answer)…], exception name | None)"""
    rec = Recorder()
    o_groebner, o_solve, o_key, o_combine = ms.groebner, ms.solve, ms.default_sort_key, ms.Goebner.combine

    def w_groebner(eqs, varlist):
        rec.names = Names()
        rec.names.set_varlist(varlist)
        req = (f"(groebner ({' '.join(enc_poly(e, rec.names) for e in eqs)}) "
               f"({' '.join(ser.q(rec.names.name(v)) for v in varlist)}))")
        try:
            res = o_groebner(eqs, varlist)
        except Exception as e:
            rec.log.append(("groebner", req, "(g exc)"))
            rec.event("groebner raised " + type(e).__name__)
            raise
        rec.log.append(("groebner", req, "(g ok" + "".join(" " + enc_tree(e, rec.names) for e in res) + ")"))
        return res

    def w_solve(expr, sym):
        req = f"(solve {enc_poly(expr, rec.names)} {ser.q(rec.names.name(sym))})"
        try:
            res = o_solve(expr, sym)
            ans = "(s ok" + "".join(" " + enc_tree(e, rec.names) for e in res) + ")"
        except Exception as e:
            rec.log.append(("solve", req, "(s exc)"))
            rec.event("solve raised " + type(e).__name__)
            raise
        rec.log.append(("solve", req, ans))
        return res

    def w_combine(self, relations, first, second):
        req = f"(combine {enc_rel(relations[first], rec.names)} {enc_rel(relations[second], rec.names)})"
        try:
            res = o_combine(self, relations, first, second)
        except Exception as e:
            rec.log.append(("combine", req, "(c exc)"))
            rec.event("combine raised " + type(e).__name__)
            raise
        after = f"{enc_rel(relations[first], rec.names)} {enc_rel(relations[second], rec.names)}"
        if res is None:
            rec.log.append(("combine", req, f"(c none {after})"))
        else:
            rec.log.append(("combine", req, f"(c some {enc_rel(res, rec.names)} {after})"))
        return res

    def w_key(item, order=None):
        if not isinstance(item, tuple):
            return o_key(item, order)
        try:
            k = o_key(item, order)
        except Exception:
            rec.log.append(("key", enc_rel(item, rec.names), None))
            raise
        rec.log.append(("key", enc_rel(item, rec.names), k))
        return k

    exc = None
    o_log = ms.log
    ms.log = rec
    ms.groebner, ms.solve, ms.default_sort_key, ms.Goebner.combine = w_groebner, w_solve, w_key, w_combine
    try:
        try:
            res = ms.MathSimplification(prg).execute(prg, optimize)
            out = [ser.parse_sexp(ser.stm(x)) for x in res]
        except ser.Unsupported:
            raise
        except Exception as e:  # pylint: disable=broad-except
            out = ERROR
            exc = type(e).__name__
    finally:
        ms.groebner, ms.solve, ms.default_sort_key, ms.Goebner.combine = o_groebner, o_solve, o_key, o_combine
        ms.log = o_log
    return out, rec.finish(), exc, rec.events


# ---------------------------------------------------------------- hand-written edge cases

TEST_PROGRAMS = [
    # regression inputs of the two repaired defects (1e8b107: one-sided constant in combine; a8d8a21: sign on the nothing path)
    "{a}. {b}. :- X = #sum{1,a:a;1,b:b}, X < 5, X > 0.",
    "{a}. {b}. h :- X=#sum{1,a:a;1,b:b}, X<=5, X!=0.",
    "{a}. {b}. h :- X=#sum{1,a:a;1,b:b}, X>=0, X < 2.",
    "{a}. :- not 1 != 1, not 1 != 1, a.",
    # aggregates of different signs that elimination merges (the sign the merged literal gets, placeCond)
    "sync :- N = #count{S: on(S)}, not not N = #count{S: lamp(S)}. {on(S)} :- lamp(S).",
    "sync :- X = #sum{1,S : lamp(S)}, not not X = #sum{1,S : on(S)}. {on(S)} :- lamp(S). on(S) :- sync, lamp(S).",
    "sync :- X = #sum{1,S : lamp(S)}, not X = #sum{1,S : on(S)}. {on(S)} :- lamp(S).",
    "sync :- X = #sum{1,S : lamp(S)}, not not X = #sum{1,S : on(S)}, not not Y = #sum{C,S : cost(S,C)}, X < Y. {on(S)} :- lamp(S).",
    ":- X = #sum{1,S : lamp(S)}, not not X = #sum{1,S : on(S)}. {on(S)} :- lamp(S).",
    "{a}. h :- not 1 != 1, not 1 != 1, a.",
    "{a}. h(X) :- d(X), not X != 1, not X != 1, a.",
    "{a}. h(X) :- d(X), not not X < 3, not not X < 3, a.",
    "a :- X = 1+2, p(X).",
    "h(X) :- X = Y + 1, d(Y).",
    "h(X,Y) :- d(X), d(Y), X - Y < 2, X + Y > 3.",
    "h(X) :- d(X), d(Y), 2*X = Y + Y.",
    "h(X) :- d(Y), X*X = Y.",
    "h(X) :- d(X), X*X = 4.",
    "h(X) :- d(Y), X = Y*Y*2, X > 3.",
    "h(X) :- d(Y), X = Y**2.",
    "h(X) :- d(Y), X = Y**Y.",
    "h(X) :- d(Y), X = 2**Y.",
    "h(X) :- d(Y), X = Y/2.",
    "h(X) :- d(Y), X = Y\\2.",
    "h(X) :- d(Y), X = |Y|.",
    "h(X) :- d(Y), X = |-3| + Y.",
    "h(X) :- d(Y), X = 7/2 + Y, X != 7\\2.",
    "h(X) :- d(Y), X = Y + a.",
    "h(X) :- d(Y), X = Y + a, X < b.",
    "h(X) :- d(Y), X = -a + Y.",
    "h(X) :- d(Y), X = Y + \"s\".",
    "h(X) :- d(Y), X = Y + #sup.",
    "h(X) :- d(Y), X = Y + f(1).",
    "h(X) :- d(Y), X = Y + (1,2).",
    "h(X) :- d(Y), X = Y + ().",
    "h(X) :- d(Y), X = Y & 1.",
    "h(X) :- d(Y), X = ~Y.",
    "h(X) :- d(Y), X = 1..Y.",
    "h(X) :- d(Y), X = (Y;1).",
    "h(X) :- d(Y), not X != Y.",
    "h(X) :- d(Y), not not X = Y.",
    "h(X) :- d(Y), d(X), not X < Y.",
    ":- not 1 != 1, not 1 != 1, a.",
    ":- not not 1 = 1, not not 1 = 1, a.",
    ":- 1 = 1, 1 = 1.",
    "a :- 1 < 2, 3 < 4.",
    "a :- 1 < 2, 3 > 4.",
    ":- X < 3, X < 3, X > 1, p(X).",
    ":- not X < 3, not X < 3, X > 1, p(X).",
    ":- A < 3, A > 1.",
    ":- X = #sum { 1,a : a; 1,b : b }, X > 1, X < 4.",
    ":- X = #sum { 1,a : a; 1,b : b }, Y = #sum { 1,c : c }, X + Y > 1.",
    ":- X = #sum { 1,a : a; 1,b : b }, Y = #sum { 1,c : c }, X * Y > 1.",
    ":- X = #sum { 1,a : a; 1,b : b }, Y = #sum { 1,c : c }, X = Y.",
    ":- X = #sum { 1,a : a; 1,b : b }, Y = #sum { 1,c : c }, X - Y = 2.",
    ":- X = #sum { 1,a : a; 1,b : b }, X*2 > 3.",
    ":- X = #sum { 1,a : a; 1,b : b }, X*X > 3.",
    ":- X = #sum { 1,a : a; 1,b : b }, d(Y), X*Y > 3.",
    ":- X = #max { 1,a : a; 1,b : b }, X + 1 > 3.",
    ":- X = #max { 1,a : a; 1,b : b }, X*2 > 3.",
    ":- X = #min { 1,a : a }, Y = #sum { 1,b : b }, X + Y > 3.",
    ":- X = #sum { 1,a : a }, Y = #min { 1,b : b }, X + Y > 3.",
    ":- X = #sum { : a }, X*2 > 3.",
    "h :- X = #sum { 1,a : a; 1,b : b }, X > 1.",
    "h :- not X = #sum { 1,a : a; 1,b : b }, X = 2.",
    "h :- not not X = #sum { 1,a : a; 1,b : b }, X > 2.",
    "h :- not X != #sum { 1,a : a; 1,b : b }, X = 2.",
    "h :- not 2 < #sum { 1,a : a; 1,b : b }.",
    "h :- not 2 < #sum { 1,a : a; 1,b : b } < 5.",
    "h :- 2 < #sum { 1,a : a; 1,b : b } < 5.",
    "h :- X < #sum { 1,a : a; 1,b : b } < Y, d(X), d(Y).",
    "h :- \"s\" < #sum { 1,a : a; 1,b : b } < 5.",
    "h :- 1 < #sum { 1,a : a; 1,b : b } < \"s\".",
    "h :- not 1 < #sum { 1,a : a; 1,b : b }, not not 0 < #sum { 1,c : c }, 5 > #sum { 1,d : d }.",
    "h :- not X = #sum { 1,a : a }, not not Y = #sum { 1,a : a }, X = Y + 1, d(X), d(Y).",
    "h(X) :- X = #sum { 1,a : a }, X = #sum { 1,a : a }.",
    "h(X) :- X = #sum { 1,a : a },     X = #sum { 1,a : a }, X > 2.",
    "h(X) :- X = #count { a : a }, X > 2.",
    "h(X) :- X = #sum+ { 1,a : a }, X >= 0.",
    "h(X) :- X = #sum+ { 1,a : a }, X + 1 > 0.",
    "h(X) :- X = { a; b }, X > 1.",
    "h(X) :- 1 < X < 3, d(X).",
    "h(X) :- X = Y = Z, d(Y), d(Z).",
    "#minimize { X*2@P,Y : d(X), d(Y), P = X + Y }.",
    "#minimize { X@1,Y : d(X), Y = X + 1, Y > 2 }.",
    ":~ d(X), Y = X * 2. [Y@1,X]",
    ":~ X = #sum { 1,a : a }, X > 1. [X@1]",
    "h(X+1) :- d(X), X > 1.",
    "h(X) :- d(_), X = _ + 1.",
    "h(X) :- X = _ + 1, Y = _ + 2, d(Y).",
    "h(X) : q(X) :- d(Y), Y = 1 + 1.",
    "{ h(X) : q(X), X = Y + 1 } :- d(Y), Y > 1 + 1.",
    "h(X) ; g(Y) :- d(X), d(Y), X + Y = 3.",
    "h(X) :- d(X), p(Y) : q(Y), Y = X + 1.",
    "h(X) :- d(X), &diff { X } < 3.",
    "h(X) :- d(Y), d(Z), X = Y * Z, Z = 2, Y > 1.",
    "h(X) :- d(Y), d(Z), X + Y + Z = 10, X - Y = 2.",
    "h(X,Z) :- d(Y), X = Y + 1, Z = X + 1, Z < 10, Y != 3.",
    "h(X) :- d(Y), X = 2147483647 + Y.",
    "h(X) :- d(Y), X = 2147483647 + 1 + Y.",
    "h(X) :- d(Y), X = 2147483647 * 2, X > Y.",
    "h(X) :- d(Y), 2*X = Y.",
    "h(X) :- d(Y), 2*X = Y + 1, 3*X = Y + 2.",
    "h(X) :- d(Y), X*Y = 6.",
    "h(X) :- d(X), X*X*X = 8.",
    "h(X) :- d(X), (X+1)**9 = 8.",
    "h(X) :- d(X), X**8 * X**8 = 8.",
    "a(X) :- b(X), c(Y), X != Y, X - Y != 0.",
    "#false :- 1 <= #sum {1,a : a;1,b: b;1,c: c} <= 2, X = #sum {1,e: e;1,f: f;1,g: g} 3, X>=2>1, 5>3.",
]


# ---------------------------------------------------------------- cases

class Collector:
    def __init__(self):
        self.reqs: list[str] = []
        self.meta: list[tuple] = []
        self.unsupported = 0
        self.hist: dict[str, int] = {}

    def bump(self, key, n=1):
        self.hist[key] = self.hist.get(key, 0) + n


def program_cases(col: Collector, rng, text, prg, tag):
    for op, optimize in (("math", True), ("math_noopt", False)):
        if op == "math_noopt" and rng.random() < 0.5:
            continue
        try:
            sp = ser.prog(prg)
            orig = [ser.parse_sexp(ser.stm(x)) for x in prg]
            out, log, exc, events = real_run(list(prg), optimize)
        except ser.Unsupported:
            col.unsupported += 1
            col.bump("unsupported:ser")
            continue
        requests = [ser.parse_sexp(rq) for _, rq, _ in log]
        col.reqs.append(f"({op} {sp} () ({' '.join(an for _, _, an in log)}))")
        kinds = {"sympy calls: " + k: 0 for k in ("groebner", "solve", "combine", "sort")}
        for k, rq, an in log:
            kinds["sympy calls: " + k] += 1
        for k, v in events.items():
            kinds["python: " + k] = v
        col.meta.append((op, text, out, requests, out != ERROR and out != orig, tag, exc, kinds))


def text_cases(col: Collector, rng, label, text):
    prg = corpus.parses(text)
    if prg is None:
        col.bump("skip:unparsable")
        return
    try:
        pre = preprocess(prg)
    except Exception:  # pylint: disable=broad-except
        col.bump("skip:preprocess raised")
        pre = None
    if pre is not None:
        program_cases(col, rng, text, pre, "pre")
    if rng.random() < 0.15:
        program_cases(col, rng, text, corpus.parses(text), "raw")


def mutate_math(rng, text):
    """arithmetic-specific mutations: operators, constants, signs of comparisons"""
    import re
    r = rng.random()
    if r < 0.25:
        ops = re.findall(r"<=|>=|!=|<|>|=", text)
        if ops:
            old = rng.choice(ops)
            return text.replace(old, rng.choice(["<", "<=", ">", ">=", "!=", "="]), 1)
    elif r < 0.45:
        nums = re.findall(r"\b\d+\b", text)
        if nums:
            return re.sub(r"\b" + rng.choice(nums) + r"\b", rng.choice(["0", "1", "2", "3", "-1", "X", "Y", "a", "2*X", "(Y+1)"]), text, count=1)
    elif r < 0.6:
        ars = re.findall(r"[+\-*]", text)
        if ars:
            old = rng.choice(ars)
            return text.replace(old, rng.choice(["+", "-", "*", "*", "**", "/", "\\"]), 1)
    elif r < 0.7:
        return text.replace(":- ", ":- " + rng.choice(["not ", "not not "]), 1)
    elif r < 0.8:
        m = re.search(r"([A-Z]\w* *(?:<=|>=|!=|<|>|=) *[^,.;:{}]+)([,.])", text)
        if m:
            return text.replace(m.group(0), f"{m.group(1)}, {rng.choice(['not ', '', 'not not '])}{m.group(1)}{m.group(2)}", 1)
    elif r < 0.9:
        return text.replace("#sum", rng.choice(["#sum+", "#count", "#max", "#min"]), 1)
    return gen.mutate(rng, text)


def make_texts(rng, n_gen, corpus_limit=None):
    harvested = corpus.harvest()
    texts = [(f"corpus:{o}", t) for o, t in harvested]
    if corpus_limit is not None and len(texts) > corpus_limit:
        texts = rng.sample(texts, corpus_limit)
    texts += [("tests", t) for t in TEST_PROGRAMS]
    math_corpus = [t for o, t in harvested if o == "math_simplification"] or [t for _, t in harvested]
    for i in range(n_gen):
        r = rng.random()
        if r < 0.1:
            texts.append((f"gen:{i}", gen.random_program(rng)))
        elif r < 0.2:
            base = rng.choice(harvested)[1] if rng.random() < 0.5 else gen.random_program(rng)
            for _ in range(rng.choice([1, 1, 2, 3])):
                base = gen.mutate(rng, base)
            texts.append((f"mut:{i}", base))
        elif r < 0.45:
            base = rng.choice(math_corpus)
            for _ in range(rng.choice([1, 1, 2, 3])):
                base = mutate_math(rng, base)
            texts.append((f"mathcorpusmut:{i}", base))
        elif r < 0.7:
            texts.append((f"tgen:{i}", tgen.gen_math(rng)))
        else:
            base = tgen.gen_math(rng) if rng.random() < 0.7 else rng.choice(TEST_PROGRAMS)
            for _ in range(rng.choice([1, 1, 2])):
                base = mutate_math(rng, base)
            texts.append((f"genmut:{i}", base))
    return texts


def norm_req(r):
    """`(nonpoly "text")` -> `(nonpoly)`"""
    if isinstance(r, list):
        if r and r[0] == "nonpoly":
            return ["nonpoly"]
        return [norm_req(x) for x in r]
    return r


def tolerated(model, impl) -> bool:
    """the requests differ only in equations of `groebner` requests that the model calls `(nonpoly)`"""
    if len(model) != len(impl):
        return False
    for m, i in zip(model, impl):
        if m == i:
            continue
        if m[0] != "groebner" or i[0] != "groebner" or m[2] != i[2] or len(m[1]) != len(i[1]):
            return False
        if any(a != b and a != ["nonpoly"] for a, b in zip(m[1], i[1])):
            return False
    return True


def evaluate(col: Collector, answers) -> dict:
    res = {"evaluations": 0, "nontrivial": 0, "mismatches": [], "unsupported": col.unsupported, "histogram": col.hist}
    for (op, text, out, requests, changed, tag, exc, kinds), ans, req in zip(col.meta, answers, col.reqs):
        k = ans[0]
        col.bump(f"programs:{op}")
        if k == "unsupported":
            res["unsupported"] += 1
            col.bump("unsupported:lean:" + ser._s(ans[1])[:50])  # pylint: disable=protected-access
            continue
        res["evaluations"] += 1
        for kk, v in kinds.items():
            col.bump(kk, v)
        if exc is not None:
            col.bump("python exception leaving execute: " + exc)
        if k == "err":
            msg = ser._s(ans[1])  # pylint: disable=protected-access
            model = ERROR if msg.startswith("py:") else "MODEL-" + msg
            mreq = list(ans[2])
        else:
            model = list(ans[1])
            mreq = list(ans[2])
            col.bump("combine answers computed by the model and confirmed", int(ans[3]))
        if changed or requests:
            res["nontrivial"] += 1
        if changed:
            col.bump(f"programs changed by the pass:{op}")
        if requests:
            col.bump(f"programs with sympy calls:{op}")
        requests = norm_req(requests)
        if model != out:
            res["mismatches"].append({"op": op, "program": text, "impl": out, "model": model, "request": req})
        elif mreq != requests:
            if tolerated(mreq, requests):
                # the model declared an equation opaque, sympy simplified it to a polynomial: not compared
                res["evaluations"] -= 1
                res["nontrivial"] -= 1
                res["unsupported"] += 1
                col.bump("unsupported:opaque equation that sympy simplified to a polynomial")
                continue
            res["mismatches"].append({"op": op + ":requests", "program": text, "impl": requests, "model": mreq, "request": req})
    return res


def _work(items, chunk=2000) -> dict:
    col = Collector()
    for label, text, seed in items:
        text_cases(col, random.Random(seed), label, text)
    answers = []
    for i in range(0, len(col.reqs), chunk):
        answers.extend(leanio.run_batch(col.reqs[i:i + chunk], timeout=7200))
    return evaluate(col, answers)


def merge(results) -> dict:
    total = {"evaluations": 0, "nontrivial": 0, "mismatches": [], "unsupported": 0, "histogram": {}}
    for r in results:
        for k in ("evaluations", "nontrivial", "unsupported"):
            total[k] += r[k]
        total["mismatches"].extend(r["mismatches"])
        for k, v in r["histogram"].items():
            total["histogram"][k] = total["histogram"].get(k, 0) + v
    return total


def run(rng, n_gen, corpus_limit=None, workers=None) -> dict:
    workers = workers if workers is not None else int(os.environ.get("WORKERS", "8"))
    items = [(label, text, rng.getrandbits(64)) for label, text in make_texts(rng, n_gen, corpus_limit)]
    size = 40
    chunks = [items[i:i + size] for i in range(0, len(items), size)]
    if workers > 1 and len(chunks) > 1:
        import multiprocessing
        with multiprocessing.Pool(workers) as pool:
            results = pool.map(_work, chunks, chunksize=1)
    else:
        results = [_work(c) for c in chunks]
    return merge(results)


def show_sexp(x) -> str:
    if isinstance(x, tuple):
        return ser.q(x[1])
    if isinstance(x, list):
        return "(" + " ".join(show_sexp(y) for y in x) + ")"
    return str(x)


def show_prog(val) -> str:
    if val == ERROR or isinstance(val, str):
        return str(val)
    try:
        return " ".join(str(ser.r_stm(s)) for s in val)
    except Exception:  # pylint: disable=broad-except
        return show_sexp(val)


def main():
    n_gen = int(os.environ.get("N_GEN", "2000"))
    seeds = [int(s) for s in os.environ.get("SEEDS", "0,1,2").split(",")]
    limit = os.environ.get("CORPUS_LIMIT")
    results = [run(random.Random(seed), n_gen, corpus_limit=int(limit) if limit is not None else None) for seed in seeds]
    for seed, r in zip(seeds, results):
        print(f"seed {seed}: evaluations={r['evaluations']} nontrivial={r['nontrivial']} "
              f"mismatches={len(r['mismatches'])} unsupported={r['unsupported']}", flush=True)
    total = merge(results)
    print(f"TOTAL: evaluations={total['evaluations']} nontrivial={total['nontrivial']} "
          f"mismatches={len(total['mismatches'])} unsupported={total['unsupported']} "
          f"supported fraction={total['evaluations'] / max(1, total['evaluations'] + total['unsupported']):.4f}")
    for k in sorted(total["histogram"]):
        print(f"  {k:70s} {total['histogram'][k]}")
    for m in total["mismatches"][:int(os.environ.get("SHOW", "8"))]:
        print("MISMATCH", m["op"])
        print("  program:", m["program"].replace("\n", " ")[:600])
        if m["op"].endswith(":requests"):
            print("  impl   :", show_sexp(m["impl"])[:2500])
            print("  model  :", show_sexp(m["model"])[:2500])
        else:
            print("  impl   :", show_prog(m["impl"])[:2500])
            print("  model  :", show_prog(m["model"])[:2500])
    return 1 if total["mismatches"] else 0


if __name__ == "__main__":
    sys.exit(main())
