"""correspondence of the Lean model Model/SumRewrite.lean with ngo.sum_aggregates.SumAggregator (the REAL class, with
the real DomainPredicates)

    PYTHONPATH=/tmp/model/sumagg2/harness:/repo/src /venv/bin/python corr_sumrewrite.py

`run(rng, n_gen)` evaluates, on every program of corpus.harvest(), on hand-written edge cases and on `n_gen`
generated / mutated programs (after `ngo.normalize.preprocess`; a fraction also as parsed), with a random choice of
input predicates ([] / auto_detect_input / a sample of the program's predicates / names that collide with the fresh
names of the pass):

 * `sum_chains` with the sharing groups of the program: `SumAggregator(prg, inputs).execute(prg)` on the program as
   `preprocess` delivers it.  `execute` edits `BodyAggregateElement` nodes of its input in place, and `preprocess`
   (unpooling) delivers programs in which such nodes occur in several rules; the addresses of the shared nodes
   (identity of the underlying `clingo_ast_t*`) are handed to the model as an extra argument;
 * `sum_chains` without groups (only for programs with shared nodes): the same on a `copy.deepcopy` of the program,
   in which nothing is shared;
 * `sum_chains_stats`: the number of rewritten elements / objectives (real side: counted by wrapping
   `_replace_elements` / `_replace_optimize`).

Programs are compared EXACTLY (statement order, locations of rules / objectives / body aggregates included) after
`ser.stm`.  A Python exception corresponds to `(err "py: …")` / `(err "assert: …")` / `(err "IndexError: …")` (type
not compared); `(err "fuel: …")` / `(err "model: …")` is always a mismatch; `(unsupported …)` answers are counted
and never compared.  The model treats `x.unpool(condition=True)` as the identity on the Rules of the programs it
accepts (`DomainPredicates` unpools the program and then looks at Rules only): if Python's unpooling changes a Rule
of a program the model accepted, that is reported as a mismatch too.
"""
from __future__ import annotations

import copy
import logging
import os
import random
import sys

sys.path.insert(0, os.path.dirname(os.path.abspath(__file__)))

from clingo.ast import ASTType  # noqa: E402

import corpus  # noqa: E402
import gen  # noqa: E402
import leanio  # noqa: E402
import ser  # noqa: E402
import tgen  # noqa: E402
import corr_sumagg  # noqa: E402

from ngo.normalize import preprocess  # noqa: E402
from ngo.sum_aggregates import SumAggregator  # noqa: E402
from ngo.utils import ast as U  # noqa: E402
from ngo.utils.ast import Predicate  # noqa: E402
from ngo.utils.globals import auto_detect_input  # noqa: E402

logging.disable(logging.CRITICAL)

ERROR = "error"

# names the pass would like to use
EVIL = [("__dom_shift", 2), ("__dom_shift", 1), ("__next_1_1__dom_shift", 3), ("__chain_1_1__max___dom_shift", 2),
        ("__min_1_1__dom_shift", 2), ("__max_1_1__dom_shift", 2), ("__dom_val", 2), ("__dom_cost", 2),
        ("__next_1_1__dom_shift", 2), ("__chain_1_1__max___dom_shift1", 2), ("__next_0_0__dom_shift", 2),
        ("__chain_0_0__max___dom_shift", 1), ("__dom_shift1", 2), ("__next_1_1__dom_val", 3)]

CHOICE = "{ shift(D,L) : pshift(D,L) } 1 :- day(D).\n"

TEST_PROGRAMS = [
    # shared nodes after unpooling
    CHOICE + "a(X,(1;2)) :- X = #sum { L,D : shift(D,L) }.",
    CHOICE + "a(X,(1;2)) :- X = #sum { L,D : shift(D,L); L,D,1 : shift(D,L), day(D) }.",
    CHOICE + "a(X) :- X = #sum { L,D : shift(D,L) }, q(1;2).",
    CHOICE + ":~ X = #sum { L,D : shift(D,L) }, q(1;2). [X@1]",
    CHOICE + "#minimize { L@(1;2),D : shift(D,L) }.",
    CHOICE + "a(X,(1;2)) :- X = #sum { L,D : shift(D,L) }.\n#show X : X = #sum { L,D : shift(D,L) }, q(1;2).",
    # the trigger literal: anonymous variables, constants, sign, classical negation, repeated
    CHOICE + "a(X) :- X = #sum { L : shift(_,L) }.",
    CHOICE + "a(X) :- X = #sum { L,D : shift(D,L), day(D), not off(D) }.",
    CHOICE + "a(X) :- X = #sum { L,1 : shift(1,L) }.",
    CHOICE + "a(X) :- X = #sum { L,f(D) : shift(f(D),L) }.",
    CHOICE + "a(X) :- X = #sum { L,D : not shift(D,L), day(D) }.",
    CHOICE + "a(X) :- X = #sum { L,D : not not shift(D,L), day(D) }.",
    CHOICE + "a(X) :- X = #sum { L,D : day(D), shift(D,L), day(D) }.",
    CHOICE + "a(X) :- X = #sum { L,D : shift(D,L); L,D : shift(D,L) }.",
    CHOICE + "a(X) :- X = #sum { L,D : shift(D,L); M,E,1 : shift(E,M) }.",
    CHOICE + "a(X) :- X = #sum { L,D : shift(D,L); : day(D) }.",
    CHOICE + "a(X) :- X = #sum+ { L,D : shift(D,L) }, Y = #sum { L,D : shift(D,L) }.",
    CHOICE + "a(X) :- not X = #sum { L,D : shift(D,L) }, val(X).",
    CHOICE + "a(X) :- 3 < #sum { L,D : shift(D,L) } < 9.",
    CHOICE + "a(X) :- X = #count { L,D : shift(D,L) }.",
    CHOICE + "a(X) :- X = #sum { L,D : shift(D,L) }.\nb(X) :- X = #sum { L,D,b : shift(D,L) }.",
    "{ shift(D,E,L) : pshift(D,L) } 1 :- day(D), emp(E).\na(X) :- X = #sum { L,D,E : shift(D,E,L) }.",
    "{ shift(D,E,L) : pshift(D,L), emp(E) } 1 :- day(D).\na(X) :- X = #sum { L,D : shift(D,_,L) }.",
    "{ shift(D,E,L) : pshift(D,L), emp(E) } 1 :- day(D).\na(X) :- X = #sum { L,D,E : shift(D,E,L) }.",
    "{ shift(L,D) : pshift(D,L) } 1 :- day(D).\na(X) :- X = #sum { L,D : shift(L,D) }.",
    "{ shift(L) : pshift(L) } 1.\na(X) :- X = #sum { L : shift(L) }.\n#minimize { L : shift(L) }.",
    # objectives
    CHOICE + "#minimize { L,D : shift(D,L) }.",
    CHOICE + "#maximize { L,D : shift(D,L) }.",
    CHOICE + "#minimize { -L,D : shift(D,L) }.",
    CHOICE + "#minimize { L@2,D,x : shift(D,L), day(D) }.",
    CHOICE + ":~ shift(D,L), not off(D). [L@1,D]",
    CHOICE + ":~ shift(_,L). [L@1]",
    CHOICE + ":~ shift(D,L), q(X) : r(X). [L@1,D]",
    CHOICE + ":~ shift(D,L), X = #sum { M,E : shift(E,M) }. [L@1,D]",
    CHOICE + ":~ shift(D,L), 1 < #sum { : a }. [L@1,D]",
    CHOICE + "#minimize { L,D : shift(D,L) }.\n#minimize { L,D : shift(D,L) }.",
    CHOICE + "#minimize { L,D : shift(D,L) }.\n#minimize { L,E : over(E,L) }.",
    CHOICE + "#minimize { L,D,a : shift(D,L) }.\n#minimize { L,E,b : shift(E,L) }.",
    CHOICE + "#minimize { L@1,D : shift(D,L) }.\n#minimize { L@2,D : shift(D,L) }.",
    CHOICE + "#minimize { L@L,D : shift(D,L) }.",
    CHOICE + "#minimize { L,D,L : shift(D,L) }.",
    # domains
    "{ shift(D,L) : pshift(D,L) } 1 :- day(D).\npshift(D,L) :- base(D,L), not blocked(D).\n{ blocked(D) } :- day(D).\n"
    "a(X) :- X = #sum { L,D : shift(D,L) }.",
    "{ shift(D,L) : pshift(D,L) } 1 :- day(D).\npshift(D,L) :- base(D,L), shift(D,L).\na(X) :- X = #sum { L,D : shift(D,L) }.",
    "{ shift(D,L) } 1 :- day(D).\na(X) :- X = #sum { L,D : shift(D,L) }.",
    "{ shift(D,L) : pshift(D,L) } 1 :- day(D).\n{ val(D,L) : pval(D,L) } 1 :- day(D).\n"
    "a(X) :- X = #sum { L,D : shift(D,L); L,D,v : val(D,L) }.\n#minimize { L,D : val(D,L) }.",
    "{ shift(D,L) : pshift(D,L) } 1 :- day(D).\n__dom_shift(1,2).\na(X) :- X = #sum { L,D : shift(D,L) }.",
    "{ shift(D,L) : pshift(D,L) } 1 :- day(D).\na(X) :- X = #sum { L,D : shift(D,L) }, __next_1_1__dom_shift(1,2,3).",
    # an at-most-one predicate with a second defining rule (found through the other predicate of the head)
    "1 >= #sum { 0 : a(X) : d(X); 1 : b(X) : d(X) }.\nb(X) :- e(X).\nc(S) :- S = #sum { X : b(X) }.",
    "1 >= #sum { 0 : a(X) : d(X); 1 : b(X) : d(X) }.\n{ b(X) } :- e(X).\n#minimize { X : b(X) }.",
    # two different annotated predicates for b/2: the order of _atmost_preds (a Python set) decides
    "1 >= #sum { 0 : a(X) : d(X); 1 : b(X,Y) : d(X), d(Y) }.\n1 >= #sum { 0 : c(X) : d(X); 1 : b(X,Y) : d(X) } :- d(Y).\n"
    "s(S) :- S = #sum { X : b(X,_) }.",
    "1 >= #sum { 0 : a(X) : d(X); 1 : b(X,Y) : d(X), d(Y) }.\n1 >= #sum { 0 : c(X) : d(X); 1 : b(X,Y) : d(X) } :- d(Y).\n"
    "s(S) :- S = #sum { X : d(X) }.",
] + corr_sumagg.TEST_PROGRAMS


# ---------------------------------------------------------------- generators

def gen_shared(rng) -> str:
    """programs whose preprocessed form shares aggregate elements between statements (pools outside the aggregate)"""
    lines = [rng.choice([CHOICE.strip(), "{ shift(D,L) : pshift(D,L) } = 1 :- day(D).", "1 >= { shift(D,L) : pshift(D,L) } :- day(D), not off(D)."])]
    for _ in range(rng.choice([1, 1, 2])):
        n_el = rng.choice([1, 1, 2])
        els = []
        for k in range(n_el):
            tup = rng.choice(["L,D", "L,D", "L", f"L,D,{k}", "L,D,x", "M,D"])
            cond = rng.choice(["shift(D,L)", "shift(D,L)", "shift(D,L), day(D)", "shift(_,L)", "shift(D,M)", "shift(D,L), q(1;2)"])
            els.append(f"{tup} : {cond}")
        agg = f"{rng.choice(['#sum', '#sum', '#sum+'])} {{ {'; '.join(els)} }}"
        pool = rng.choice(["(1;2)", "(1;2)", "(a;b;c)", "(D;1)", "1"])
        u = rng.random()
        if u < 0.4:
            lines.append(f"a(X,{pool}) :- X = {agg}.")
        elif u < 0.6:
            lines.append(f"a(X) :- X = {agg}, q({pool}).")
        elif u < 0.75:
            lines.append(f":~ X = {agg}, q({pool}). [X@1]")
        elif u < 0.85:
            lines.append(f"#show X : X = {agg}, q({pool}).")
        else:
            lines.append(f"a(X) :- q({pool}), X = {agg}, Y = {agg}.")
    if rng.random() < 0.3:
        lines.append(rng.choice(["#minimize { L@(1;2),D : shift(D,L) }.", "#minimize { L,D : shift(D,L) }.",
                                 ":~ shift(D,L), q(1;2). [L@1,D]"]))
    if rng.random() < 0.3:
        rng.shuffle(lines)
    return "\n".join(lines)


# ---------------------------------------------------------------- real side

def _addr(rep) -> int:
    from clingo._internal import _ffi
    return int(_ffi.cast("uintptr_t", rep))


def sharing_groups(prg):
    """-> (groups of (stm, blit, elem) addresses that hold the same BodyAggregateElement node, problem | None)"""
    nodes: dict[int, list[tuple[int, int, int]]] = {}
    elsewhere: set[int] = set()
    for i, stm in enumerate(prg):
        if stm.ast_type in (ASTType.Rule, ASTType.Minimize, ASTType.ShowTerm, ASTType.External):
            for b, blit in enumerate(stm.body):
                if blit.ast_type == ASTType.Literal and blit.atom.ast_type == ASTType.BodyAggregate:
                    for e, elem in enumerate(blit.atom.elements):
                        nodes.setdefault(_addr(elem._rep), []).append((i, b, e))  # pylint: disable=protected-access
        else:
            for elem in U.collect_ast(stm, "BodyAggregateElement"):
                elsewhere.add(_addr(elem._rep))  # pylint: disable=protected-access
    groups = [g for g in nodes.values() if len(g) > 1]
    problem = None
    if any(k in elsewhere for k in nodes):
        problem = "element shared with a statement outside the mirror"
    return groups, problem


def groups_text(groups) -> str:
    return "(" + " ".join("(" + " ".join(f"({i} {b} {e})" for i, b, e in g) + ")" for g in groups) + ")"


def real_run(prg, inputs):
    """-> (result as parsed s-expressions | ERROR, counts, tag); MUTATES prg"""
    counts = {"elems": 0, "objs": 0, "dropped": 0, "order": False}
    try:
        sa = SumAggregator(prg, inputs)
    except Exception as e:  # pylint: disable=broad-except
        return ERROR, counts, "constructor raises " + type(e).__name__
    am = set(sa.at_most_one_predicates())
    counts["order"] = any(a.pred == b.pred and a != b for a in am for b in am)
    o_re, o_ro = sa._replace_elements, sa._replace_optimize  # pylint: disable=protected-access

    def w_re(elements, ret, *rest):
        n = len(elements)
        dropped = sum(1 for e in elements if not (e.terms and len(e.terms) > 0))
        out = o_re(elements, ret, *rest)
        counts["elems"] += len(out) - (n - dropped)
        counts["dropped"] += dropped
        return out

    def w_ro(minimize):
        out = o_ro(minimize)
        if len(out) > 1:
            counts["objs"] += 1
        return out

    sa._replace_elements, sa._replace_optimize = w_re, w_ro  # pylint: disable=protected-access
    try:
        out = sa.execute(prg)
    except Exception as e:  # pylint: disable=broad-except
        return ERROR, counts, f"execute raises {type(e).__name__}: {str(e)[:30]}"
    return [ser.parse_sexp(ser.stm(x)) for x in out], counts, "ok"


# ---------------------------------------------------------------- model answers

def is_py_error(msg: str) -> bool:
    return msg.startswith("py:") or msg.startswith("assert") or msg.startswith("IndexError")


def decode(op, ans):
    k = ans[0]
    if k == "unsupported":
        return None
    if k == "err":
        msg = ser._s(ans[1])  # pylint: disable=protected-access
        return ERROR if is_py_error(msg) else "MODEL-" + msg
    assert k == "ok", ans
    if op.startswith("sum_chains_stats"):
        return [ans[1], ans[2]]
    return list(ans[1])


class Collector:
    def __init__(self):
        self.reqs: list[str] = []
        self.meta: list[tuple] = []
        self.unsupported = 0
        self.hist: dict[str, int] = {}

    def bump(self, key, n=1):
        self.hist[key] = self.hist.get(key, 0) + n


def all_preds(prg) -> set:
    res = set()
    for stm in prg:
        for sp in U.predicates(stm):
            res.add(sp.pred)
    return res


def choose_inputs(rng, prg):
    r = rng.random()
    if r < 0.4:
        return []
    if r < 0.6:
        return auto_detect_input(prg)
    if r < 0.8:
        return [p for p in sorted(all_preds(prg)) if rng.random() < 0.3]
    if r < 0.9:
        return [Predicate(n, a) for n, a in rng.sample(EVIL, 4)]
    return auto_detect_input(prg) + [Predicate(n, a) for n, a in rng.sample(EVIL, 3)]


def program_cases(col: Collector, rng, text, prg, tag, kind):
    # DomainPredicates works on `x.unpool(condition=True)` and only looks at the Rules in it
    unp = [y for x in prg for y in x.unpool(condition=True) if y.ast_type == ASTType.Rule]
    unpool_changed = [str(x) for x in unp] != [str(x) for x in prg if x.ast_type == ASTType.Rule]
    inputs = choose_inputs(rng, prg)
    try:
        sp = ser.prog(prg)
        sin = ser.preds(inputs)
    except ser.Unsupported:
        col.unsupported += 1
        col.bump("unsupported:ser")
        return
    groups, problem = sharing_groups(prg)
    if problem is not None:
        col.unsupported += 1
        col.bump("unsupported:harness:" + problem)
        return
    plain = copy.deepcopy(prg) if groups else None
    assert plain is None or (ser.prog(plain) == sp and sharing_groups(plain)[0] == [])
    res, counts, rtag = real_run(prg, inputs)  # mutates prg
    key = f"{kind}:{tag}"
    meta = {"text": text, "unpool_changed": unpool_changed, "counts": counts, "key": key, "rtag": rtag, "shared": bool(groups),
            "order": counts["order"]}
    nontrivial = counts["elems"] + counts["objs"] > 0
    gt = groups_text(groups)
    col.reqs.append(f"(sum_chains {sp} {sin} {gt})")
    col.meta.append(("sum_chains", res, nontrivial, meta, True))
    col.reqs.append(f"(sum_chains_stats {sp} {sin} {gt})")
    col.meta.append(("sum_chains_stats", ERROR if res == ERROR else [str(counts["elems"]), str(counts["objs"])], nontrivial, meta, False))
    if groups:
        res2, counts2, rtag2 = real_run(plain, inputs)
        if res2 != res:
            col.bump("shared nodes: result differs from the result on a deep copy")
        meta2 = dict(meta, counts=counts2, rtag=rtag2, shared=False)
        col.reqs.append(f"(sum_chains {sp} {sin})")
        col.meta.append(("sum_chains:deepcopy", res2, counts2["elems"] + counts2["objs"] > 0, meta2, False))


def text_cases(col: Collector, rng, label, text):
    prg = corpus.parses(text)
    kind = label.split(":")[0]
    if prg is None:
        col.bump("skip:unparsable")
        return
    try:
        pre = preprocess(prg)
    except Exception:  # pylint: disable=broad-except
        col.bump("skip:preprocess raised")
        pre = None
    if pre is not None:
        program_cases(col, rng, text, pre, "pre", kind)
    if rng.random() < 0.15:
        program_cases(col, rng, text, corpus.parses(text), "raw", kind)


def make_texts(rng, n_gen, corpus_limit=None):
    harvested = corpus.harvest()
    texts = [(f"corpus:{o}", t) for o, t in harvested]
    if corpus_limit is not None and len(texts) > corpus_limit:
        texts = rng.sample(texts, corpus_limit)
    texts += [("tests", t) for t in TEST_PROGRAMS]
    sumtests = [t for o, t in harvested if o in ("sum_aggregates",)] or [t for _, t in harvested]
    targeted = [tgen.gen_sumchains, corr_sumagg.sum_program, corr_sumagg.sum_program, gen_shared]
    for i in range(n_gen):
        r = rng.random()
        if r < 0.08:
            texts.append((f"gen:{i}", gen.random_program(rng)))
        elif r < 0.18:
            base = rng.choice(harvested)[1] if rng.random() < 0.5 else gen.random_program(rng)
            for _ in range(rng.choice([1, 1, 2, 3])):
                base = gen.mutate(rng, base)
            texts.append((f"mut:{i}", base))
        elif r < 0.26:
            base = rng.choice(sumtests)
            for _ in range(rng.choice([1, 1, 2, 3])):
                base = gen.mutate(rng, base)
            texts.append((f"sumcorpusmut:{i}", base))
        elif r < 0.46:
            texts.append((f"tgen:{i}", tgen.gen_sumchains(rng)))
        elif r < 0.72:
            texts.append((f"sum:{i}", corr_sumagg.sum_program(rng)))
        elif r < 0.8:
            texts.append((f"shared:{i}", gen_shared(rng)))
        else:
            base = rng.choice(targeted)(rng) if rng.random() < 0.8 else rng.choice(TEST_PROGRAMS)
            for _ in range(rng.choice([1, 1, 2])):
                base = gen.mutate(rng, base)
            texts.append((f"genmut:{i}", base))
    return texts


def evaluate(col: Collector, answers) -> dict:
    res = {"evaluations": 0, "nontrivial": 0, "mismatches": [], "unsupported": col.unsupported,
           "histogram": col.hist}
    for (op, value, nontrivial, meta, main), ans, req in zip(col.meta, answers, col.reqs):
        model = decode(op, ans)
        if model is None:
            res["unsupported"] += 1
            why = ser._s(ans[1])[:60]  # pylint: disable=protected-access
            col.bump(f"unsupported:lean:{op}:{why}")
            if why.startswith("order") and not meta["order"]:
                res["mismatches"].append({"op": op + ":order flag", "program": meta["text"], "impl": meta["order"],
                                          "model": why, "request": req})
            continue
        res["evaluations"] += 1
        col.bump("op:" + op)
        if ans[0] == "err" and main:
            col.bump("model err: " + ser._s(ans[1])[:70])  # pylint: disable=protected-access
        if main:
            counts = meta["counts"]
            col.bump("programs: compared")
            col.bump(f"programs: compared [{meta['key']}]")
            col.bump("real: " + meta["rtag"])
            if meta["shared"]:
                col.bump("programs: with shared element nodes")
            if counts["elems"] > 0:
                col.bump("programs: >= 1 element rewritten")
                col.bump(f"programs: >= 1 element rewritten [{meta['key']}]")
            if counts["objs"] > 0:
                col.bump("programs: >= 1 objective rewritten")
                col.bump(f"programs: >= 1 objective rewritten [{meta['key']}]")
            if counts["elems"] + counts["objs"] > 0:
                col.bump("programs: >= 1 element or objective rewritten")
            if counts["dropped"] > 0:
                col.bump("programs: >= 1 element dropped (empty tuple)")
            col.bump("rewritten elements", counts["elems"])
            col.bump("rewritten objectives", counts["objs"])
        if nontrivial:
            res["nontrivial"] += 1
            col.bump("nontrivial:" + op)
        if meta["order"]:
            res["mismatches"].append({"op": op + ":order flag", "program": meta["text"], "impl": True,
                                      "model": "compared", "request": req})
        elif meta["unpool_changed"]:
            res["mismatches"].append({"op": op + ":unpool is not the identity", "program": meta["text"], "impl": value,
                                      "model": model, "request": req})
        elif model != value:
            res["mismatches"].append({"op": op, "program": meta["text"], "impl": value, "model": model, "request": req})
    return res


def _work(items, chunk=3000) -> dict:
    """items: list of (label, text, seed of the private rng of this text)"""
    col = Collector()
    for label, text, seed in items:
        text_cases(col, random.Random(seed), label, text)
    answers = []
    for i in range(0, len(col.reqs), chunk):
        answers.extend(leanio.run_batch(col.reqs[i:i + chunk], timeout=7200))
    return evaluate(col, answers)


def merge(results) -> dict:
    total = {"evaluations": 0, "nontrivial": 0, "mismatches": [], "unsupported": 0, "histogram": {}}
    for r in results:
        for k in ("evaluations", "nontrivial", "unsupported"):
            total[k] += r[k]
        total["mismatches"].extend(r["mismatches"])
        for k, v in r["histogram"].items():
            total["histogram"][k] = total["histogram"].get(k, 0) + v
    return total


def run(rng, n_gen, corpus_limit=None, workers=None) -> dict:
    """every random choice derives from `rng`: the texts, then one private seed per text (so the work can be
    spread over `workers` processes, env WORKERS, without changing the cases)"""
    workers = workers if workers is not None else int(os.environ.get("WORKERS", "8"))
    items = [(label, text, rng.getrandbits(64)) for label, text in make_texts(rng, n_gen, corpus_limit)]
    size = 40
    chunks = [items[i:i + size] for i in range(0, len(items), size)]
    if workers > 1 and len(chunks) > 1:
        import multiprocessing
        with multiprocessing.Pool(workers) as pool:
            results = pool.map(_work, chunks, chunksize=1)
    else:
        results = [_work(c) for c in chunks]
    return merge(results)


def show_sexp(x) -> str:
    if isinstance(x, tuple):
        return ser.q(x[1])
    if isinstance(x, list):
        return "(" + " ".join(show_sexp(y) for y in x) + ")"
    return str(x)


def show_prog(val) -> str:
    if val == ERROR or isinstance(val, (str, bool)):
        return str(val)
    try:
        return " ".join(str(ser.r_stm(s)) for s in val)
    except Exception:  # pylint: disable=broad-except
        return show_sexp(val)


def main():
    n_gen = int(os.environ.get("N_GEN", "2000"))
    seeds = [int(s) for s in os.environ.get("SEEDS", "0,1,2").split(",")]
    limit = os.environ.get("CORPUS_LIMIT")
    results = [run(random.Random(seed), n_gen, corpus_limit=int(limit) if limit is not None else None) for seed in seeds]
    for seed, r in zip(seeds, results):
        print(f"seed {seed}: evaluations={r['evaluations']} nontrivial={r['nontrivial']} "
              f"mismatches={len(r['mismatches'])} unsupported={r['unsupported']}", flush=True)
    total = merge(results)
    print(f"TOTAL: evaluations={total['evaluations']} nontrivial={total['nontrivial']} "
          f"mismatches={len(total['mismatches'])} unsupported={total['unsupported']}")
    h = total["histogram"]
    for k in sorted(h):
        print(f"  {k:75s} {h[k]}")
    n = h.get("programs: compared", 0)
    if n:
        for k in ("programs: >= 1 element rewritten", "programs: >= 1 objective rewritten",
                  "programs: >= 1 element or objective rewritten"):
            print(f"fraction {k:60s} {h.get(k, 0)}/{n} = {h.get(k, 0) / n:.3f}")
    for m in total["mismatches"][:int(os.environ.get("SHOW", "8"))]:
        print("MISMATCH", m["op"])
        print("  program:", m["program"].replace("\n", " ")[:600])
        if os.environ.get("SHOWREQ"):
            print("  request:", m["request"][:3000])
        print("  impl   :", show_prog(m["impl"])[:2500])
        print("  model  :", show_prog(m["model"])[:2500])
    return 1 if total["mismatches"] else 0


if __name__ == "__main__":
    sys.exit(main())
