"""shared machinery of every check: Lean build + axiom audit, evidence, known findings, verdicts"""
from __future__ import annotations

import fcntl
import hashlib
import json
import os
import random
import re
import subprocess
import sys
import time

HERE = os.path.dirname(os.path.abspath(__file__))
VERIF = os.path.normpath(os.path.join(HERE, ".."))
LEAN_DIR = os.path.join(VERIF, "lean")
REPO = os.environ.get("NGO_REPO", "/repo")
EVIDENCE_DIR = os.path.join(VERIF, "evidence")
REPLAY_DIR = os.path.join(VERIF, "replays")
ALLOWED_AXIOMS = {"propext", "Classical.choice", "Quot.sound"}
FORBIDDEN = re.compile(r"\b(sorry|admit|native_decide|bv_decide|implemented_by|unsafe |maxHeartbeats 0)\b|^axiom ", re.M)

os.environ.setdefault("NGO_VERIF", "1")


def sh(cmd, cwd=None, timeout=3600, env=None):
    p = subprocess.run(cmd, cwd=cwd, stdout=subprocess.PIPE, stderr=subprocess.STDOUT, timeout=timeout, env=env, check=False)
    return p.returncode, p.stdout.decode("utf8", "replace")


class Lock:
    def __init__(self, name):
        self.path = os.path.join(LEAN_DIR, f".{name}.lock")

    def __enter__(self):
        self.f = open(self.path, "w")
        fcntl.flock(self.f, fcntl.LOCK_EX)
        return self

    def __exit__(self, *a):
        fcntl.flock(self.f, fcntl.LOCK_UN)
        self.f.close()


class Ctx:
    def __init__(self, pid: str, tier: str, seed: int):
        self.pid = pid
        self.tier = tier
        self.seed = seed
        os.environ["VERIF_TIER_EFFECTIVE"] = tier   # read by the forked oracle workers (per-case time budget)
        self.rng = random.Random(f"{seed}:{pid}")
        self.t0 = time.time()
        self.broken: list[dict] = []          # proof obligations / ties that no longer check
        self.mismatches: list[dict] = []      # correspondence disagreements
        self.violations: list[dict] = []      # failing inputs on the real code (not known)
        self.known_hits: dict[str, dict] = {}  # finding id -> info (still failing)
        self.cov = {"evaluations": 0, "distinct_nontrivial": 0, "samples": [], "histogram": {}, "unsupported": 0,
                    "skipped": 0}
        self._seen = set()
        self.obligations: list[str] = []
        self.discharged: list[str] = []
        self.partial: list[str] = []
        self.notes: list[str] = []
        self.driver_ok = False
        self.findings = load_findings()

    # ---- coverage bookkeeping
    def count(self, case_repr: str, nontrivial: bool, branch: str | None = None, sample=None):
        self.cov["evaluations"] += 1
        if branch:
            self.cov["histogram"][branch] = self.cov["histogram"].get(branch, 0) + 1
        if nontrivial:
            h = hashlib.sha1(case_repr.encode("utf8")).hexdigest()
            if h not in self._seen:
                self._seen.add(h)
                self.cov["distinct_nontrivial"] += 1
                if sample is not None and len(self.cov["samples"]) < 8:
                    self.cov["samples"].append(sample)

    def budget_left(self, total: float) -> bool:
        return time.time() - self.t0 < total

    def quick(self) -> bool:
        return self.tier == "quick"


# ------------------------------------------------------------------ Lean

def regenerate_tables(ctx: Ctx) -> bool:
    rc, out = sh([sys.executable, os.path.join(HERE, "extract_tables.py")])
    if rc != 0:
        ctx.broken.append({"kind": "translator", "what": "harness/extract_tables.py cannot read a table from the source",
                           "detail": out.strip()[-800:]})
        return False
    return True


def lake_build(ctx: Ctx, targets: list[str]) -> dict:
    """build each target separately so a failing proof file does not hide a working driver"""
    res = {}
    with Lock("lake"):
        for t in targets:
            rc, out = sh(["lake", "build", t], cwd=LEAN_DIR, timeout=3000)
            res[t] = (rc == 0, out)
    return res


def theorem_names(module: str, pid: str) -> list[str]:
    path = os.path.join(LEAN_DIR, *module.split(".")) + ".lean"
    with open(path, encoding="utf8") as f:
        src = f.read()
    return re.findall(rf"^theorem\s+({pid}_[A-Za-z0-9_']+)", src, re.M)


def forbidden_tokens(files: list[str]) -> list[str]:
    hits = []
    for path in files:
        with open(path, encoding="utf8") as f:
            src = f.read()
        # drop comments
        src2 = re.sub(r"/-.*?-/", "", src, flags=re.S)
        src2 = re.sub(r"--.*", "", src2)
        for m in FORBIDDEN.finditer(src2):
            hits.append(f"{os.path.relpath(path, LEAN_DIR)}: {m.group(0).strip()}")
    return hits


def lean_sources() -> list[str]:
    out = []
    for root, _, files in os.walk(os.path.join(LEAN_DIR, "NgoVerif")):
        for fn in files:
            if fn.endswith(".lean"):
                out.append(os.path.join(root, fn))
    return sorted(out)


def audit(ctx: Ctx, module: str) -> None:
    """#print axioms for every <pid>_* theorem of the property module"""
    names = theorem_names(module, ctx.pid)
    ctx.obligations = list(names)
    if not names:
        ctx.broken.append({"kind": "audit", "what": f"no {ctx.pid}_* theorem found in {module}"})
        return
    tmp = os.path.join(LEAN_DIR, ".lake", f"audit_{ctx.pid}.lean")
    with open(tmp, "w", encoding="utf8") as f:
        f.write(f"import {module}\nopen NgoVerif\n" + "".join(f"#print axioms {n}\n" for n in names))
    rc, out = sh(["lake", "env", "lean", tmp], cwd=LEAN_DIR, timeout=1200)
    got = {}
    for m in re.finditer(r"'(?:NgoVerif\.)?([A-Za-z0-9_.']+)' (depends on axioms: \[([^\]]*)\]|does not depend on any axioms)", out.replace("\n ", " ")):
        ax = set(a.strip() for a in (m.group(3) or "").split(",") if a.strip())
        got[m.group(1).split(".")[-1]] = ax
    for n in names:
        if n not in got:
            ctx.broken.append({"kind": "audit", "theorem": n, "what": "axiom audit produced no answer", "detail": out[-400:]})
        elif not got[n] <= ALLOWED_AXIOMS:
            ctx.broken.append({"kind": "audit", "theorem": n, "what": f"depends on axioms {sorted(got[n] - ALLOWED_AXIOMS)}"})
        else:
            ctx.discharged.append(n)
            if n.endswith("_partial"):
                ctx.partial.append(n)
    hits = forbidden_tokens(lean_sources())
    hits = [h for h in hits if not h.startswith("NgoVerif/Driver.lean")]
    if hits:
        ctx.broken.append({"kind": "audit", "what": "forbidden token in Lean sources", "detail": hits[:10]})


def prepare_lean(ctx: Ctx, module: str | None) -> None:
    """steps 1+2 of the decision procedure"""
    regenerate_tables(ctx)
    targets = ["driver"] + ([module] if module else [])
    res = lake_build(ctx, targets)
    ctx.driver_ok = res["driver"][0]
    if not ctx.driver_ok:
        ctx.broken.append({"kind": "build", "target": "driver", "what": "the model (driver) no longer builds",
                           "detail": tail_errors(res["driver"][1])})
    if module:
        ok, out = res[module]
        if not ok:
            ctx.broken.append({"kind": "build", "target": module, "what": "a proof obligation no longer checks",
                               "detail": tail_errors(out)})
            ctx.obligations = theorem_names(module, ctx.pid)
        else:
            audit(ctx, module)
            if not ctx.quick():
                # thorough tier: the toolchain's independent re-checker replays the compiled proofs of the property module
                # (and everything it imports) in a fresh kernel
                rc, out = sh(["lake", "env", "leanchecker", module], cwd=LEAN_DIR, timeout=1800)
                ctx.cov["samples"].append({"leanchecker": module, "exit": rc})
                if rc != 0:
                    ctx.broken.append({"kind": "leanchecker", "target": module, "what": "leanchecker rejects the compiled module",
                                       "detail": out[-600:]})


def tail_errors(out: str) -> str:
    lines = [l for l in out.splitlines() if "error" in l.lower()]
    return "\n".join(lines[:12]) if lines else out[-600:]


# ------------------------------------------------------------------ known findings

def load_findings() -> dict:
    path = os.path.join(VERIF, "known_findings.json")
    if not os.path.exists(path):
        return {"findings": [], "fixed": []}
    with open(path, encoding="utf8") as f:
        return json.load(f)


def findings_for(ctx: Ctx):
    return [f for f in ctx.findings.get("findings", []) if ctx.pid in f.get("properties", [f.get("property")])]


def findings_by_site(ctx: Ctx):
    """all recorded findings, those listing this property first.  A finding is identified by its call site (the key of
    harness/hyp.py it falsifies), not by the property whose check happened to meet it: the same defect can surface as
    an unsafe result (C04), a changed cost (C02) or a lost answer set (C01), and is then the same known finding."""
    own = findings_for(ctx)
    rest = [f for f in ctx.findings.get("findings", []) if f not in own and str(f.get("key", "")).startswith("Hyp_")]
    return own + rest


# ------------------------------------------------------------------ verdict + evidence

def write_replay(ctx: Ctx, name: str, data: dict) -> str:
    os.makedirs(REPLAY_DIR, exist_ok=True)
    path = os.path.join(REPLAY_DIR, f"{ctx.pid}_{name}.json")
    data = dict(data)
    data.setdefault("property", ctx.pid)
    data.setdefault("seed", ctx.seed)
    data.setdefault("tier", ctx.tier)
    data.setdefault("replay_cmd", f"./check --replay {os.path.relpath(path, VERIF)}")
    with open(path, "w", encoding="utf8") as f:
        json.dump(data, f, indent=1, default=str)
    return os.path.relpath(path, VERIF)


def finish(ctx: Ctx, level_text: str, trusted_base: list[str], assumptions: list[str], rule: str) -> int:
    """step 5/6: decide, print, write evidence"""
    lines = []
    if os.path.isdir(REPLAY_DIR):
        for fn in os.listdir(REPLAY_DIR):
            if fn.startswith(ctx.pid + "_"):
                os.unlink(os.path.join(REPLAY_DIR, fn))
    for fid, info in sorted(ctx.known_hits.items()):
        lines.append(f"KNOWN-FINDING: property={ctx.pid} {fid}: {info['what']}")
    exit_code = 0
    nviol = 0
    for i, v in enumerate(ctx.violations[:5]):
        path = write_replay(ctx, f"violation_{i}", v)
        lines.append(f"VIOLATION property={ctx.pid} replay={path}")
        nviol += 1
        exit_code = 1
    if not ctx.violations and (ctx.broken or ctx.mismatches):
        path = write_replay(ctx, "unproved", {
            "kind": "no-failing-input-found",
            "broken_obligations": ctx.broken,
            "correspondence_mismatches": ctx.mismatches[:10],
            "explanation": "a proof obligation or the model/implementation correspondence no longer checks, so the "
                           "property is no longer shown to hold; the failing-input search on the real code found nothing",
        })
        lines.append(f"VIOLATION property={ctx.pid} replay={path} no-failing-input-found")
        nviol += 1
        exit_code = 1
    for l in lines:
        print(l)
    ev = {
        "property_id": ctx.pid,
        "tier": ctx.tier,
        "seed": ctx.seed,
        "level": "proof",
        "coverage": {
            "obligations": max(len(ctx.obligations), 0),
            "discharged": len(ctx.discharged),
            "checker_cmd": f"cd lean && lake build NgoVerif.Props.{ctx.pid} && lake env lean .lake/audit_{ctx.pid}.lean  (#print axioms of every {ctx.pid}_* theorem)",
            "trusted_base": trusted_base,
            "theorems": ctx.obligations,
            "partial_theorems": ctx.partial,
            "evaluations": ctx.cov["evaluations"],
            "distinct_nontrivial": ctx.cov["distinct_nontrivial"],
            "rule": rule,
            "samples": ctx.cov["samples"] or ["(no correspondence case was produced)"],
            "branch_histogram": ctx.cov["histogram"],
            "unsupported": ctx.cov["unsupported"],
            "skipped_instances": ctx.cov["skipped"],
            "correspondence_mismatches": len(ctx.mismatches),
            "broken_obligations": ctx.broken,
            "known_findings_replayed": sorted(ctx.known_hits),
            "notes": ctx.notes,
            "explanation": level_text,
        },
        "assumptions": assumptions,
        "wall_s": round(time.time() - ctx.t0, 2),
        "violations": nviol,
    }
    os.makedirs(EVIDENCE_DIR, exist_ok=True)
    with open(os.path.join(EVIDENCE_DIR, f"{ctx.pid}.json"), "w", encoding="utf8") as f:
        json.dump(ev, f, indent=1, default=str)
    print(f"{ctx.pid} {ctx.tier} seed={ctx.seed}: obligations {len(ctx.discharged)}/{len(ctx.obligations)} discharged, "
          f"{ctx.cov['evaluations']} cases ({ctx.cov['distinct_nontrivial']} distinct non-trivial), "
          f"{len(ctx.mismatches)} mismatches, {len(ctx.known_hits)} known findings, {nviol} violations, "
          f"{ev['wall_s']} s")
    return exit_code


COMMON_TRUSTED = [
    "Lean 4.33.0 kernel; axioms per theorem as printed by #print axioms (allowed: propext, Classical.choice, Quot.sound)",
    "harness/extract_tables.py (translator for finite tables; refuses shapes it does not know)",
    "harness/ser.py + lean/NgoVerif/Syntax.lean codec (a bug can hide a divergence, it cannot make a theorem true)",
    "hand-written Lean models in lean/NgoVerif/Model/*.lean are tied to /repo only through the correspondence run",
    "the here-and-there semantics of typed programs (lean/NgoVerif/Sem/*.lean, incl. the head semantics of Sem/Head.lean) is ours; "
    "its agreement with clingo is supported by the differential oracle, not proved; anonymous variables are renamed apart by "
    "the harness before a rule reaches a Lean side-condition check",
]
