"""correspondence of the Lean model NgoVerif.Model.Inline with ngo/inline.py (InlineTranslator)

ops
  (inline <prog> (<input preds>) (<output preds>))         -> (ok <prog>) | (err ..)
        compared EXACTLY (statement order, fresh variable names, padded tuples, locations of rules / objectives /
        body aggregates) with InlineTranslator(prog, ins, outs).execute(prog)
  (inline_trace <prog> (<input preds>) (<output preds>))   -> (ok <prog> nAgg nBody nMin) | (err ..)
        additionally the number of successful rounds of inline_in_agg / inline_in_rulebody and the number of
        objectives replaced by inline_minimize (real side: an instrumented subclass that only counts)
  (inline_single <prog> (<input preds>) (<output preds>))  -> (ok (i index)...) | (err ..)
        the statements with is_single(stm, RuleDependency(prog)) is not None and the returned index

inputs: program text -> clingo.ast.parse_string -> ngo.normalize.preprocess (and for 30% of the texts also the
un-preprocessed statements, labels raw:*), with (inputs, outputs) =
(auto_detect_input, auto_detect_output), ([], []) (what tests/test_inline.py uses), ([], all head predicates), random
subsets of the program's predicates; and the result of a previous real run fed in again.  Every case gets freshly built
ASTs and the request is serialised before the real pass runs.
"""
from __future__ import annotations

import copy
import random
import sys
from collections import Counter

import corpus
import gen
import leanio
import ser
import tgen

from clingo.ast import ASTType
from ngo.dependency import RuleDependency
from ngo.inline import InlineTranslator
from ngo.normalize import preprocess
from ngo.utils.ast import Predicate, collect_ast, headderivable_predicates, predicates
from ngo.utils.globals import auto_detect_input, auto_detect_output


# ---------------------------------------------------------------- instrumented real pass

class Traced(InlineTranslator):
    """the real pass; the three steps are wrapped to count what they did"""

    def __init__(self, prg, ins, outs):
        super().__init__(prg, ins, outs)
        self.n_agg = 0
        self.n_body = 0
        self.n_min = 0
        self.n_neg = 0

    def inline_literal(self, rule, lit, unique_vars):
        from clingo.ast import Sign
        if lit.sign == Sign.Negation:
            self.n_neg += 1
        return super().inline_literal(rule, lit, unique_vars)

    def replace_single_rule_for_agg(self, prg):
        res = super().replace_single_rule_for_agg(prg)
        if res != prg:  # the criterion of the `while` loop
            self.n_agg += 1
        return res

    def replace_single_rule_for_body(self, prg):
        res = super().replace_single_rule_for_body(prg)
        if res != prg:
            self.n_body += 1
        return res

    def inline_minimize(self, stm):
        res = super().inline_minimize(stm)
        if not (len(res) == 1 and res[0] is stm):
            self.n_min += 1
        return res


# ---------------------------------------------------------------- targeted generator

AGGF = ["#sum", "#sum", "#sum", "#sum+", "#count", "#min", "#max"]


def targeted_program(rng) -> str:
    """helper rules `h(A,S) :- ..., S = #agg{..}` and ONE user of each, in the shapes the three branches look at"""
    lines = ["{ in(I,B) : bin(B) } = 1 :- item(I)."]
    n_helpers = rng.choice([1, 1, 1, 2, 2, 3])
    helpers = []
    for k in range(n_helpers):
        name = ["load", "cost", "cnt"][k]
        f1 = rng.choice(AGGF)
        # variable names chosen to clash with the user's names now and then
        gv = rng.choice(["B", "B", "A", "X", "V"])
        res = rng.choice(["S", "S", "L", "X" if gv != "X" else "S", "W"])
        loc = [v for v in ["I", "W", "Y", "L", "F", "B", "A"] if v not in (gv, res)]
        i1, w1 = loc[0], loc[1]
        els = [f"{w1},{i1} : in({i1},{gv}), weight({i1},{w1})" if f1 != "#count" else f"{i1} : in({i1},{gv})"]
        r = rng.random()
        if r < 0.25:
            els.append(f"{loc[2]},{rng.choice(['x', loc[3], i1])} : extra({gv},{loc[2]},{loc[3]})")
        elif r < 0.32:
            els.append(rng.choice(["5", "7,k", f"{gv}", f"{w1}+1,{i1} : bonus({i1},{w1})"]))
        elif r < 0.36:
            els = [rng.choice([f" : in({i1},{gv})", f"{i1}"])]
        body_extra = rng.choice(["", "", "", f", open({gv})", f", open({gv}), not closed({gv})", f", cap({gv},{loc[4]})",
                                 f", {gv} > 1", f", size({loc[2]}) : big({loc[2]})", ", { foo }", ", {}",
                                 f", aux({gv},{loc[2]}), {loc[2]} = {loc[3]}+1, q({loc[3]})"])
        guard = rng.random()
        agg = f"{f1} {{ {'; '.join(els)} }}"
        if guard < 0.7:
            agglit = f"{res} = {agg}"
        elif guard < 0.8:
            agglit = f"{agg} = {res}"
        elif guard < 0.85:
            agglit = f"{res} = {agg} > 3"
        elif guard < 0.9:
            agglit = f"not {res} = {agg}"
        elif guard < 0.95:
            agglit = f"{res} = {agg} = {res}"
        else:
            agglit = f"{res} <= {agg}"
        hr = rng.random()
        grouped = rng.random() < 0.8
        if not grouped:
            hargs = [res]
            dom = ""
            agglit = agglit.replace(f",{gv})", ",_)").replace(f"({gv},", "(_,")
            body_extra = "" if gv in body_extra else body_extra
        else:
            hargs = [gv, res] if rng.random() < 0.8 else [res, gv]
            dom = rng.choice([f"bin({gv}), ", f"bin({gv}), ", ""])
        if hr < 0.05:
            hargs = hargs + [hargs[0]]
        elif hr < 0.1:
            hargs[0] = rng.choice(["1", "f(" + hargs[0] + ")", "_"])
        elif hr < 0.14 and grouped:
            hargs = [gv]  # result not in the head
        elif hr < 0.18:
            hargs = hargs + [rng.choice([loc[4], "_"])]
        order = rng.random()
        body = f"{dom}{agglit}{body_extra}" if order < 0.7 else f"{agglit}{body_extra}{', ' + dom.rstrip(', ') if dom else ''}"
        lines.append(f"{name}({','.join(hargs)}) :- {body}.")
        if rng.random() < 0.07:
            lines.append(f"{name}({','.join(hargs)}) :- fallback({hargs[0]}).")
        helpers.append((name, len(hargs), hargs.index(res) if res in hargs else 0))

    used_vars = ["B", "L", "X", "S", "W", "I"]
    for (name, ar, rpos) in helpers:
        u = rng.random()
        args = ["B2", "Q"][: max(ar - 1, 0)]
        rv = rng.choice(["L", "L", "S", "W", "X"])
        args = [rng.choice(["B", "B", "I", "X", "b1", "_", "B+1"]) if i != rpos else rv for i in range(ar)]
        if rng.random() < 0.06 and ar:
            args[rng.randrange(ar)] = rng.choice(["_", "1", "f(Z)", rv])
        use = f"{name}({','.join(args)})" if ar else name
        sign = rng.choice(["", "", "", "", "", "", "not ", "not not "]) if rng.random() < 0.3 else ""
        if u < 0.4:
            f2 = rng.choice(AGGF)
            tup = rng.choice([f"{rv},{args[0] if ar > 1 else 't'}", f"{rv}", f"{rv},{args[0] if ar else 't'},z",
                              f"{rv}+1,t", f"t,{rv}", f"{rv},f({args[0] if ar else 't'})"])
            cond_extra = rng.choice(["", "", "", ", ok(B)", ", ok(B), not bad(B)", f", {rv} > 0"])
            el = f"{tup} : {sign}{use}{cond_extra}"
            others = rng.random()
            if others < 0.3:
                el += rng.choice(["; 1,x : extra", "; W2 : bonus(W2)", "; L2,B2 : cap(B2,L2)", "; 1,x,y,z,u : e(1), e(2), e(3), e(4)",
                                  "; f(1),x : extra", "; 1 : a, b, c", "; 3,b1", "; Z,g(Z) : cap(Z,Z)"])
                if rng.random() < 0.3:
                    el = el.split("; ")[1] + "; " + el.split("; ")[0]
            rest = rng.choice(["", "", "", ", limit(M), X > M", ", I = 5", ", W = #sum { Y : p(Y) }"])
            gform = rng.choice(["X = {}", "X = {}", "{} = X", "{} > 4", "X = {} < 9"])
            head = rng.choice(["report(X)", "report(X)", "report(X,I)", ""]) if "X =" in gform or "= X" in gform else "big"
            lines.append(f"{head} :- {gform.format(f2 + ' { ' + el + ' }')}{rest}.")
            if rng.random() < 0.5:
                lines.append("#show report/1.")
        elif u < 0.6:
            pr = rng.choice(["1", "2", "P"])
            ts = rng.choice([f",{args[0]}" if ar > 1 else "", ",t", "", f",{args[0]},u" if ar > 1 else ",u,v"])
            w = rng.choice([rv, rv, rv, f"{rv}+1", f"-{rv}", "1"])
            extra = rng.choice(["", "", ", heavy(B)", ", prio(P)" if pr == "P" else "", ", Z = #sum { Y : p(Y) }"])
            if rng.random() < 0.5:
                lines.append(f":~ {sign}{use}{extra}. [{w}@{pr}{ts}]")
            else:
                lines.append(f"#{rng.choice(['minimize', 'maximize'])} {{ {w}@{pr}{ts} : {sign}{use}{extra} }}.")
        elif u < 0.85:
            conn = rng.choice([f"cap(B,C), {rv} > C", f"C = #sum {{ Y : p(Y) }}, {rv} > C", f"C = #sum {{ Y : p(Y) }}, {rv} + D > 3, D = C * 2",
                               f"#sum {{ Y : p(Y) }} > {rv}", f"{rv} > 3", f"T = #count {{ Y : q(Y,{rv}) }}, T > 2",
                               f"T = #count {{ Y : q(Y,B) }}, T > {rv}", f"C = {rv} + 1, C < #max {{ Y : p(Y) }}",
                               f"not {rv} < #sum {{ Y : p(Y) }}", f"{rv} = #sum {{ Y : p(Y) }}"])
            head = rng.choice(["", "over(B)", "over(B)", f"val({rv})"])
            lines.append(f"{head} :- {sign}{use}, {conn}.")
            if rng.random() < 0.4:
                lines.append("#show over/1.")
        elif u < 0.93:
            lines.append(f"bad :- not {use}{rng.choice(['', ', dom(' + rv + ')', ', ' + rv + ' = #sum { Y : p(Y) }'])}.")
        else:
            lines.append(f"over(B) :- {use}, not {use}.")
    # two helpers compared with each other
    if len(helpers) >= 2 and rng.random() < 0.5:
        (n1, a1, p1), (n2, a2, p2) = helpers[0], helpers[1]
        x1 = ["B" if i != p1 else "L1" for i in range(a1)]
        x2 = ["B" if i != p2 else "L2" for i in range(a2)]
        lines.append(f":- {n1}({','.join(x1)}), {n2}({','.join(x2)}), L1 {rng.choice(['<', '!=', '>'])} L2.")
    if rng.random() < 0.25:
        lines.append(rng.choice([":~ X = #sum { W,I : in(I,B), weight(I,W) }. [X@1]", ":~ X = #sum { W,I : in(I,B), weight(I,W); 5 }, foo. [X@2,t]",
                                 ":~ X = #count { I : in(I,B) }, foo. [X@2,t]", ":~ X = #sum+ { W,I : weight(I,W) ; Z,k : c(Z) }, Y = 1. [X@Y,Y,Y]",
                                 ":~ X = #sum { W,I : weight(I,W) }, not X = #sum { W,I : weight(I,W) }. [X@1]",
                                 ":~ X = #sum { : weight(I,W) }. [X@1]", ":~ X = #sum { W,I : weight(I,W) }, d(X). [X@1]",
                                 ":~ X = #sum { }. [X@1]", ":~ X = #max { W : weight(I,W) }. [X@1]", ":~ foo(Y). [Y@1,a,b,c]"]))
    if rng.random() < 0.2:
        lines.append(rng.choice(["#show load/2.", "#show cost/2.", "#show.", "#show in/2."]))
    if rng.random() < 0.15:
        lines.append(gen.rule(rng))
    if rng.random() < 0.5:
        rng.shuffle(lines)
    return "\n".join(lines)


# hand-written programs for the corners the report talks about (each runs with every signature variant)
SPECIAL = [
    # regression input of the repaired defect 919cd70 (other conditions of the element inlined into)
    "{person(A,Y)} :- pp(A,Y). s(A,B) :- a(A), B = #sum{Y : person(A,Y)}. foo(X) :- X = #sum{F,V : s(V,F), ok(V)}.",
    "{person(A,Y)} :- pp(A,Y). s(A,B) :- a(A), B = #sum{Y : person(A,Y)}. foo(X) :- X = #sum{F,V : s(V,F), ok(V), not bad(V), V > 1}.",
    # two elements in the inlined aggregate: the second element gets other fresh names (Y0 although Y is free again)
    "{a(1..3)}. s(A,B) :- a(A), c(Q), B = #sum { Y,Q : person(A,Y); Z,Q : other(A,Z,Q) }. foo(X) :- X = #sum { F,V : s(V,F) ; 1,2,3 : z }.",
    # padding counts CONDITIONS, not tuple entries
    "{a(1..3)}. s(A,B) :- a(A), B = #sum { Y : person(A,Y) }. foo(X) :- X = #sum { F,V : s(V,F); 1,x,y,z : e(1), e(2), e(3), e(4), e(5) }.",
    "{a(1..3)}. s(A,B) :- a(A), B = #sum { Y : person(A,Y) }. foo(X) :- X = #sum { F,V : s(V,F), g1, g2, g3, g4 }.",
    # head variable `_`
    "{a(1..3)}. s(_,B) :- a(A), B = #sum { Y : person(A,Y,_) }. foo(X) :- X = #sum { F,V : s(V,F) }.",
    # count / min / max compatibility
    "{a(1..3)}. s(A,B) :- a(A), B = #count { Y : person(A,Y) }. foo(X) :- X = #sum+ { F,V : s(V,F) }.",
    "{a(1..3)}. s(A,B) :- a(A), B = #max { Y : person(A,Y) }. foo(X) :- X = #max { F,V : s(V,F) }.",
    "{a(1..3)}. s(A,B) :- a(A), B = #min { Y : person(A,Y) }. foo(X) :- X = #max { F,V : s(V,F) }.",
    "{a(1..3)}. s(A,B) :- a(A), B = #sum { Y : person(A,Y) }. foo(X) :- X = #sum+ { F,V : s(V,F) }.",
    "{a(1..3)}. s(A,B) :- a(A), B = #sum+ { Y : person(A,Y) }. foo(X) :- X = #sum { F,V : s(V,F) }.",
    # negated aggregate literal in the helper is not looked at
    "{a(1..3)}. s(A,B) :- a(A), not B = #sum { Y : person(A,Y) }. foo(X) :- X = #sum { F,V : s(V,F) }.",
    # body literal, connected through arithmetic to another aggregate / objective weight
    "{a(1..3)}. s(A,B) :- a(A), B = #sum { Y : person(A,Y) }. :- s(A,L), C = #sum { Y : p(Y) }, L > C.",
    "{a(1..3)}. s(A,B) :- a(A), B = #sum { Y : person(A,Y) }. t(A,B) :- a(A), B = #sum { Y : q(A,Y) }. :- s(A,L), t(A,M), L != M.",
    "{a(1..3)}. s(A,B) :- a(A), B = #sum { Y : person(A,Y) }. :~ s(A,L). [L@1,A]",
    "{a(1..3)}. s(A,B) :- a(A), B = #sum { Y : person(A,Y) }. :~ s(A,L). [L@1,A] :~ other(A,L). [L@1,A,b]",
    "{a(1..3)}. s(A,B) :- a(A), B = #sum { Y : person(A,Y) }. :~ s(A,L+1). [L@1,A]",
    "{a(1..3)}. s(A,B) :- a(A), B = #sum { Y : person(A,Y) }. t(A,B) :- a(A), B = #sum { Y : q(A,Y) }. :- s(A,L+1), t(A,L+1).",
    # negative one-literal case
    "{a(1..3)}. s(B) :- B = #sum { Y : a(Y) }. bad :- not s(X), X = #sum { Z : q(Z) }.",
    "{a(1..3)}. s(B) :- B = #sum { Y : a(Y) }. :~ not s(X), d(X). [X@1]",
    "{a(1..3)}. s(B) :- B = #sum { Y,X : a(Y), c(X,Z) }. :~ not s(X), d(X,Y). [X@1]",
    "{a(1..3)}. s(B) :- not B = #sum { Y : a(Y) }. :~ not s(X), d(X). [X@1]",
    "{a(1..3)}. s(B) :- B = #sum { Y : a(Y) }, B = #sum { Y : a(Y) }. :~ not s(X), d(X). [X@1]",
    "{a(1..3)}. s(A,B) :- B = #sum { Y : a(A,Y) }. :~ not s(A,X), d(X), a(A). [X@1]",
    "{a(1..3)}. s(A,B) :- B = #sum { Y : a(Y), A < Y }. :~ not s(A,X), d(X), a(A). [X@1]",
    "{a(1..3)}. s(A,B) :- B = #sum { A,Y : a(Y) }. :~ not s(A+1,X), d(X), a(A). [X@1]",
    "{a(1..3)}. s(B) :- B = #sum { Y : a(Y) }. :~ not not s(X), d(X). [X@1]",
    "{a(1..3)}. s(B) :- B = #sum { Y : a(Y) }. :~ s(X), d(X). [X@1]",
    # objective with an aggregate
    ":~ X = #sum { W,I : w(I,W); 3,k : f }, g. [X@2,t,u] :~ h(Y). [Y@1,a,b,c,d]",
    ":~ X = #sum { W,I : w(I,W) }, g. [X@2] :~ h(Y). [Y@2]",
    ":~ X = #sum { : w(I,W) }. [X@2]", ":~ X = #sum { }. [X@2]", ":~ X = #count { I : w(I,W) }, g. [X@2,t]",
    # variable capture when the aggregate's local variables become global
    ":~ X = #sum { W,I : w(I,W) }, g(I). [X@2,I]",
    # use inside a conditional literal / twice
    "s(A,B) :- a(A), B = #sum { Y : person(A,Y) }. x :- u(A) : s(A,L). ", "s(A,B) :- a(A), B = #sum { Y : person(A,Y) }. :- s(A,L), s(L,A), L > 2.",
    # classical negation
    "-s(A,B) :- a(A), B = #sum { Y : person(A,Y) }. :~ -s(A,L). [L@1,A]",
    "s(A,B) :- -a(A), B = #sum { Y : person(A,Y) }. :~ s(A,L). [L@1,A]",
]


# ---------------------------------------------------------------- real side

def prepare(text):
    prg = corpus.parses(text)
    if prg is None:
        return None
    return preprocess(prg)


def program_preds(prg):
    out = set()
    for stm in prg:
        out.update(sp.pred for sp in predicates(stm))
        if stm.ast_type == ASTType.ShowSignature:
            out.add(Predicate(stm.name, stm.arity))
    return sorted(out)


def head_preds(prg):
    out = set()
    for stm in prg:
        out.update(sp.pred for sp in headderivable_predicates(stm))
    return sorted(out)


class Case:
    __slots__ = ("origin", "text", "label", "ins", "outs", "req_prog", "before", "impl", "impl_counts", "impl_single",
                 "result_asts")


def build_case(origin, text, label, ins, outs, prg):
    """run the real code on prg (fresh ASTs); Case or the reason (str) why the case is not comparable"""
    try:
        req_prog = ser.prog(prg)
    except ser.Unsupported:
        return "ser_unsupported"
    c = Case()
    c.origin, c.text, c.label, c.ins, c.outs, c.req_prog = origin, text, label, list(ins), list(outs), req_prog
    c.before = ser.parse_sexp(req_prog)
    c.result_asts = None
    c.impl_counts = None
    # is_single on the untouched program
    try:
        tr0 = InlineTranslator(prg, list(ins), list(outs))
        rdp = RuleDependency(prg)
        single = []
        for i, stm in enumerate(prg):
            idx = tr0.is_single(stm, rdp)
            if idx is not None:
                single.append([str(i), str(idx)])
        c.impl_single = single
    except Exception as e:  # pylint: disable=broad-except
        c.impl_single = ("error", type(e).__name__)
    try:
        tr = Traced(prg, list(ins), list(outs))
        res = tr.execute(prg)
        c.impl = ser.parse_sexp(ser.prog(res))
        c.impl_counts = (tr.n_agg, tr.n_body, tr.n_min, tr.n_neg)
        c.result_asts = res
    except ser.Unsupported:
        return "ser_unsupported_result"
    except Exception as e:  # pylint: disable=broad-except
        c.impl = ("error", type(e).__name__)
    return c


def fresh(prg):
    return [copy.deepcopy(s) for s in prg]


def run(rng, n_gen, with_corpus=True, n_targeted=None, corpus_limit=None) -> dict:
    hist = Counter()
    texts = []
    if with_corpus:
        texts += [("corpus:" + o, t) for o, t in corpus.harvest()]
        if corpus_limit is not None and len(texts) > corpus_limit:
            texts = rng.sample(texts, corpus_limit)
    texts += [("special", t) for t in SPECIAL]
    pool = [t for _, t in corpus.harvest()]
    inline_pool = [t for o, t in corpus.harvest() if o == "inline"]
    for i in range(n_gen):
        if i % 2 == 0:
            texts.append(("gen.random_program", gen.random_program(rng)))
        else:
            r = rng.random()
            if r < 0.35 and inline_pool:
                base = rng.choice(inline_pool)
            elif r < 0.6:
                base = rng.choice(pool)
            elif r < 0.8:
                base = tgen.gen_inline(rng)
            else:
                base = gen.random_program(rng)
            t = gen.mutate(rng, base)
            if rng.random() < 0.3:
                t = gen.mutate(rng, t)
            texts.append(("gen.mutate", t))
    n_t = n_gen // 2 if n_targeted is None else n_targeted
    for _ in range(n_t):
        texts.append(("tgen.gen_inline", tgen.gen_inline(rng)))
    for _ in range(n_t):
        t = targeted_program(rng)
        if rng.random() < 0.2:
            t = gen.mutate(rng, t)
        texts.append(("targeted", t))

    cases = []
    unsupported = 0
    for origin, text in texts:
        try:
            prg = prepare(text)
            if prg is None:
                hist["skipped:does_not_parse"] += 1
                continue
            ps = program_preds(prg)
            variants = [("auto", auto_detect_input(prg), auto_detect_output(prg)), ("empty", [], []),
                        ("all_heads", [], head_preds(prg))]
            variants.append(("random", rng.sample(ps, rng.randrange(len(ps) + 1)) if ps else [],
                             rng.sample(ps, rng.randrange(len(ps) + 1)) if ps else []))
            if ps and rng.random() < 0.5:
                variants.append(("random_small", rng.sample(ps, rng.randrange(0, min(len(ps), 2) + 1)),
                                 rng.sample(ps, rng.randrange(0, min(len(ps), 2) + 1))))
        except Exception as e:  # pylint: disable=broad-except
            hist[f"skipped:pipeline_raises_{type(e).__name__}"] += 1
            continue
        variants = [(l, i, o, prg) for l, i, o in variants]
        # the same text WITHOUT preprocess (old-style body aggregates, #count, n-ary comparisons, pools): outside the
        # contract of the pass, but the Python function runs on any AST list and so does the model
        if rng.random() < 0.3:
            try:
                raw = corpus.parses(text)
                variants.append(("raw:empty", [], [], raw))
                variants.append(("raw:auto", auto_detect_input(raw), auto_detect_output(raw), raw))
            except Exception as e:  # pylint: disable=broad-except
                hist[f"skipped:raw_raises_{type(e).__name__}"] += 1
        for label, ins, outs, vprg in variants:
            c = build_case(origin, text, label, ins, outs, fresh(vprg))
            if isinstance(c, str):
                unsupported += 1
                hist["unsupported:" + c] += 1
                continue
            cases.append(c)
            # the result of the real pass fed in again (a new object, as the pipeline's next iteration would build)
            if c.result_asts is not None and c.impl != c.before and rng.random() < 0.5:
                c2 = build_case(origin, text, "second:" + label, ins, outs, fresh(c.result_asts))
                if isinstance(c2, str):
                    unsupported += 1
                    hist["unsupported:" + c2] += 1
                else:
                    cases.append(c2)
                    c2.result_asts = None
            c.result_asts = None

    reqs = []
    for c in cases:
        sig = f"{ser.preds(c.ins)} {ser.preds(c.outs)}"
        reqs.append(f"(inline_trace {c.req_prog} {sig})")
        reqs.append(f"(inline {c.req_prog} {sig})")
        reqs.append(f"(inline_single {c.req_prog} {sig})")
    answers = leanio.run_batch(reqs)

    evaluations = 0
    nontrivial = 0
    mismatches = []
    branch = Counter()
    n_exec = 0
    by_origin = Counter()
    changed_by_origin = Counter()

    def mismatch(op, c, impl, model):
        mismatches.append({"op": op, "program": c.text, "inputs": ser.preds(c.ins), "outputs": ser.preds(c.outs),
                           "impl": impl, "model": model, "origin": c.origin + "/" + c.label, "request": c.req_prog})

    for i, c in enumerate(cases):
        a_trace, a_exec, a_single = answers[3 * i], answers[3 * i + 1], answers[3 * i + 2]
        kind = c.origin.split(":")[0]
        if a_exec[0] == "unsupported":
            unsupported += 1
            hist["unsupported:lean_reader:" + ser._s(a_exec[1]).split(" ")[0]] += 1
            continue
        # ---- execute
        evaluations += 1
        n_exec += 1
        by_origin[kind] += 1
        impl = "error" if isinstance(c.impl, tuple) else c.impl
        model = "error" if a_exec[0] == "err" else a_exec[1]
        if impl != model:
            mismatch("inline", c, impl if impl != "error" else c.impl, model if model != "error" else ("error", a_exec[1]))
        if impl == "error":
            hist["inline:error:" + c.impl[1]] += 1
            nontrivial += 1
        elif impl != c.before:
            hist["inline:changed"] += 1
            changed_by_origin[kind] += 1
            nontrivial += 1
        else:
            hist["inline:unchanged"] += 1
        # ---- trace
        evaluations += 1
        if impl == "error":
            t_impl = "error"
        else:
            t_impl = (c.impl, [str(x) for x in c.impl_counts[:3]])
        t_model = "error" if a_trace[0] == "err" else (a_trace[1], list(a_trace[2:5]))
        if t_impl != t_model:
            mismatch("inline_trace", c, t_impl if t_impl == "error" else t_impl[1], t_model if t_model == "error" else t_model[1])
        if t_impl != "error":
            na, nb, nm, nneg = c.impl_counts
            if nneg:
                branch["into_body_literal_negative"] += 1
            if na:
                branch["into_aggregate_element"] += 1
            if nb:
                branch["into_body_literal"] += 1
            if nm:
                branch["into_minimize"] += 1
            if na or nb or nm:
                branch["any"] += 1
            if na > 1 or nb > 1:
                hist["rounds:more_than_one"] += 1
            hist[f"counts:agg={min(na, 3)},body={min(nb, 3)},min={min(nm, 3)}"] += 1
        # ---- is_single
        evaluations += 1
        s_impl = "error" if isinstance(c.impl_single, tuple) else c.impl_single
        s_model = "error" if a_single[0] == "err" else [list(x) for x in a_single[1:]]
        if s_impl != s_model:
            mismatch("inline_single", c, s_impl, s_model)
        if s_impl != "error" and s_impl:
            hist["is_single:some"] += 1
            nontrivial += 1
    for nm in ["into_aggregate_element", "into_body_literal", "into_body_literal_negative", "into_minimize", "any"]:
        hist[f"branch:{nm}"] = f"{branch[nm]}/{n_exec}"
    for k in by_origin:
        hist[f"changed_fraction:{k}"] = f"{changed_by_origin[k]}/{by_origin[k]}"
    return {"evaluations": evaluations, "nontrivial": nontrivial, "mismatches": mismatches, "unsupported": unsupported,
            "histogram": dict(hist), "branch": dict(branch), "n_exec": n_exec}


def source_digest():
    import hashlib
    import ngo.inline, ngo.normalize, ngo.dependency, ngo.utils.ast, ngo.utils.globals
    out = []
    for m in (ngo.inline, ngo.normalize, ngo.dependency, ngo.utils.ast, ngo.utils.globals):
        with open(m.__file__, "rb") as f:
            out.append(f"{m.__name__}={hashlib.md5(f.read()).hexdigest()[:12]}")
    return " ".join(out)


def main():
    print("sources:", source_digest())
    n_gen = int(sys.argv[1]) if len(sys.argv) > 1 else 2000
    seeds = [int(x) for x in sys.argv[2].split(",")] if len(sys.argv) > 2 else [0, 1, 2]
    total = {"evaluations": 0, "nontrivial": 0, "mismatches": [], "unsupported": 0}
    branch = Counter()
    n_exec = 0
    for seed in seeds:
        res = run(random.Random(seed), n_gen, with_corpus=True)
        print(f"seed {seed}: evaluations={res['evaluations']} nontrivial={res['nontrivial']} "
              f"mismatches={len(res['mismatches'])} unsupported={res['unsupported']}")
        for k in sorted(res["histogram"]):
            print(f"    {k}: {res['histogram'][k]}")
        for k in ("evaluations", "nontrivial", "unsupported"):
            total[k] += res[k]
        total["mismatches"] += res["mismatches"]
        branch.update(res["branch"])
        n_exec += res["n_exec"]
    print("sources:", source_digest())
    print(f"TOTAL evaluations={total['evaluations']} nontrivial={total['nontrivial']} "
          f"mismatches={len(total['mismatches'])} unsupported={total['unsupported']}")
    for k in ["into_aggregate_element", "into_body_literal", "into_body_literal_negative", "into_minimize", "any"]:
        print(f"TOTAL branch:{k}: {branch[k]}/{n_exec}")
    for m in total["mismatches"][:10]:
        print("---- MISMATCH", m["op"], m["origin"], "inputs", m["inputs"], "outputs", m["outputs"])
        print(m["program"])
        print("impl :", str(m["impl"])[:1500])
        print("model:", str(m["model"])[:1500])
    return 1 if total["mismatches"] else 0


if __name__ == "__main__":
    sys.exit(main())
