"""Generic (child_keys driven) walkers over clingo ASTs, independent of ngo's own collectors; used as the
search oracle for the syntactic properties (C07, C18)."""
from __future__ import annotations

from clingo.ast import AST, ASTType, Sign


def children(node: AST):
    for k in node.child_keys:
        c = getattr(node, k)
        if c is None:
            continue
        if isinstance(c, AST):
            yield c
        else:
            for x in c:
                if isinstance(x, AST):
                    yield x


def sym_atoms(node: AST, sign=None):
    """(sign of the enclosing literal, symbol term) of every symbolic atom below node"""
    if node.ast_type == ASTType.Literal:
        sign = node.sign
    if node.ast_type == ASTType.SymbolicAtom:
        yield (sign, node.symbol)
        return
    for c in children(node):
        yield from sym_atoms(c, sign)


def sigs(sym: AST):
    if sym.ast_type == ASTType.Function:
        return [(sym.name, len(sym.arguments))]
    if sym.ast_type == ASTType.Pool:
        out = []
        for a in sym.arguments:
            out.extend(sigs(a))
        return out
    return []


def has_pool_atom(node: AST) -> bool:
    return any(s.ast_type != ASTType.Function for _, s in sym_atoms(node))


def head_derived(stm: AST):
    """symbolic atoms derived by the head: head literal / element literals (not conditions)"""
    if stm.ast_type != ASTType.Rule:
        return
    h = stm.head
    if h.ast_type == ASTType.Literal:
        yield from sym_atoms(h)
    elif h.ast_type in (ASTType.Disjunction, ASTType.Aggregate):
        for e in h.elements:
            yield from sym_atoms(e.literal)
    elif h.ast_type == ASTType.HeadAggregate:
        for e in h.elements:
            yield from sym_atoms(e.condition.literal)


def occurs(stm: AST):
    if stm.ast_type == ASTType.Rule:
        for _, s in sym_atoms(stm):
            yield from sigs(s)
    elif stm.ast_type == ASTType.Minimize:
        for b in stm.body:
            for _, s in sym_atoms(b):
                yield from sigs(s)


def pos_head(stm: AST):
    for sg, s in head_derived(stm):
        if sg == Sign.NoSign:
            yield from sigs(s)


def body_occurs(stm: AST):
    if stm.ast_type in (ASTType.Rule, ASTType.Minimize):
        for b in stm.body:
            for _, s in sym_atoms(b):
                yield from sigs(s)


def variables(node: AST):
    if node.ast_type == ASTType.Variable:
        yield node.name
    for c in children(node):
        yield from variables(c)
