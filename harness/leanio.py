"""talk to the compiled Lean driver (lean/.lake/build/bin/driver): batch of request lines -> response lines"""
from __future__ import annotations

import os
import subprocess

import ser

HERE = os.path.dirname(os.path.abspath(__file__))
LEAN_DIR = os.path.normpath(os.path.join(HERE, "..", "lean"))
DRIVER = os.path.join(LEAN_DIR, ".lake", "build", "bin", "driver")


class DriverError(Exception):
    pass


def run_batch(requests: list[str], timeout: int = 600) -> list:
    """send all request lines, return parsed s-expression answers (nested lists)"""
    if not requests:
        return []
    for r in requests:
        assert "\n" not in r
    data = ("\n".join(requests) + "\n").encode("utf8")
    p = subprocess.run([DRIVER], input=data, stdout=subprocess.PIPE, stderr=subprocess.PIPE, timeout=timeout, check=False)
    if p.returncode != 0:
        raise DriverError(f"driver exit {p.returncode}: {p.stderr.decode('utf8', 'replace')[:500]}")
    lines = p.stdout.decode("utf8").split("\n")
    if lines and lines[-1] == "":
        lines.pop()
    if len(lines) != len(requests):
        raise DriverError(f"driver answered {len(lines)} lines for {len(requests)} requests")
    return [ser.parse_sexp(l) for l in lines]
