"""Generators: every random choice comes from the rng handed in (derived from VERIF_SEED), so a case replays
from (seed, property, index).

 * `random_program(rng)`: grammar-based clingo text covering the node kinds of the fragment;
 * `mutate(rng, text)`: mutations of a harvested/generated program (adversarial names, layout, signs, pools…);
 * `instances(rng, preds)`: facts over given predicates from small domains incl. empty, 0, negatives, constants.
"""
from __future__ import annotations

import re

PREDS = [("a", 1), ("b", 1), ("c", 2), ("d", 1), ("e", 0), ("f", 2), ("g", 1), ("h", 0), ("p", 1), ("q", 2),
         ("r", 1), ("s", 3), ("dom", 1), ("edge", 2)]
VARS = ["X", "Y", "Z", "W", "V", "U"]
CONSTS = ["1", "2", "3", "0", "-1", "a", "b", "foo"]
CMPS = ["<", "<=", ">", ">=", "!=", "="]
AGGS = ["#sum", "#count", "#min", "#max", "#sum+"]
FIRST_TERMS = ["1", "2", "0", "-1", "X", "a", '"s"', "#sup", "#inf", "f(X)", "(1,2)"]


def term(rng, depth=0, vars_=VARS):
    r = rng.random()
    if r < 0.55:
        return rng.choice(vars_)
    if r < 0.75:
        return rng.choice(CONSTS)
    if r < 0.80:
        return "_"
    if depth > 1:
        return rng.choice(vars_)
    if r < 0.88:
        return f"{term(rng, depth + 1, vars_)}{rng.choice(['+', '-', '*'])}{rng.choice(['1', '2', term(rng, depth + 1, vars_)])}"
    if r < 0.93:
        return f"f({term(rng, depth + 1, vars_)})"
    if r < 0.96:
        return f"({term(rng, depth + 1, vars_)},{term(rng, depth + 1, vars_)})"
    if r < 0.98:
        return f"{rng.choice(['1', '0', 'X'])}..{rng.choice(['3', 'Y', '2'])}"
    return f"|{rng.choice(vars_)}|"


def atom(rng, simple=False, vars_=VARS):
    name, ar = rng.choice(PREDS)
    if ar == 0:
        return name
    if simple:
        return f"{name}({','.join(rng.choice(vars_ + ['_']) if rng.random() < 0.9 else rng.choice(CONSTS) for _ in range(ar))})"
    return f"{name}({','.join(term(rng, vars_=vars_) for _ in range(ar))})"


def sign(rng):
    r = rng.random()
    return "" if r < 0.7 else ("not " if r < 0.92 else "not not ")


def comparison(rng, vars_=VARS):
    n = 1 if rng.random() < 0.85 else 2
    s = term(rng, 1, vars_)
    for _ in range(n):
        s += f" {rng.choice(CMPS)} {term(rng, 1, vars_)}"
    return s


def cond(rng, n=None, vars_=VARS):
    n = n if n is not None else rng.choice([0, 1, 1, 2])
    out = []
    for _ in range(n):
        r = rng.random()
        if r < 0.75:
            out.append(sign(rng) + atom(rng, vars_=vars_))
        elif r < 0.95:
            out.append(comparison(rng, vars_))
        else:
            out.append(rng.choice(["#true", "#false"]))
    return ", ".join(out)


def body_agg(rng):
    f = rng.choice(AGGS)
    n = rng.choice([1, 1, 2])
    els = []
    for _ in range(n):
        ts = ",".join(term(rng, 1) for _ in range(rng.choice([1, 2])))
        c = cond(rng, rng.choice([1, 2]))
        els.append(f"{ts} : {c}" if c else ts)
    g = rng.random()
    inner = f"{f} {{ {'; '.join(els)} }}"
    if g < 0.35:
        return f"{rng.choice(VARS)} = {inner}"
    if g < 0.6:
        return f"{rng.choice(['1', '2', 'X'])} {rng.choice(CMPS)} {inner}"
    if g < 0.8:
        return f"{inner} {rng.choice(CMPS)} {rng.choice(['1', '2', 'Y'])}"
    if g < 0.9:
        return f"1 <= {inner} <= 3"
    return inner


def old_agg(rng):
    n = rng.choice([1, 2])
    els = []
    for _ in range(n):
        c = cond(rng, rng.choice([0, 1]))
        l = sign(rng) + atom(rng)
        els.append(f"{l} : {c}" if c else l)
    lo = rng.choice(["", "1 ", "2 "])
    hi = rng.choice(["", " 2", " 1"])
    return f"{lo}{{ {'; '.join(els)} }}{hi}"


def body_lit(rng):
    r = rng.random()
    if r < 0.55:
        return sign(rng) + atom(rng)
    if r < 0.72:
        return sign(rng if rng.random() < 0.3 else _NoSign()) + comparison(rng)
    if r < 0.82:
        return sign(rng if rng.random() < 0.3 else _NoSign()) + body_agg(rng)
    if r < 0.88:
        return sign(rng if rng.random() < 0.3 else _NoSign()) + old_agg(rng)
    if r < 0.96:
        c = cond(rng, rng.choice([1, 2]))
        return f"{sign(rng)}{atom(rng)} : {c}"
    return rng.choice(["#true", "#false", "not #false"])


class _NoSign:
    def random(self):
        return 0.0


def head(rng):
    r = rng.random()
    if r < 0.55:
        return atom(rng)
    if r < 0.60:
        return ""
    if r < 0.75:
        n = rng.choice([1, 2])
        els = []
        for _ in range(n):
            c = cond(rng, rng.choice([0, 1]))
            a = atom(rng)
            els.append(f"{a} : {c}" if c else a)
        return f"{rng.choice(['', '1 ', '0 '])}{{ {'; '.join(els)} }}{rng.choice(['', ' 1', ' 2', ' = 1'])}"
    if r < 0.85:
        els = []
        for _ in range(rng.choice([2, 3])):
            c = cond(rng, rng.choice([0, 0, 1]))
            a = sign(rng) + atom(rng)
            els.append(f"{a} : {c}" if c else a)
        return "; ".join(els)
    if r < 0.95:
        f = rng.choice(["#sum", "#count"])
        els = []
        for _ in range(rng.choice([1, 2])):
            tl = [term(rng, 1) for _ in range(rng.choice([1, 2]))]
            if rng.random() < 0.5:  # every kind of symbol as the weight: numbers, strings, constants, #sup/#inf, functions
                tl[0] = rng.choice(FIRST_TERMS)
            ts = ",".join(tl)
            c = cond(rng, rng.choice([0, 1]))
            els.append(f"{ts} : {atom(rng)} : {c}" if c else f"{ts} : {atom(rng)}")
        return f"{rng.choice(['', '1 <= '])}{f} {{ {'; '.join(els)} }} {rng.choice(['<= 2', '= 1', '>= 1', '<= 1', '< 2'])}"
    return "not " + atom(rng)


def rule(rng):
    h = head(rng)
    n = rng.choice([0, 1, 2, 2, 3, 4])
    b = ", ".join(body_lit(rng) for _ in range(n))
    if not h and not b:
        b = atom(rng)
    return f"{h} :- {b}." if b else f"{h}."


def objective(rng):
    r = rng.random()
    b = ", ".join(body_lit(rng) for _ in range(rng.choice([1, 2])))
    ts = ",".join(term(rng, 1) for _ in range(rng.choice([0, 1, 2])))
    w = term(rng, 1)
    p = rng.choice(["1", "2", "0", "X"])
    if r < 0.5:
        return f":~ {b}. [{w}@{p}{',' + ts if ts else ''}]"
    kw = "#minimize" if r < 0.8 else "#maximize"
    return f"{kw} {{ {w}@{p}{',' + ts if ts else ''} : {b} }}."


def other_stm(rng):
    name, ar = rng.choice(PREDS)
    r = rng.random()
    if r < 0.35:
        return f"#show {name}/{ar}."
    if r < 0.5:
        return f"#show {term(rng, 1)} : {cond(rng, rng.choice([1, 2]))}."
    if r < 0.6:
        return f"#show {term(rng, 1)} : {', '.join(body_lit(rng) for _ in range(rng.choice([1, 2])))}."
    if r < 0.7:
        return "#show."
    if r < 0.8:
        return f"#const n = {rng.choice(['3', 'a', '2+1'])}."
    if r < 0.86:
        return f"#external {atom(rng, simple=True)} : {cond(rng, 1)}."
    if r < 0.92:
        return f"#heuristic {atom(rng, simple=True)} : {cond(rng, rng.choice([1, 2]))}. [{rng.choice(['1', 'X', 'Y'])}@{rng.choice(['0', '1'])},{rng.choice(['true', 'false', 'level', 'sign'])}]"
    if r < 0.96:
        return f"#edge ({rng.choice(VARS)},{rng.choice(VARS)}) : {cond(rng, rng.choice([1, 2]))}."
    return f"#project {name}/{ar}."


def random_program(rng, size=None, objectives=True, others=True):
    n = size or rng.choice([1, 2, 3, 4, 5, 6])
    out = []
    for _ in range(n):
        r = rng.random()
        if r < 0.78:
            out.append(rule(rng))
        elif r < 0.9 and objectives:
            out.append(objective(rng))
        elif others:
            out.append(other_stm(rng))
        else:
            out.append(rule(rng))
    return "\n".join(out)


# ---------------------------------------------------------------- mutations

TEMPLATE_VARS = ["X", "P", "N", "B", "L", "G0", "G1", "AUX", "AUX0", "X0", "__NEXT", "__PREV"]
NGO_PREDS = ["__aux_1", "__aux_2", "__dom_p", "__dom_a", "__min_0_1", "__max_0_1", "__next_0__dom_a", "__chain_0_1", "__agg",
             "unique", "anon__ngo"]


def layered_program(rng) -> str:
    """a choice at the bottom, layers of derived predicates above it, statements in shuffled (use-before-define) order"""
    depth = rng.choice([2, 3, 4])
    lines = [rng.choice(["{ l0(X) } :- d(X).", "{ l0(X) : d(X) }.", "l0(X) :- d(X), not n0(X). { n0(X) } :- d(X)."])]
    for k in range(1, depth + 1):
        body = rng.choice([f"l{k - 1}(X)", f"l{k - 1}(X), e(X)", f"d(X), not l{k - 1}(X)", f"l{k - 1}(X), l{max(0, k - 2)}(X)"])
        lines.append(f"l{k}(X) :- {body}.")
    top = f"l{depth}"
    lines.append(rng.choice([f"m(M) :- M = #max {{ X : {top}(X) }}.", f"ok :- 2 < #min {{ X : {top}(X) }}.",
                             f":- {top}(A), {top}(B), A != B.", f"s(S) :- S = #sum {{ X : {top}(X) }}."]))
    if rng.random() < 0.4:
        lines.append(f"st(X) :- d(X), e(X). t(M) :- M = #max {{ X : st(X), {top}(X) }}.")
    if rng.random() < 0.7:
        lines.append("{ sel(X,V) } :- item(X,V).")
        lines.append(f"top(M) :- M = #{rng.choice(['max', 'min'])} {{ V : sel(X,V), {rng.choice([top, f'l{depth - 1}'])}(X) }}.")
    rng.shuffle(lines)
    return "\n".join(lines)


def collide_vars(rng, text: str) -> str:
    """rename one variable to the name a fresh-variable request for ANOTHER variable of the program would produce
    (`X` -> `X0`, `X1`, ...: utils/globals.py UniqueVariables appends a counter): a pass that checks freshness against
    too small a scope captures it"""
    vs = sorted(set(re.findall(r"\b[A-Z][A-Za-z0-9]*\b", text)))
    if len(vs) < 2:
        return text
    u = rng.choice(vs)
    v = rng.choice([x for x in vs if x != u])
    new = u + rng.choice(["0", "0", "1"])
    if new in vs:
        return text
    return re.sub(rf"\b{v}\b", new, text)


EXOTIC_SYMBOLS = ['"s"', "c", "#sup", "#inf", "f(1)", "(1,2)", "-1", "0", "-3", "1..2", "X"]


def exotic_const(rng, text: str) -> str:
    """replace one integer literal (a weight, a bound, an argument) by a symbol of another kind: code that reads `.number`,
    compares with `> 0` or does arithmetic on it must first look at the symbol's type"""
    ms = [m for m in re.finditer(r"(?<![A-Za-z_0-9@./\"])\d+(?![A-Za-z_0-9.(\"])", text)]
    if not ms:
        return text
    m = rng.choice(ms)
    return text[:m.start()] + rng.choice(EXOTIC_SYMBOLS) + text[m.end():]


def exotic_sweep(text: str, symbols=('"s"', "c", "#sup", "f(1)", "-1", "0")):
    """every single-position substitution of an integer literal by a symbol of another kind"""
    for m in re.finditer(r"(?<![A-Za-z_0-9@./\"])\d+(?![A-Za-z_0-9.(\"])", text):
        for sym in symbols:
            if sym != m.group(0):
                yield text[:m.start()] + sym + text[m.end():]


def mutate(rng, text: str) -> str:
    r = rng.random()
    if r < 0.07:
        return collide_vars(rng, text)
    if rng.random() < 0.07:
        return exotic_const(rng, text)
    if rng.random() < 0.12:  # statement order must not matter
        ls = [l for l in text.split("\n") if l.strip()]
        if len(ls) > 1 and all(l.rstrip().endswith((".", "]")) for l in ls):
            rng.shuffle(ls)
            return "\n".join(ls)
    if rng.random() < 0.06:
        return text + "\n" + layered_program(rng)
    if r < 0.15:  # rename a variable to a template variable
        vs = sorted(set(re.findall(r"\b[A-Z][A-Za-z0-9]*\b", text)))
        if vs:
            v = rng.choice(vs)
            return re.sub(rf"\b{v}\b", rng.choice(TEMPLATE_VARS), text)
    if r < 0.3:  # rename a predicate to an ngo-shaped name
        ps = sorted(set(re.findall(r"\b[a-z][A-Za-z0-9_]*(?=\()", text)))
        if ps:
            p = rng.choice(ps)
            return re.sub(rf"\b{p}\(", rng.choice(NGO_PREDS) + "(", text)
    if r < 0.4:  # one line
        return " ".join(text.split("\n"))
    if r < 0.55:  # toggle a sign
        if rng.random() < 0.2:  # ... of a head literal: "not a :- B." is the constraint ":- B, a."
            heads = [m.start() for m in re.finditer(r"(?m)^[a-z][A-Za-z0-9_]*(?:\([^()]*\))? :-", text)]
            if heads:
                i = rng.choice(heads)
                return text[:i] + rng.choice(["not ", "not ", "not not "]) + text[i:]
        lits = [m.start() for m in re.finditer(r"(?<=[,;:] )[a-z]", text)]
        if lits:
            i = rng.choice(lits)
            return text[:i] + rng.choice(["not ", "not not "]) + text[i:]
    if r < 0.65:  # anonymise a variable occurrence
        vs = [m for m in re.finditer(r"\b[A-Z][A-Za-z0-9]*\b", text)]
        if vs:
            m = rng.choice(vs)
            return text[:m.start()] + "_" + text[m.end():]
    if r < 0.75:  # duplicate a statement
        ls = [l for l in text.split("\n") if l.strip()]
        if ls:
            return text + "\n" + rng.choice(ls)
    if r < 0.85:  # wrap an argument in a function / arithmetic
        vs = [m for m in re.finditer(r"(?<=[(,])[A-Z][A-Za-z0-9]*(?=[,)])", text)]
        if vs:
            m = rng.choice(vs)
            w = rng.choice(["f({})", "{}+1", "({},1)", "{}*2", "-{}"]).format(m.group(0))
            return text[:m.start()] + w + text[m.end():]
    if r < 0.93:  # add a pool / interval fact-like rule
        return text + "\n" + rng.choice(["a(1;2).", "dom(1..3).", "p(X) :- q(X;Y).", ":- d(1;2), e."])
    return text + "\n" + rule(rng)


# ---------------------------------------------------------------- instances

def instances(rng, preds, n=4, values=None):
    """list of fact strings over `preds` (iterable of (name, arity)); the first is always the empty instance"""
    preds = sorted(set(preds))
    out = [""]
    doms = [
        ["1", "2", "3"],
        ["0", "-1", "2", "5"],
        ["a", "b", "1"],
        ["1", "2", "4", "7", "-3"],
        ["1"],
    ]
    for k in range(n - 1):
        dom = values or rng.choice(doms)
        facts = []
        for name, ar in preds:
            if ar == 0:
                if rng.random() < 0.6:
                    facts.append(f"{name}.")
                continue
            cnt = rng.choice([0, 1, 2, 3, 4]) if k else rng.choice([1, 2, 3])
            for _ in range(cnt):
                facts.append(f"{name}({','.join(rng.choice(dom) for _ in range(ar))}).")
        if facts and rng.random() < 0.3:
            facts.append(rng.choice(facts))  # duplicate
        out.append(" ".join(facts))
    return out
