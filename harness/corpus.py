"""harvest the programs the maintainers wrote: every string literal in /repo/tests/*.py that clingo parses
into at least one rule/objective.  Harvested at run time, so the corpus follows the working tree."""
from __future__ import annotations

import ast
import glob
import os

from clingo.ast import ASTType, parse_string

REPO = os.environ.get("NGO_REPO", "/repo")


def _strings(path):
    with open(path, encoding="utf8") as f:
        tree = ast.parse(f.read())
    for n in ast.walk(tree):
        if isinstance(n, ast.Constant) and isinstance(n.value, str):
            yield n.value


def parses(text: str):
    out = []
    try:
        parse_string(text, out.append, logger=lambda c, m: None)
    except RuntimeError:
        return None
    return out


_cache = None


def harvest() -> list[tuple[str, str]]:
    """list of (origin, program text), deterministic order, duplicates removed"""
    global _cache
    if _cache is not None:
        return _cache
    seen = set()
    res = []
    for path in sorted(glob.glob(os.path.join(REPO, "tests", "test_*.py"))):
        name = os.path.basename(path)[5:-3]
        for s in _strings(path):
            t = s.strip()
            if len(t) < 4 or t in seen or ("." not in t):
                continue
            prg = parses(t)
            if not prg:
                continue
            if not any(x.ast_type in (ASTType.Rule, ASTType.Minimize) for x in prg):
                continue
            seen.add(t)
            res.append((name, t))
    _cache = res
    return res


if __name__ == "__main__":
    h = harvest()
    from collections import Counter
    print(len(h), Counter(o for o, _ in h))
