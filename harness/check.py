#!/venv/bin/python
"""./check <property> [--tier quick|thorough]  |  ./check --replay <path>

exit 0: the property held on everything explored (KNOWN-FINDING lines are informational);
exit 1: a line `VIOLATION property=<id> replay=<path>` was printed;
exit 2: the check itself could not run (timeout, harness crash) - never a verdict.
"""
from __future__ import annotations

import argparse
import importlib
import json
import os
import sys
import traceback

sys.path.insert(0, os.path.dirname(os.path.abspath(__file__)))

import core  # noqa: E402


def main() -> int:
    ap = argparse.ArgumentParser()
    ap.add_argument("property", nargs="?")
    ap.add_argument("--tier", default=os.environ.get("VERIF_TIER", "quick"), choices=["quick", "thorough"])
    ap.add_argument("--replay")
    args = ap.parse_args()
    seed = int(os.environ.get("VERIF_SEED", "0") or 0)
    if args.replay:
        path = args.replay if os.path.isabs(args.replay) else os.path.join(core.VERIF, args.replay)
        with open(path, encoding="utf8") as f:
            data = json.load(f)
        mod = importlib.import_module(f"props.{data['property']}")
        ctx = core.Ctx(data["property"], data.get("tier", "quick"), data.get("seed", 0))
        if not hasattr(mod, "replay"):
            print("this replay file names a proof obligation / correspondence, not an input; re-run the check itself")
            print(json.dumps(data, indent=1)[:3000])
            return 1
        return mod.replay(ctx, data)
    pid = args.property
    if not pid:
        ap.error("property id required")
    mod = importlib.import_module(f"props.{pid}")
    ctx = core.Ctx(pid, args.tier, seed)
    return mod.run(ctx)


if __name__ == "__main__":
    try:
        sys.exit(main())
    except SystemExit:
        raise
    except BaseException:  # harness crash is never a verdict
        traceback.print_exc()
        sys.exit(2)
