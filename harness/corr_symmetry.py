"""correspondence of the Lean model Model/Symmetry.lean with ngo.symmetry.SymmetryTranslator and
ngo.utils.ast.replace_simple_assignments

    PYTHONPATH=/tmp/model/symmetry/harness:/repo/src /venv/bin/python corr_symmetry.py

`run(rng, n_gen)` evaluates, on every program of corpus.harvest() and on `n_gen` generated / mutated programs
(after `ngo.normalize.preprocess`; a fraction also as parsed):

 * `symmetry`: `SymmetryTranslator(prg, inputs).execute(prg)`, the statement list compared EXACTLY and in order
   after `ser.stm`;
 * `simple_assign`: `replace_simple_assignments(stm)` for every rule / objective;
 * `ast_sort`, `term_sort`: Python's `sorted` on body literals / terms of the program (the model of clingo's AST
   order that `sorted(subset)`, `remove_lits()`, `add_lits()` rely on).

A Python exception corresponds to `(err "py: …")` / `(err "assert: …")` (type not compared); `(err "fuel: …")` is
always a mismatch; `(unsupported …)` answers are counted and never compared.  As in corr_dependency the model
treats `x.unpool(condition=True)` as the identity on the programs it accepts: if Python's unpooling changes a
program the model accepted, that is reported as a mismatch too.

The histogram reports, per `SymmetryBundle` that Python built, which branch it took
(`less` = one `!=` -> `<`, `count` = counting rewrite in a body, `aux` = counting rewrite behind an auxiliary rule
inside an aggregate, `empty` = a bundle that changes nothing) and per rule / objective whether it was rewritten.
"""
from __future__ import annotations

import logging
import os
import random
import sys

sys.path.insert(0, os.path.dirname(os.path.abspath(__file__)))

from clingo.ast import AST, ASTSequence, ASTType  # noqa: E402

import corpus  # noqa: E402
import gen  # noqa: E402
import leanio  # noqa: E402
import ser  # noqa: E402
import tgen  # noqa: E402

from ngo.normalize import preprocess  # noqa: E402
from ngo.symmetry import SymmetryTranslator  # noqa: E402
from ngo.utils.ast import Predicate, replace_simple_assignments  # noqa: E402

logging.disable(logging.CRITICAL)

ERROR = "error"

# ---------------------------------------------------------------- instrumentation of the real code

_BUNDLES: list[str] = []
_orig_init = SymmetryTranslator.SymmetryBundle.__init__


def _spy_init(self, domain_predicates, unique_names, in_aggregate, symmetries):
    _orig_init(self, domain_predicates, unique_names, in_aggregate, symmetries)
    complex_ = len(symmetries) == 1 and all(len(s.nstrict_neq) + len(s.strict_neq) == 1 for s in symmetries)
    if self.empty():
        kind = "empty"
    elif complex_:
        kind = "aux" if in_aggregate else "count"
    else:
        kind = "less"
    k = max(len(s.literals) for s in symmetries)
    _BUNDLES.append(f"{kind}:{'agg' if in_aggregate else 'body'}:k={k}:groups={len(symmetries)}")


SymmetryTranslator.SymmetryBundle.__init__ = _spy_init


# ---------------------------------------------------------------- generator

OPS_NE = ["{a} != {b}", "{a} != {b}", "{b} != {a}", "not {a} = {b}", "not {b} = {a}"]
OPS_LT = ["{a} < {b}", "{b} > {a}", "{a} > {b}", "not {a} > {b}", "not {b} < {a}", "{b} < {a}"]
OPS_BAD = ["{a} <= {b}", "{a} = {b}", "{a} >= {b}", "not {a} != {b}", "not not {a} != {b}", "{a} != {b}+1", "{a} != 1"]

PNAMES = [("p", 1), ("p", 2), ("p", 3), ("q", 2), ("player", 3), ("at", 3), ("m", 2), ("e", 2), ("sudoku", 3)]


class Fresh:
    def __init__(self, rng):
        self.rng = rng
        self.n = 0
        self.used = []

    def var(self):
        self.n += 1
        base = self.rng.choice(["A", "B", "C", "P", "V", "X", "Y", "T", "U", "M"])
        v = f"{base}{self.n}" if self.rng.random() < 0.7 else f"{base}{self.rng.choice(['', 'a', '_'])}{self.n}"
        self.used.append(v)
        return v


def group(rng, fr, shared_pool, reuse=None, k=None):
    """k copies of one predicate; returns (atoms, comparisons, unequal variables per position)"""
    name, ar = rng.choice(PNAMES)
    k = k or rng.choice([2, 2, 2, 3, 3, 4])
    npos = rng.choice([1, 1, 1, 2]) if ar > 1 else 1
    upos = sorted(rng.sample(range(ar), min(npos, ar)))
    same = {}
    for i in range(ar):
        if i not in upos:
            r = rng.random()
            if r < 0.7 and shared_pool:
                same[i] = rng.choice(shared_pool)
            elif r < 0.8:
                same[i] = rng.choice(["1", "a", "f(S)", "_", "S+1", "(S,1)"])
            else:
                same[i] = rng.choice(["S", "T", "W"])
    uvars = {}
    for pos in upos:
        if reuse and rng.random() < 0.6:
            vs = list(rng.choice(list(reuse.values())))
            while len(vs) < k:
                vs.append(fr.var())
            uvars[pos] = vs[:k]
        else:
            uvars[pos] = [fr.var() for _ in range(k)]
    sign = rng.choice(["", "", "", "", "", "not ", "not not "])
    atoms = []
    for c in range(k):
        args = [uvars[i][c] if i in upos else same[i] for i in range(ar)]
        if rng.random() < 0.04:
            j = rng.randrange(ar)
            args[j] = rng.choice(["_", "1", args[j] + "+1", f"f({args[j]})"])
        atoms.append(f"{sign}{name}({','.join(args)})")
    cmps = []
    style = rng.random()
    for pos in upos:
        vs = uvars[pos]
        for i in range(k):
            for j in range(i + 1, k):
                if style < 0.45:
                    ops = OPS_NE
                elif style < 0.6:
                    ops = OPS_LT
                else:
                    ops = OPS_NE + OPS_NE + OPS_LT
                if rng.random() < 0.03:
                    ops = OPS_BAD
                if rng.random() < 0.05:
                    continue
                cmps.append(rng.choice(ops).format(a=vs[i], b=vs[j]))
                if rng.random() < 0.05:
                    cmps.append(rng.choice(OPS_NE + OPS_LT).format(a=vs[i], b=vs[j]))
    return name, ar, atoms, cmps, uvars


def sym_body(rng, fr, in_agg=False):
    shared_pool = rng.choice([[], ["S"], ["S", "T"], ["S", "T", "W"]])
    ngroups = rng.choice([1, 1, 1, 2, 2, 3])
    lits = []
    allu = {}
    preds = []
    reuse = None
    for g in range(ngroups):
        name, ar, atoms, cmps, uvars = group(rng, fr, shared_pool, reuse if rng.random() < 0.5 else None)
        lits += atoms + cmps
        preds.append((name, ar))
        for pos, vs in uvars.items():
            allu[(g, pos)] = vs
        reuse = dict(allu)
    uv = [v for vs in allu.values() for v in vs]
    r = rng.random()
    if r < 0.12 and uv:
        lits.append(f"r({rng.choice(uv)})")
    elif r < 0.2 and shared_pool:
        lits.append(f"ok({rng.choice(shared_pool)})")
    elif r < 0.26 and uv:
        lits.append(f"{rng.choice(uv)} < 5")
    elif r < 0.32 and uv and not in_agg:
        lits.append(f"{rng.choice(['1 <=', '0 <'])} #count {{ {rng.choice(uv + ['Q'])} : t(Q{',' + rng.choice(uv) if rng.random() < 0.5 else ''}) }}")
    elif r < 0.36 and uv and not in_agg:
        lits.append(f"t({rng.choice(uv)}) : d({rng.choice(uv + ['Q'])})")
    elif r < 0.42 and len(uv) > 1:
        a, b = rng.sample(uv, 2)
        lits.append(rng.choice([f"{a} = {b}", f"not {a} != {b}", f"{a} = S", f"{a} = _"]))
    elif r < 0.46 and lits:
        lits.append(rng.choice(lits))  # duplicate
    if rng.random() < 0.6:
        rng.shuffle(lits)
    return lits, uv, shared_pool, preds


def sym_rule(rng):
    fr = Fresh(rng)
    r = rng.random()
    if r < 0.55:
        lits, uv, shared, preds = sym_body(rng, fr)
        h = rng.random()
        if h < 0.35:
            head = ""
        elif h < 0.5:
            head = "f"
        elif h < 0.7:
            head = f"g({rng.choice(shared) if shared else '1'})"
        elif h < 0.8 and uv:
            head = f"h({rng.choice(uv)})"
        elif h < 0.9:
            head = f"{{ c({rng.choice(shared + ['1'])}) : d({rng.choice(uv + ['Z'])}) }}"
        else:
            head = f"a({rng.choice(shared + ['1'])}) ; b({rng.choice(uv + ['1'])})"
        return f"{head} :- {'; '.join(lits)}.", preds
    if r < 0.7:
        lits, uv, shared, preds = sym_body(rng, fr)
        w = rng.choice(shared + ["1", "1"] + (uv[:1] if rng.random() < 0.2 else []))
        p = rng.choice(["1", "0"] + shared[:1])
        t = rng.choice(["", "", "," + rng.choice(shared + ["x"]), "," + rng.choice(uv + ["y"])])
        if rng.random() < 0.5:
            return f":~ {'; '.join(lits)}. [{w}@{p}{t}]", preds
        return f"#minimize {{ {w}@{p}{t} : {', '.join(l for l in lits if '#' not in l and ' : ' not in l)} }}.", preds
    # inside an aggregate
    lits, uv, shared, preds = sym_body(rng, fr, in_agg=True)
    lits = [l for l in lits if "#" not in l and " : " not in l]
    tup = rng.choice([shared or ["1"], shared + uv[:1], ["1"] + shared, uv[:2] or ["1"]])
    fn = rng.choice(["#count", "#count", "#sum", "#sum+", "#max"])
    elems = [f"{','.join(tup)} : {', '.join(lits)}"]
    if rng.random() < 0.25:
        lits2, _, _, preds2 = sym_body(rng, fr, in_agg=True)
        lits2 = [l for l in lits2 if "#" not in l and " : " not in l]
        elems.append(f"{','.join(tup)} : {', '.join(lits2)}")
        preds = preds + preds2
    agg = f"{fn} {{ {'; '.join(elems)} }}"
    shape = rng.random()
    outer = rng.choice(["", "", f", ok({shared[0]})" if shared else "", f", r({uv[0]})" if uv else ""])
    if shape < 0.4:
        return f":- {agg} >= 2{outer}.", preds
    if shape < 0.6:
        return f"res(N) :- N = {agg}{outer}.", preds
    if shape < 0.75:
        return f"res({rng.choice(shared + ['1'])}) :- 2 <= {agg}{outer}.", preds
    if shape < 0.9:
        return f":~ {agg} >= 2{outer}. [3@1]", preds
    return f"res :- not {agg} < 2{outer}.", preds


def dom_rules(rng, preds):
    """rules that define the predicates of the groups: facts (static), choices (get a `__dom_`), recursion (no domain)"""
    out = []
    for name, ar in dict.fromkeys(preds):
        r = rng.random()
        vs = ["X", "Y", "Z"][:ar]
        body = "; ".join(f"d{i}({v})" for i, v in enumerate(vs))
        if r < 0.3:
            continue
        if r < 0.6:
            out.append(f"{{ {name}({','.join(vs)}) }} :- {body}.")
        elif r < 0.7:
            out.append(f"{{ {name}({','.join(vs)}) : {body.replace('; ', ', ')} }}.")
        elif r < 0.8:
            out.append(f"{name}({','.join(vs)}) :- {body}; not out({vs[0]}).")
            out.append(f"{{ out(X) }} :- d0(X).")
        elif r < 0.88:
            # a domain rule that is symmetric itself
            out.append(f"{{ {name}({','.join(vs)}) }} :- {body}; w({vs[0]},A1); w({vs[0]},A2); A1 != A2.")
        elif r < 0.94:
            out.append(f"{name}({','.join(vs)}) :- {name}({','.join(reversed(vs))}); {body}.")
        else:
            out.append(f"{name}({','.join(rng.choice(['1', '2', 'a']) for _ in vs)}).")
    return out


def sym_program(rng) -> str:
    lines = []
    preds = []
    for _ in range(rng.choice([1, 1, 1, 2, 3])):
        l, p = sym_rule(rng)
        lines.append(l)
        preds += p
    lines += dom_rules(rng, preds)
    if rng.random() < 0.15:
        lines.append(rng.choice(["#show p/1.", "#const n = 3.", "#external p(X) : d0(X).", "__aux_1(X) :- d0(X).",
                                 "__dom_p(X) :- d0(X).", "#show X : p(X), p(Y), X != Y."]))
    if rng.random() < 0.3:
        rng.shuffle(lines)
    return "\n".join(lines)


TEST_PROGRAMS = [
    "a :- p(X), q(Y), X = _, Y = _.",
    "a :- p(X,1), p(Y,1), X != Y.",
    ":- #count{W : m(A,W,1), m(B,W,1), A != B} >= 2.",
    "a :- X = Y = Z, p(X), p(Y), p(Z).",
    "a :- 1 < X != Y, p(X), p(Y).",
    "a :- not p(X), not p(Y), X != Y, q(X), q(Y).",
    "a :- not p(X), not p(Y), X != Y.",
    "a(S) :- S = #sum{X,Y : p(X), p(Y), X != Y}.",
    "a :- p(X), p(X), p(Y), X != Y.",
    "a :- p(X), p(Y), X != Y, X != Y.",
    "a :- p(X), p(Y), not X > Y.",
    "a :- p(X), p(Y), X < Y, X != Y.",
    "a :- p(X), p(Y), X != Y, X < Y.",
    "a :- p(X,X), p(Y,Y), X != Y.",
    "a :- p(X,A), p(Y,B), X != Y, A < B.",
    "a :- p(X,A), p(Y,B), X != Y, A != B, q(A,C), q(B,D), C != D.",
    "a :- p(A), p(B), A != B, q(C), q(D), C != D, r(E), r(F), E != F.",
    "a :- p(A), p(B), A != B, q(A), q(B), r(E), r(F), E != F.",
    "a :- p(A), p(B), A != B, q(A,C), q(B,D), C != D, r(C), r(D).",
    "{p(X)} :- d(X). a :- p(A), p(B), p(C), p(D), A != B, A != C, A != D, B != C, B != D, C != D.",
    "{p(X)} :- d(X), w(X,A), w(X,B), A != B. :- #count{1 : p(A), p(B), A != B} >= 1.",
    "{p(X,Y)} :- d(X), d(Y). :- #sum{1,S : p(A,S), p(B,S), A != B} >= 1. __aux_1(1).",
    "a :- p(A), p(B), A != B, X = #count{ A : q(A) }.",
    "a :- p(A), p(B), A != B, q(C) : r(A,C).",
    "a :- p(A), p(B), A != B, { q(A) }.",
    "a :- p(_,A), p(_,B), A != B.",
    "a :- -p(A), -p(B), A != B.",
    "-p(X) :- q(X). a :- p(A), p(B), A != B.",
    "a :- p(f(A)), p(f(B)), A != B.",
    "a :- p(A), p(B), p(C), A != B, B != C.",
    "a :- p(A), p(B), A != B, A = B.",
    "a :- p(A), p(B), C != B, A = C.",
    "a :- p(A), p(B), A != B, 1 <= #count { X : q(X), q(Y), X != Y, r(A) }.",
    ":~ p(A), p(B), A != B. [A@1]",
    ":~ p(A,S), p(B,S), A != B. [1@S]",
    ":~ p(A,S), p(B,S), A != B. [1@1,S]",
    "#minimize { 1@1,S : p(A,S), p(B,S), A < B }.",
    "a :- @f(A) != 1, p(A), p(B), A != B.",
    "a :- p(A,S), p(B,S), A != B, #true.",
    "a :- X = #sum { S : p(A,S), p(B,S), A != B, S = T, q(T) ; T : q(T), T = S }.",
]


# ---------------------------------------------------------------- real side

def real(f):
    try:
        return f()
    except Exception:  # pylint: disable=broad-except  (type not compared)
        return ERROR


def stm_val(s):
    return ser.parse_sexp(ser.stm(s))


def collect_nodes(x, lits, terms):
    """body literals (Literal / ConditionalLiteral in bodies and conditions) and terms of a statement"""
    if isinstance(x, AST):
        if x.ast_type in (ASTType.Literal, ASTType.ConditionalLiteral):
            lits.append(x)
        if x.ast_type in (ASTType.Variable, ASTType.SymbolicTerm, ASTType.UnaryOperation, ASTType.BinaryOperation,
                          ASTType.Interval, ASTType.Function, ASTType.Pool):
            terms.append(x)
        for k in x.child_keys:
            collect_nodes(getattr(x, k), lits, terms)
    elif isinstance(x, (list, ASTSequence)):
        for y in x:
            collect_nodes(y, lits, terms)


def is_py_error(msg: str) -> bool:
    return msg.startswith("py:") or msg.startswith("assert")


def decode(op, ans):
    k = ans[0]
    if k == "unsupported":
        return None
    if k == "err":
        msg = ser._s(ans[1])  # pylint: disable=protected-access
        return ERROR if is_py_error(msg) else "MODEL-" + msg
    assert k == "ok", ans
    return ans[1]


class Collector:
    def __init__(self):
        self.reqs: list[str] = []
        self.meta: list[tuple] = []
        self.unsupported = 0
        self.hist: dict[str, int] = {}

    def bump(self, key, n=1):
        self.hist[key] = self.hist.get(key, 0) + n

    def add(self, op, text, build_req, value, nontrivial, branches, unpool_changed=False):
        try:
            req = build_req()
        except ser.Unsupported:
            self.unsupported += 1
            self.bump("unsupported:ser")
            return
        self.reqs.append(req)
        self.meta.append((op, text, value, nontrivial, branches, unpool_changed))


EVIL_INPUTS = [("__aux_1", 0), ("__aux_1", 1), ("__aux_2", 1), ("__aux_1", 2), ("__dom_p", 1), ("__dom_p", 2),
               ("__dom_player", 3), ("__dom_q", 2), ("__dom_m", 2)]


def program_cases(col: Collector, rng, text, prg, tag):
    unp = [y for x in prg for y in x.unpool(condition=True)]
    unpool_changed = [str(x) for x in unp] != [str(x) for x in prg]
    r = rng.random()
    if r < 0.6:
        inputs = []
    else:
        inputs = [Predicate(n, a) for n, a in rng.sample(EVIL_INPUTS, 3)]
    # ---- symmetry
    del _BUNDLES[:]
    out = real(lambda: SymmetryTranslator(prg, inputs).execute(prg))
    bundles = list(_BUNDLES)
    branches = [f"symmetry:{tag}"]
    if out == ERROR:
        value = ERROR
        branches.append("symmetry: python raised")
        nontrivial = True
    else:
        value = [stm_val(s) for s in out]
        before = [str(s) for s in prg]
        after = [str(s) for s in out]
        nontrivial = before != after
        branches.append("symmetry: program " + ("rewritten" if nontrivial else "untouched"))
        for b in bundles:
            branches.append("bundle:" + b)
            branches.append("bundle-kind:" + b.split(":")[0])
        # per statement
        n_stm = sum(1 for s in prg if s.ast_type in (ASTType.Rule, ASTType.Minimize))
        kinds = {b.split(":")[0] for b in bundles} - {"empty"}
        branches.append(f"stms:rule/objective total*{n_stm}")
        if len(out) > len(prg):
            branches.append("symmetry: rules added (aux / domain)")
        txt_in, txt_out = " ".join(before), " ".join(after)
        if "__dom_" in txt_out and txt_out.count("__dom_") > txt_in.count("__dom_"):
            branches.append("cov: counting rewrite uses a created __dom_ predicate")
        if len([b for b in bundles if not b.startswith("empty")]) >= 2:
            branches.append("cov: two or more effective bundles in one program")
        if any(int(b.rsplit("=", 1)[1]) >= 2 and b.startswith("less") for b in bundles):
            branches.append("cov: `<` rewrite chose symmetries[0] of a component with several groups")
        if txt_out.count("__aux_") > txt_in.count("__aux_") and inputs:
            branches.append("cov: aux rule created while evil input predicates are reserved")
        for kd in sorted(kinds):
            branches.append("program-with:" + kd)
        if not kinds:
            branches.append("program-with:no rewrite")
    try:
        sp = ser.prog(prg)
        col.add("symmetry", text, lambda: f"(symmetry {sp} {ser.preds(inputs)})", value, nontrivial, branches, unpool_changed)
    except ser.Unsupported:
        col.unsupported += 1
        col.bump("unsupported:ser")
    # ---- replace_simple_assignments
    lits, terms = [], []
    for s in prg:
        if s.ast_type in (ASTType.Rule, ASTType.Minimize):
            v = real(lambda s=s: stm_val(replace_simple_assignments(s)))
            changed = v != ERROR and str(replace_simple_assignments(s)) != str(s)
            col.add("simple_assign", str(s), lambda s=s: f"(simple_assign {ser.stm(s)})", v, changed,
                    [f"simple_assign:{tag}:" + ("raises" if v == ERROR else ("changed" if changed else "same"))])
            collect_nodes(s.body, lits, terms)
            if s.ast_type == ASTType.Rule:
                collect_nodes(s.head, [], terms)
    # ---- the AST order
    if lits and rng.random() < 0.5:
        for _ in range(2):
            sample = [rng.choice(lits) for _ in range(rng.choice([2, 3, 5, 8]))]
            v = real(lambda sample=sample: [ser.parse_sexp(ser.blit(x)) for x in sorted(sample)])
            col.add("ast_sort", " ; ".join(map(str, sample)), lambda sample=sample: f"(ast_sort ({' '.join(ser.blit(x) for x in sample)}))",
                    v, len({str(x) for x in sample}) > 1, ["ast_sort"])
    if terms and rng.random() < 0.5:
        sample = [rng.choice(terms) for _ in range(rng.choice([2, 3, 5, 8]))]
        v = real(lambda: [ser.parse_sexp(ser.term(x)) for x in sorted(sample)])
        col.add("term_sort", " ; ".join(map(str, sample)), lambda: f"(term_sort ({' '.join(ser.term(x) for x in sample)}))",
                v, len({str(x) for x in sample}) > 1, ["term_sort"])


def text_cases(col: Collector, rng, label, text):
    prg = corpus.parses(text)
    if prg is None:
        col.bump("skip:unparsable")
        return
    try:
        pre = preprocess(prg)
    except Exception:  # pylint: disable=broad-except
        col.bump("skip:preprocess raised")
        pre = None
    if pre is not None:
        program_cases(col, rng, text, pre, "pre")
    if rng.random() < 0.15:
        program_cases(col, rng, text, prg, "raw")


def make_texts(rng, n_gen, corpus_limit=None):
    harvested = corpus.harvest()
    texts = [(f"corpus:{o}", t) for o, t in harvested]
    if corpus_limit is not None and len(texts) > corpus_limit:
        texts = rng.sample(texts, corpus_limit)
    texts += [("tests", t) for t in TEST_PROGRAMS]
    sym_corpus = [t for o, t in harvested if o == "symmetry"]
    for i in range(n_gen):
        r = rng.random()
        if r < 0.15:
            texts.append((f"gen:{i}", gen.random_program(rng)))
        elif r < 0.3:
            base = rng.choice(harvested)[1] if rng.random() < 0.6 else gen.random_program(rng)
            for _ in range(rng.choice([1, 1, 2, 3])):
                base = gen.mutate(rng, base)
            texts.append((f"mut:{i}", base))
        elif r < 0.4:
            texts.append((f"tgen:{i}", tgen.gen_symmetry(rng)))
        elif r < 0.5:
            base = rng.choice(sym_corpus) if sym_corpus and rng.random() < 0.5 else tgen.gen_symmetry(rng)
            for _ in range(rng.choice([1, 1, 2])):
                base = gen.mutate(rng, base)
            texts.append((f"symmut:{i}", base))
        elif r < 0.9:
            texts.append((f"sym:{i}", sym_program(rng)))
        else:
            base = sym_program(rng)
            for _ in range(rng.choice([1, 2])):
                base = gen.mutate(rng, base)
            texts.append((f"symgenmut:{i}", base))
    return texts


def evaluate(col: Collector, answers) -> dict:
    res = {"evaluations": 0, "nontrivial": 0, "mismatches": [], "unsupported": col.unsupported,
           "histogram": col.hist}
    for (op, text, value, nontrivial, branches, unpool_changed), ans, req in zip(col.meta, answers, col.reqs):
        model = decode(op, ans)
        if model is None:
            res["unsupported"] += 1
            col.bump("unsupported:lean:" + ser._s(ans[1])[:60])  # pylint: disable=protected-access
            continue
        res["evaluations"] += 1
        col.bump("op:" + op)
        for b in branches:
            if "*" in b:
                k, n = b.split("*")
                col.bump(k, int(n))
            else:
                col.bump(b)
        if value == ERROR:
            col.bump("python raised")
        if nontrivial:
            res["nontrivial"] += 1
        if unpool_changed:
            res["mismatches"].append({"op": op + ":unpool is not the identity", "program": text, "impl": value,
                                      "model": model, "request": req})
        elif model != value:
            res["mismatches"].append({"op": op, "program": text, "impl": value, "model": model, "request": req})
    return res


def _work(items, chunk=2000) -> dict:
    col = Collector()
    for label, text, seed in items:
        text_cases(col, random.Random(seed), label, text)
    answers = []
    for i in range(0, len(col.reqs), chunk):
        answers.extend(leanio.run_batch(col.reqs[i:i + chunk], timeout=7200))
    return evaluate(col, answers)


def merge(results) -> dict:
    total = {"evaluations": 0, "nontrivial": 0, "mismatches": [], "unsupported": 0, "histogram": {}}
    for r in results:
        for k in ("evaluations", "nontrivial", "unsupported"):
            total[k] += r[k]
        total["mismatches"].extend(r["mismatches"])
        for k, v in r["histogram"].items():
            total["histogram"][k] = total["histogram"].get(k, 0) + v
    return total


def run(rng, n_gen, corpus_limit=None, workers=None) -> dict:
    """every random choice derives from `rng`: the texts, then one private seed per text (so the work can be
    spread over `workers` processes, env WORKERS, without changing the cases)"""
    workers = workers if workers is not None else int(os.environ.get("WORKERS", "8"))
    items = [(label, text, rng.getrandbits(64)) for label, text in make_texts(rng, n_gen, corpus_limit)]
    size = 25
    chunks = [items[i:i + size] for i in range(0, len(items), size)]
    if workers > 1 and len(chunks) > 1:
        import multiprocessing
        with multiprocessing.Pool(workers) as pool:
            results = pool.map(_work, chunks, chunksize=1)
    else:
        results = [_work(c) for c in chunks]
    return merge(results)


def main():
    n_gen = int(os.environ.get("N_GEN", "2000"))
    seeds = [int(s) for s in os.environ.get("SEEDS", "0,1,2").split(",")]
    limit = os.environ.get("CORPUS_LIMIT")
    results = [run(random.Random(seed), n_gen, corpus_limit=int(limit) if limit is not None else None) for seed in seeds]
    for seed, r in zip(seeds, results):
        print(f"seed {seed}: evaluations={r['evaluations']} nontrivial={r['nontrivial']} "
              f"mismatches={len(r['mismatches'])} unsupported={r['unsupported']}", flush=True)
    total = merge(results)
    print(f"TOTAL: evaluations={total['evaluations']} nontrivial={total['nontrivial']} "
          f"mismatches={len(total['mismatches'])} unsupported={total['unsupported']}")
    for k in sorted(total["histogram"]):
        print(f"  {k:70s} {total['histogram'][k]}")
    h = total["histogram"]
    nb = sum(v for k, v in h.items() if k.startswith("bundle-kind:"))
    if nb:
        print("bundles by branch: " + ", ".join(
            f"{k.split(':')[1]}={v} ({100.0 * v / nb:.1f}%)" for k, v in sorted(h.items()) if k.startswith("bundle-kind:")))
    np_ = h.get("op:symmetry", 0)
    if np_:
        print("programs by branch (a program can have several): " + ", ".join(
            f"{k.split(':')[1]}={v} ({100.0 * v / np_:.1f}%)" for k, v in sorted(h.items()) if k.startswith("program-with:")))
    for m in total["mismatches"][:10]:
        print("MISMATCH", m["op"])
        print("  program:", m["program"].replace("\n", " ")[:600])
        print("  request:", m["request"][-300:])
        print("  impl   :", str(m["impl"])[:900])
        print("  model  :", str(m["model"])[:900])
    return 1 if total["mismatches"] else 0


if __name__ == "__main__":
    sys.exit(main())
