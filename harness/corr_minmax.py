"""correspondence of the Lean model Model/MinMax.lean with ngo.minmax_aggregates.MinMaxAggregator

    PYTHONPATH=/tmp/model/minmax/harness:/repo/src /venv/bin/python corr_minmax.py

`run(rng, n_gen)` evaluates, on every program of corpus.harvest(), on hand-written edge cases and on `n_gen`
generated / mutated programs (after `ngo.normalize.preprocess`; a fraction also as parsed), with a random choice of
input predicates:

 * `minmax_rules`: `ret` after the first loop of `MinMaxAggregator(prg, inputs).execute(prg)`, obtained by wrapping
   `_replace_results_in_x` of the real object and serialising its argument;
 * `minmax`: the result of `execute`;
 * `minmax_info`: `_minmax_preds` after the first loop (function, old / new predicate, mapping, index).

Programs are compared EXACTLY (statement order, locations of rules / objectives / body aggregates included) after
`ser.stm`.  A Python exception corresponds to `(err "py: …")` / `(err "assert: …")` (type not compared);
`(err "fuel: …")` is always a mismatch; `(unsupported …)` answers are counted and never compared.  The model treats
`x.unpool(condition=True)` as the identity on the programs it accepts: if Python's unpooling changes a program the
model accepted, that is reported as a mismatch too.

The histogram reports, per rule/objective with a #min/#max body aggregate, which branch the REAL `_process_rule`
took (calls of `_simple_translation` / `_chain_translation` are counted by wrapping them).
"""
from __future__ import annotations

import logging
import os
import random
import sys

sys.path.insert(0, os.path.dirname(os.path.abspath(__file__)))

from clingo.ast import AggregateFunction, ASTType  # noqa: E402

import corpus  # noqa: E402
import gen  # noqa: E402
import leanio  # noqa: E402
import ser  # noqa: E402
import tgen  # noqa: E402

from ngo.minmax_aggregates import MinMaxAggregator  # noqa: E402
from ngo.normalize import preprocess  # noqa: E402
from ngo.utils import ast as U  # noqa: E402
from ngo.utils.ast import Predicate  # noqa: E402
from ngo.utils.globals import auto_detect_input  # noqa: E402

logging.disable(logging.CRITICAL)

ERROR = "error"

EVIL = [("__dom___max_0_1", 1), ("__dom___min_0_1", 1), ("__max_0_1", 1), ("__max_0_1", 2), ("__min_0_2", 2),
        ("__min_0_0__dom___max_0_1", 1), ("__next_0_0__dom___max_0_1", 2), ("__chain_0_0__max___dom___max_0_1", 1),
        ("__chain_0_0__max___dom___max_0_1", 2), ("__chain_0_0__min___dom___min_0_2", 2), ("__dom_sel", 2),
        ("__max_0_0__dom___min_0_2", 1), ("__dom___max_0_2", 1), ("__dom___max_0_3", 1)]

# hand-written edge cases (each is also run through the mutations)
TEST_PROGRAMS = [
    # the group variable occurs in the objective / sum tuple only under a non-injective or arithmetic term
    "{pick(P,V)} :- skill(P,V). max(P,V) :- person(P), V = #max{S : pick(P,S)}. #minimize{ V,|P| : max(P,V) }.",
    "{pick(P,V)} :- skill(P,V). max(P,V) :- person(P), V = #max{S : pick(P,S)}. #minimize{ V,-P : max(P,V) }.",
    "{pick(P,V)} :- skill(P,V). max(P,V) :- person(P), V = #max{S : pick(P,S)}. tot(S) :- S = #sum{ V,|P| : max(P,V) }.",
    "{pick(P,V)} :- skill(P,V). max(P,V) :- person(P), V = #min{S : pick(P,S)}. tot(S) :- S = #sum{ V,P*P : max(P,V) }. :~ max(P,V). [V@1,P\\2]",
    # several objectives with the SAME (weight, priority, terms) tuple text: the other statement can contribute the same ground tuple
    "{pick(P,V)} :- skill(P,V). best(P,V) :- person(P), V = #max{S : pick(P,S)}. #minimize{V@1,P : best(P,V)}. #minimize{V@1,P : bonus(P,V)}.",
    "{pick(P,V)} :- skill(P,V). best(P,V) :- person(P), V = #min{S : pick(P,S)}. #maximize{V@2,P : best(P,V)}. #maximize{V@2,P : bonus(P,V)}. #minimize{V@1,P : other(P,V)}.",
    "{pick(P,V)} :- skill(P,V). best(P,V) :- person(P), V = #max{S : pick(P,S)}. :~ best(P,V). [V@1,P] :~ bonus(P,V). [V@1,P]",
    "{pick(P,V)} :- skill(P,V). best(P,V) :- person(P), V = #max{S : pick(P,S)}. #minimize{V@1,P : best(P,V)}. #minimize{V@1,P : best(P,V), extra(P)}.",
    # argument order of the result predicate differs from (rest_vars…, max_var)
    "{ sel(P,V) } :- skill(P,V).\nres(X,P) :- person(P), X = #max { V : sel(P,V) }.\n#minimize { X,P : res(X,P) }.",
    "{ sel(P,V) } :- skill(P,V).\nres(X,P) :- person(P), X = #max { V : sel(P,V) }.\ntot(S) :- S = #sum { X,P : res(X,P) }.",
    # max_var is also a rest var
    "{ sel(P,V) } :- skill(P,V).\nres(P,X) :- person(P), X = #max { V : sel(P,V) }, foo(P,X).\n#minimize { X,P : res(P,X) }.",
    # the result occurs twice / with not not / in a conditional literal
    "{ sel(P,V) } :- skill(P,V).\nres(P,X) :- person(P), X = #max { V : sel(P,V) }.\n#minimize { X,P : res(P,X), res(P,Y) }.",
    "{ sel(P,V) } :- skill(P,V).\nres(P,X) :- person(P), X = #max { V : sel(P,V) }.\n:~ not not res(P,X). [X@1,P]",
    "{ sel(P,V) } :- skill(P,V).\nres(P,X) :- person(P), X = #max { V : sel(P,V) }.\n:~ res(P,X) : person(P). [X@1,P]",
    "{ sel(P,V) } :- skill(P,V).\nres(P,X) :- person(P), X = #max { V : sel(P,V) }.\n:~ res(P,X) : X > 1. [X@1,P]",
    "{ sel(P,V) } :- skill(P,V).\nres(P,X) :- person(P), X = #max { V : sel(P,V) }.\n:~ 1 = #sum { 1 : res(P,X) }, person(P), val(X). [X@1,P]",
    "{ sel(P,V) } :- skill(P,V).\nres(P,X) :- person(P), X = #max { V : sel(P,V) }.\ntot(S) :- S = #sum { X,P : not not res(P,X) }.",
    "{ sel(P,V) } :- skill(P,V).\nres(P,X) :- person(P), X = #max { V : sel(P,V) }.\ntot(S) :- S = #sum { X,P : res(P,X), res(P,Y) }.",
    # two objectives with unifying tuples / identical objectives
    "{ sel(P,V) } :- skill(P,V).\nres(P,X) :- person(P), X = #min { V : sel(P,V) }.\n#minimize { X,P : res(P,X) }.\n#minimize { Y,Q : cost(Q,Y) }.",
    "{ sel(P,V) } :- skill(P,V).\nres(P,X) :- person(P), X = #min { V : sel(P,V) }.\n#minimize { X,P : res(P,X) }.\n#minimize { X,P : res(P,X) }.",
    "{ sel(P,V) } :- skill(P,V).\nres(P,X) :- person(P), X = #min { V : sel(P,V) }.\n#minimize { X@2,P : res(P,X) }.\n#minimize { Y@1,Q : cost(Q,Y) }.",
    # sum with several elements
    "{ sel(P,V) } :- skill(P,V).\nres(P,X) :- person(P), X = #max { V : sel(P,V) }.\ntot(S) :- S = #sum { X,P : res(P,X); 1,a : extra }.",
    "{ sel(P,V) } :- skill(P,V).\nres(P,X) :- person(P), X = #max { V : sel(P,V) }.\ntot(S) :- S = #sum { X,P : res(P,X); Y,Q : cost(Q,Y) }.",
    "{ sel(P,V) } :- skill(P,V).\nres(P,X) :- person(P), X = #max { V : sel(P,V) }.\ntot(S) :- S = #sum+ { -X,P,f(P) : res(P,X), person(P) }, S > 2.",
    "{ sel(P,V) } :- skill(P,V).\nres(P,X) :- person(P), X = #max { V : sel(P,V) }.\ntot(S) :- S = #sum { X : res(P,X) }.",
    "{ sel(P,V) } :- skill(P,V).\nres(P,X) :- person(P), X = #max { V : sel(P,V) }.\ntot(S) :- S = #sum { X,P : res(P,X); X,P : res(P,X) }.",
    "{ sel(P,V) } :- skill(P,V).\nres(P,X) :- person(P), X = #max { V : sel(P,V) }.\ntot(S) :- S = #sum { : res(P,X) }.",
    # aggregates in weak constraints
    "{ sel(P,V) } :- skill(P,V).\n:~ person(P), X = #max { V : sel(P,V) }. [X@1,P]",
    "{ sel(P,V) } :- skill(P,V).\n:~ person(P), X = #min { V : sel(P,V) }. [-X@1,P]",
    "{ sel(P,V) } :- skill(P,V).\n:~ person(P), #max { V : sel(P,V) } < 3. [1@1,P]",
    "{ sel(P,V) } :- skill(P,V).\n:~ person(P), X = #max { V : sel(P,V) }. [X@V,P]",
    # result head shapes
    "{ sel(P,V) } :- skill(P,V).\nres(P,X,X) :- person(P), X = #max { V : sel(P,V) }.\n#minimize { X,P : res(P,X,X) }.",
    "{ sel(P,V) } :- skill(P,V).\nres(P,X,1) :- person(P), X = #max { V : sel(P,V) }.\n#minimize { X,P : res(P,X,1) }.",
    "{ sel(P,V) } :- skill(P,V).\nres(P,X,f(P)) :- person(P), X = #max { V : sel(P,V) }.\n#minimize { X,P : res(P,X,f(P)) }.",
    "{ sel(P,V) } :- skill(P,V).\nres(X) :- person(P), X = #max { V : sel(P,V) }.\n#minimize { X : res(X) }.",
    "{ sel(P,V) } :- skill(P,V).\nnot res(P,X) :- person(P), X = #max { V : sel(P,V) }.",
    "{ sel(P,V) } :- skill(P,V).\nres(P,X) :- person(P), X = #max { V : sel(P,V) }.\nres(P,0) :- person(P).\n#minimize { X,P : res(P,X) }.",
    "{ sel(P,V) } :- skill(P,V).\nres(P,X) ; other(P) :- person(P), X = #max { V : sel(P,V) }.",
    "{ sel(P,V) } :- skill(P,V).\n{ res(P,X) } :- person(P), X = #max { V : sel(P,V) }.",
    # guards
    "{ sel(P,V) } :- skill(P,V).\nok(P) :- person(P), not X = #max { V : sel(P,V) }, val(X).",
    "{ sel(P,V) } :- skill(P,V).\nok(P) :- person(P), not 3 = #max { V : sel(P,V) }.",
    "{ sel(P,V) } :- skill(P,V).\nok(P) :- person(P), X = #max { V : sel(P,V) } = Y.",
    "{ sel(P,V) } :- skill(P,V).\nok(P) :- person(P), X < #max { V : sel(P,V) } <= Y, val(X), val(Y).",
    "{ sel(P,V) } :- skill(P,V).\nok(P) :- person(P), X = #max { V : sel(P,V) } != 3.",
    "{ sel(P,V) } :- skill(P,V).\nok(P) :- person(P), #max { V : sel(P,V) }.",
    "{ sel(P,V) } :- skill(P,V).\nok(P) :- person(P), not not 3 < #max { V : sel(P,V) }.",
    "{ sel(P,V) } :- skill(P,V).\nok(P) :- person(P), not 3 < #min { V : sel(P,V); W : bonus(W); V,P : sel(Q,V), P = Q }.",
    "{ sel(P,V) } :- skill(P,V).\nok(P) :- person(P), 3 < #max { V : sel(P,V); W,_ : sel(_,W), bonus(W,X0) }, foo(X0).",
    # elements
    "{ sel(P,V) } :- skill(P,V).\nok(P) :- person(P), X = #max { V : sel(P,V); 0 }.",
    "{ sel(P,V) } :- skill(P,V).\nok(P) :- person(P), X = #max { : sel(P,V) }.",
    "{ sel(P,V) } :- skill(P,V).\nok(P) :- person(P), 2 < #max { : sel(P,V) }.",
    "{ sel(P,V) } :- skill(P,V).\nok(P) :- person(P), X = #max { V : -sel(P,V) }.",
    "{ sel(P,V) } :- skill(P,V).\nok(P) :- person(P), X = #max { V : skill(P,V), -sel(P,V) }.",
    "{ sel(P,V) } :- skill(P,V).\nok(P) :- person(P), X = #max { V : sel(P,V), -sel(P,V) }.",
    "{ sel(P,V) } :- skill(P,V).\nok(P) :- person(P), X = #max { V : skill(P,V) }.",
    "{ sel(P,V) } :- skill(P,V).\nok(P) :- person(P), X = #max { V : sel(_,V) }, foo(_).",
    "{ sel(P,V) } :- skill(P,V).\nok(P) :- person(P), X = #max { V : sel(P,V) }, X = #max { V : sel(P,V) }.",
    "{ sel(P,V) } :- skill(P,V).\nok(P) :- person(P), X = #max { V : sel(P,V) }, Y = #min { V : sel(P,V) }.",
    "{ sel(P,V) } :- skill(P,V).\nok(P) :- person(P), X = #max { V : sel(P,V) }.\nok2(P) :- person(P), X = #max { V : sel(P,V) }.",
    "{ sel(P,V) } :- skill(P,V). ok(P) :- person(P), X = #max { V : sel(P,V) }. ok2(P) :- person(P), X = #max { V : sel(P,V) }.",
    "{ sel(P,V) } :- skill(P,V).\nok(P) :- person(P), X = #max { V : sel(P,V) }, not bad(P), foo(Z), Z > X.",
    "{ sel(P,V) } :- skill(P,V).\nok(P) :- X = #max { V : sel(P,V) }.",
    "{ sel(P,V) } :- skill(P,V).\nok(P) :- person(P), X = #max { V+P : sel(P,V) }.",
    "{ sel(P,V) } :- skill(P,V).\nok(P) :- person(P), X = #max { V : sel(P,V), V = 1..3 }.",
    "{ sel(P,V) } :- skill(P,V).\nok(P) :- person(P), X = #max { V : sel(P,V) }, person(Q) : skill(Q,P).",
    "{ sel(P,V) } :- skill(P,V).\nok(P) :- person(P), X = #max { V : sel(P,V) }, 1 { foo(P) }.",
    "sel(P,V) :- skill(P,V), not sel(P,V).\nok(P) :- person(P), X = #max { V : sel(P,V) }.",
    "{ sel(P,V) } :- skill(P,V).\n__max_0_2(P) :- person(P).\nok(P) :- person(P), X = #max { V : sel(P,V) }.",
    "{ sel(P,V) } :- skill(P,V).\n{ __dom___max_0_2(P) } :- person(P).\nok(P) :- person(P), X = #max { V : sel(P,V) }.",
    "{ sel(P,V) } :- skill(P,V).\n__dom___max_0_2(P) :- person(P).\nok(P) :- person(P), X = #max { V : sel(P,V) }.",
    "{ sel(P,V) } :- skill(P,V).\nok(P) :- person(P), X = #max { V : sel(P,V) }, __chain_0_0__max___dom___max_0_2(P).",
    "{ sel(P,V) } :- skill(P,V).\n{ pick(P) } :- person(P).\nok(P) :- pick(P), X = #max { V : sel(P,V), pick(P) }.",
    "{ sel(P,V) } :- skill(P,V).\nok(P,X) :- person(P), X = #max { V : sel(P,V) }.\nok2(X) :- Y = #min { W : ok(_,W) }, X = Y.",
]


# ---------------------------------------------------------------- own generator: uses of the result

def gen_result_use(rng) -> str:
    """a chain-translatable aggregate whose result predicate is used in objectives / sums in many shapes"""
    fun = rng.choice(["#max", "#min"])
    lines = [rng.choice(["{ sel(P,V) } :- skill(P,V).", "{ sel(P,V) : skill(P,V) } :- person(P).",
                         "{ pick(P) } :- person(P). sel(P,V) :- skill(P,V), pick(P)."])]
    grouped = rng.random() < 0.8
    outer = rng.choice(["person(P), ", "person(P), ", "person(P), team(P,T), ", "person(P), not lazy(P), "]) if grouped else ""
    extra = rng.choice(["", "", "", ", foo(P,X)", ", aux(Z)", ", X > 0"]) if grouped else rng.choice(["", ", aux(Z)"])
    cond = "sel(P,V)" if grouped else "sel(_,V)"
    hargs = rng.choice([["P", "X"], ["P", "X"], ["X", "P"], ["P", "X", "X"], ["P", "T", "X"], ["P", "X", "1"], ["X"],
                        ["P", "f(X)"], ["P", "P", "X"]]) if grouped else rng.choice([["X"], ["X", "X"], ["X", "1"]])
    if "T" in hargs and "team" not in outer:
        outer += "team(P,T), "
    head = f"res({','.join(hargs)})"
    lines.append(f"{head} :- {outer}{rng.choice(['X = ', 'X = ', 'X = ', 'not X = ', '3 <= '])}{fun} {{ {rng.choice(['V', 'V', 'V,P', 'V*2'])} : {cond} }}{extra}.")
    if rng.random() < 0.15:
        lines.append(f"{head} :- {outer}X = 0, special(P)." if grouped else f"{head} :- X = 0.")
    use_args = list(hargs)
    if rng.random() < 0.2:
        use_args = [rng.choice(["Q", "1", "_", a]) if a != "X" else a for a in use_args]
    use = f"res({','.join(use_args)})"
    sgn = rng.choice(["", "", "", "", "not not ", "not "])
    for _ in range(rng.choice([1, 1, 2])):
        w = rng.choice(["X", "X", "X", "-X", "X+1", "2*X", "1"])
        tup = rng.choice(["P", "P", "P,T", "f(P)", "(P,1)", "P+1", "P-1", "1+P", "P+T", "P*2", "-P", "|P|", "", "Q", "1", "X"])
        more = rng.choice(["", "", "", ", person(P)", ", not lazy(P)", f", {use}", ", cost(P,C)", ", X > 2"])
        u = rng.random()
        if u < 0.3:
            prio = rng.choice(["", "", "@1", "@2", "@P"])
            lines.append(f"#{rng.choice(['minimize', 'minimize', 'maximize'])} {{ {w}{prio}{',' + tup if tup else ''} : {sgn}{use}{more} }}.")
        elif u < 0.5:
            lines.append(f":~ {sgn}{use}{more}. [{w}@{rng.choice(['1', '2'])}{',' + tup if tup else ''}]")
        elif u < 0.9:
            f = rng.choice(["#sum", "#sum", "#sum+"])
            el = f"{w}{',' + tup if tup else ''} : {sgn}{use}{more}"
            if rng.random() < 0.3:
                el += "; " + rng.choice(["1,a : extra", "Y,Q : cost(Q,Y)", "X,P : other(P,X)", el, "3"])
            g = rng.choice(["S = ", "S = ", "2 < ", "not 5 >= "])
            lines.append(f"tot({'S' if g == 'S = ' else '1'}) :- {g}{f} {{ {el} }}{rng.choice(['', '', ', person(P)'])}.")
        else:
            lines.append(f"big(P) :- {use}, X > 3.")
    if rng.random() < 0.25:
        lines.append(rng.choice(["#minimize { Y,Q : cost(Q,Y) }.", "#minimize { Y@2,Q : cost(Q,Y) }.", ":~ cost(Q,Y). [Y@1,Q,Q]",
                                 "#maximize { Y,(Q,1) : cost(Q,Y) }.", "#minimize { 1,a : extra }."]))
    if rng.random() < 0.3:
        rng.shuffle(lines)
    return "\n".join(lines)


def gen_weak(rng) -> str:
    """min/max aggregates directly in weak constraints (`_store_aggregate_for_minimize`)"""
    fun = rng.choice(["#max", "#min"])
    lines = ["{ sel(P,V) } :- skill(P,V)."]
    g = rng.choice(["X = ", "X = ", "X = ", "3 < ", "not 3 > ", "X <= "])
    body = f"person(P), {g}{fun} {{ {rng.choice(['V', 'V,P'])} : sel(P,V) }}{rng.choice(['', '', ', val(X)', ', aux(Z)', ', foo(P,Z)'])}"
    w = rng.choice(["X", "X", "-X", "1", "X+1", "Z"])
    tup = rng.choice(["P", "P", "", "P,Z", "f(P)", "X"])
    lines.append(f":~ {body}. [{w}@{rng.choice(['1', 'P', 'X'])}{',' + tup if tup else ''}]")
    if rng.random() < 0.3:
        lines.append(rng.choice([":~ cost(Q,Y). [Y@1,Q]", "#minimize { Y,Q : cost(Q,Y) }.", lines[-1]]))
    return "\n".join(lines)


# ---------------------------------------------------------------- real side

def minmax_val(mma):
    res = []
    for fn, tm, idx in mma._minmax_preds:  # pylint: disable=protected-access
        res.append([ser.AGG[fn], [("s", tm.oldpred.name), str(tm.oldpred.arity)], [("s", tm.newpred.name), str(tm.newpred.arity)],
                    ["none" if i is None else str(i) for i in tm.mapping], str(idx)])
    return res


def real_run(prg, inputs):
    """-> (first loop result | ERROR, execute result | ERROR, _minmax_preds | ERROR, branch counts)"""
    counts = {"rules with a min/max aggregate": 0, "simple": 0, "chain: translated": 0, "chain: untouched (several elements)": 0,
              "chain: untouched (no domain)": 0, "untouched (static / no guard)": 0,
              "stage 2: objectives replaced": 0, "stage 2: sum elements replaced": 0, "stage 2: _minmax_preds entries": 0}
    for s in prg:
        if s.ast_type in (ASTType.Rule, ASTType.Minimize):
            if any(b.ast_type == ASTType.Literal and b.atom.ast_type == ASTType.BodyAggregate
                   and b.atom.function in (AggregateFunction.Max, AggregateFunction.Min) for b in s.body):
                counts["rules with a min/max aggregate"] += 1
    try:
        mma = MinMaxAggregator(prg, inputs)
    except Exception as e:  # pylint: disable=broad-except
        counts["exc: constructor: " + type(e).__name__] = 1
        return ERROR, ERROR, ERROR, counts, "constructor raises"
    rec = {}
    orig_x = mma._replace_results_in_x  # pylint: disable=protected-access
    orig_simple = mma._simple_translation  # pylint: disable=protected-access
    orig_chain = mma._chain_translation  # pylint: disable=protected-access

    def wrap_x(p, m):
        rec["first"] = [ser.parse_sexp(ser.stm(x)) for x in p]
        rec["mm"] = minmax_val(mma)
        return orig_x(p, m)

    def wrap_simple(rule, agg):
        counts["simple"] += 1
        return orig_simple(rule, agg)

    def wrap_chain(rule, agg):
        several = len(agg.atom.elements) > 1
        r = orig_chain(rule, agg)
        if len(r) == 1 and several:
            counts["chain: untouched (several elements)"] += 1
        elif len(r) == 1:
            counts["chain: untouched (no domain)"] += 1
        else:
            counts["chain: translated"] += 1
        return r

    orig_repl = mma._create_replacement  # pylint: disable=protected-access

    def wrap_repl(minmaxpred, minimize, terms, oldmax, rest_cond, function, *rest, **kw):
        r = orig_repl(minmaxpred, minimize, terms, oldmax, rest_cond, function, *rest, **kw)
        if r and r[0].ast_type == ASTType.Minimize:
            counts["stage 2: objectives replaced"] += 1
        else:
            counts["stage 2: sum elements replaced"] += 1
        return r

    mma._create_replacement = wrap_repl  # pylint: disable=protected-access
    mma._replace_results_in_x = wrap_x  # pylint: disable=protected-access
    mma._simple_translation = wrap_simple  # pylint: disable=protected-access
    mma._chain_translation = wrap_chain  # pylint: disable=protected-access
    try:
        full = [ser.parse_sexp(ser.stm(x)) for x in mma.execute(prg)]
    except ser.Unsupported:
        raise
    except Exception as e:  # pylint: disable=broad-except
        full = ERROR
        counts[f"exc: {'second' if 'first' in rec else 'first'} loop: {type(e).__name__}: {str(e)[:40]}"] = 1
    first = rec.get("first", ERROR)
    mm = rec.get("mm", ERROR)
    if mm != ERROR:
        counts["stage 2: _minmax_preds entries"] = len(mm)
    if first != ERROR:
        counts["untouched (static / no guard)"] = (counts["rules with a min/max aggregate"] - counts["simple"]
                                                   - counts["chain: translated"] - counts["chain: untouched (several elements)"]
                                                   - counts["chain: untouched (no domain)"])
    tag = "first loop raises" if first == ERROR else ("second loop raises" if full == ERROR else "ok")
    return first, full, mm, counts, tag


# ---------------------------------------------------------------- model answers

def is_py_error(msg: str) -> bool:
    return msg.startswith("py:") or msg.startswith("assert")


def decode(op, ans):
    k = ans[0]
    if k == "unsupported":
        return None
    if k == "err":
        msg = ser._s(ans[1])  # pylint: disable=protected-access
        return ERROR if is_py_error(msg) else "MODEL-" + msg
    assert k == "ok", ans
    if op in ("minmax_rules", "minmax"):
        return list(ans[1])
    if op == "minmax_info":
        return list(ans[2])
    raise ValueError(op)


class Collector:
    def __init__(self):
        self.reqs: list[str] = []
        self.meta: list[tuple] = []
        self.unsupported = 0
        self.hist: dict[str, int] = {}

    def bump(self, key, n=1):
        self.hist[key] = self.hist.get(key, 0) + n


def all_preds(prg) -> set:
    res = set()
    for stm in prg:
        for sp in U.predicates(stm):
            res.add(sp.pred)
    return res


def program_cases(col: Collector, rng, text, prg, tag):
    unp = [y for x in prg for y in x.unpool(condition=True)]
    unpool_changed = [str(x) for x in unp] != [str(x) for x in prg]
    r = rng.random()
    if r < 0.45:
        inputs = []
    elif r < 0.65:
        inputs = auto_detect_input(prg)
    elif r < 0.85:
        inputs = [Predicate(n, a) for n, a in rng.sample(EVIL, 4)]
    else:
        inputs = [p for p in sorted(all_preds(prg)) if rng.random() < 0.3] + [Predicate("__dom___max_0_1", 1)]
    try:
        sp = ser.prog(prg)
        sin = ser.preds(inputs)
        orig = [ser.parse_sexp(ser.stm(x)) for x in prg]
        first, full, mm, counts, rtag = real_run(prg, inputs)  # mutates prg
    except ser.Unsupported:
        col.unsupported += 1
        col.bump("unsupported:ser")
        return
    nontrivial_first = first != ERROR and first != orig
    nontrivial_full = counts["stage 2: objectives replaced"] + counts["stage 2: sum elements replaced"] > 0
    for op, value, nontrivial in (("minmax_rules", first, nontrivial_first), ("minmax", full, nontrivial_full),
                                  ("minmax_info", mm, mm != ERROR and bool(mm))):
        col.reqs.append(f"({op} {sp} {sin})")
        col.meta.append((op, text, value, nontrivial, f"{op}:{tag}:{rtag}", unpool_changed, counts if op == "minmax_rules" else None))


def text_cases(col: Collector, rng, label, text):
    prg = corpus.parses(text)
    if prg is None:
        col.bump("skip:unparsable")
        return
    try:
        pre = preprocess(prg)
    except Exception:  # pylint: disable=broad-except
        col.bump("skip:preprocess raised")
        pre = None
    if pre is not None:
        program_cases(col, rng, text, pre, "pre")
    if rng.random() < 0.15:
        program_cases(col, rng, text, corpus.parses(text), "raw")


def make_texts(rng, n_gen, corpus_limit=None):
    harvested = corpus.harvest()
    texts = [(f"corpus:{o}", t) for o, t in harvested]
    if corpus_limit is not None and len(texts) > corpus_limit:
        texts = rng.sample(texts, corpus_limit)
    texts += [("tests", t) for t in TEST_PROGRAMS]
    # the `all key variables are used in the tuple' test (issue #8) against every shape of tuple term, always present
    for tup in ("P", "P+1", "P-1", "1+P", "P*2", "-P", "|P|", "f(P)", "(P,1)", "P+Q", "P,Q", "Q"):
        texts.append(("keys", "{ sel(P,Q,V) } :- skill(P,Q,V). res(P,Q,X) :- slot(P,Q), X = #max { V : sel(P,Q,V) }. "
                              f"tot(S) :- S = #sum {{ X,{tup} : res(P,Q,X) }}. #minimize {{ X,{tup} : res(P,Q,X) }}."))
        texts.append(("keys", "{ sel(P,V) } :- skill(P,V). res(P,X) :- person(P), X = #min { V : sel(P,V) }. "
                              f"tot(S) :- S = #sum {{ X,{tup.replace('Q', 'P')} : res(P,X) }}."))
    minmax_corpus = [t for o, t in harvested if o == "minmax_aggregates"] or [t for _, t in harvested]
    for i in range(n_gen):
        r = rng.random()
        if r < 0.08:
            texts.append((f"gen:{i}", gen.random_program(rng)))
        elif r < 0.2:
            base = rng.choice(harvested)[1] if rng.random() < 0.5 else gen.random_program(rng)
            for _ in range(rng.choice([1, 1, 2, 3])):
                base = gen.mutate(rng, base)
            texts.append((f"mut:{i}", base))
        elif r < 0.32:
            base = rng.choice(minmax_corpus)
            for _ in range(rng.choice([1, 1, 2, 3])):
                base = gen.mutate(rng, base)
            texts.append((f"mmcorpusmut:{i}", base))
        elif r < 0.55:
            texts.append((f"tgen:{i}", tgen.gen_minmax(rng)))
        elif r < 0.75:
            texts.append((f"use:{i}", gen_result_use(rng)))
        elif r < 0.8:
            texts.append((f"weak:{i}", gen_weak(rng)))
        elif r < 0.84:
            texts.append((f"layered:{i}", gen.layered_program(rng)))
        else:
            base = rng.choice([tgen.gen_minmax, gen_result_use, gen_result_use, gen_weak])(rng) if rng.random() < 0.8 \
                else rng.choice(TEST_PROGRAMS)
            for _ in range(rng.choice([1, 1, 2])):
                base = gen.mutate(rng, base)
            texts.append((f"genmut:{i}", base))
    return texts


def evaluate(col: Collector, answers) -> dict:
    res = {"evaluations": 0, "nontrivial": 0, "mismatches": [], "unsupported": col.unsupported,
           "histogram": col.hist}
    for (op, text, value, nontrivial, branch, unpool_changed, counts), ans, req in zip(col.meta, answers, col.reqs):
        model = decode(op, ans)
        if model is None:
            res["unsupported"] += 1
            col.bump("unsupported:lean:" + ser._s(ans[1])[:40])  # pylint: disable=protected-access
            continue
        res["evaluations"] += 1
        col.bump("op:" + op)
        if ans[0] == "err" and op == "minmax":
            col.bump("model err: " + ser._s(ans[1])[:60])  # pylint: disable=protected-access
        col.bump(branch)
        if counts is not None:
            for k, v in counts.items():
                col.bump("branch: " + k, v)
        if nontrivial:
            res["nontrivial"] += 1
            col.bump("nontrivial:" + op)
        if unpool_changed:
            res["mismatches"].append({"op": op + ":unpool is not the identity", "program": text, "impl": value,
                                      "model": model, "request": req})
        elif model != value:
            res["mismatches"].append({"op": op, "program": text, "impl": value, "model": model, "request": req})
    return res


def _work(items, chunk=3000) -> dict:
    """items: list of (label, text, seed of the private rng of this text)"""
    col = Collector()
    for label, text, seed in items:
        text_cases(col, random.Random(seed), label, text)
    answers = []
    for i in range(0, len(col.reqs), chunk):
        answers.extend(leanio.run_batch(col.reqs[i:i + chunk], timeout=7200))
    return evaluate(col, answers)


def merge(results) -> dict:
    total = {"evaluations": 0, "nontrivial": 0, "mismatches": [], "unsupported": 0, "histogram": {}}
    for r in results:
        for k in ("evaluations", "nontrivial", "unsupported"):
            total[k] += r[k]
        total["mismatches"].extend(r["mismatches"])
        for k, v in r["histogram"].items():
            total["histogram"][k] = total["histogram"].get(k, 0) + v
    return total


def run(rng, n_gen, corpus_limit=None, workers=None) -> dict:
    """every random choice derives from `rng`: the texts, then one private seed per text (so the work can be
    spread over `workers` processes, env WORKERS, without changing the cases)"""
    workers = workers if workers is not None else int(os.environ.get("WORKERS", "8"))
    items = [(label, text, rng.getrandbits(64)) for label, text in make_texts(rng, n_gen, corpus_limit)]
    size = 40
    chunks = [items[i:i + size] for i in range(0, len(items), size)]
    if workers > 1 and len(chunks) > 1:
        import multiprocessing
        with multiprocessing.Pool(workers) as pool:
            results = pool.map(_work, chunks, chunksize=1)
    else:
        results = [_work(c) for c in chunks]
    return merge(results)


def show_sexp(x) -> str:
    if isinstance(x, tuple):
        return ser.q(x[1])
    if isinstance(x, list):
        return "(" + " ".join(show_sexp(y) for y in x) + ")"
    return str(x)


def show_prog(val) -> str:
    if val == ERROR or isinstance(val, str):
        return str(val)
    try:
        return " ".join(str(ser.r_stm(s)) for s in val)
    except Exception:  # pylint: disable=broad-except
        return show_sexp(val)


def main():
    n_gen = int(os.environ.get("N_GEN", "2000"))
    seeds = [int(s) for s in os.environ.get("SEEDS", "0,1,2").split(",")]
    limit = os.environ.get("CORPUS_LIMIT")
    results = [run(random.Random(seed), n_gen, corpus_limit=int(limit) if limit is not None else None) for seed in seeds]
    for seed, r in zip(seeds, results):
        print(f"seed {seed}: evaluations={r['evaluations']} nontrivial={r['nontrivial']} "
              f"mismatches={len(r['mismatches'])} unsupported={r['unsupported']}", flush=True)
    total = merge(results)
    print(f"TOTAL: evaluations={total['evaluations']} nontrivial={total['nontrivial']} "
          f"mismatches={len(total['mismatches'])} unsupported={total['unsupported']}")
    for k in sorted(total["histogram"]):
        print(f"  {k:60s} {total['histogram'][k]}")
    for m in total["mismatches"][:int(os.environ.get("SHOW", "8"))]:
        print("MISMATCH", m["op"])
        print("  program:", m["program"].replace("\n", " ")[:600])
        if m["op"] == "minmax_info":
            print("  impl   :", show_sexp(m["impl"])[:1500])
            print("  model  :", show_sexp(m["model"])[:1500])
        else:
            print("  impl   :", show_prog(m["impl"])[:2500])
            print("  model  :", show_prog(m["model"])[:2500])
    return 1 if total["mismatches"] else 0


if __name__ == "__main__":
    sys.exit(main())
