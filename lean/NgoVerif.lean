import NgoVerif.Sexp
import NgoVerif.Syntax
import NgoVerif.Generated.Tables
import NgoVerif.Model.Collect
import NgoVerif.Model.Globals
import NgoVerif.Model.Options
import NgoVerif.Driver
import NgoVerif.Props.C18
