import NgoVerif.Driver
def main : IO Unit := NgoVerif.driverMain
