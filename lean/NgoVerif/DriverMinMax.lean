import NgoVerif.Sexp
import NgoVerif.Syntax
import NgoVerif.Model.MinMax
import NgoVerif.DriverDependency
/-!
# Driver ops for `ngo/minmax_aggregates.py` (class `MinMaxAggregator`)

`<prog>` is the (preprocessed) program, `(<inputs>…)` the input predicates; the object is
`MinMaxAggregator(prog, inputs)`.  Programs with theory atoms or pools are `(unsupported …)`.
A Python exception (in the constructor or in `execute`) is `(err "py: …")` / `(err "assert: …")`.

* `(minmax_rules <prog> (<inputs>…))` → `(ok <prog>)`: `ret` after the first loop of `execute(prog)`, i.e. the
  argument of `_replace_results_in_x`
* `(minmax <prog> (<inputs>…))` → `(ok <prog>)`: `execute(prog)`
* `(minmax_info <prog> (<inputs>…))` → `(ok ("branch"…) (<minmax pred>…))`: the branch `_process_rule` takes for
  every statement (decided on the state of the object before the first loop; for the histogram only) and
  `_minmax_preds` after the first loop as `(fn ("old" arity) ("new" arity) (mapping…) idx)`, a hole of the mapping
  is `none`
-/
namespace NgoVerif
open Sexp

namespace MinMax

def runWith (p : Sexp) (ins : List Sexp) (k : Prog → State → Sexp) : Sexp :=
  Dep.withObject p ins fun prg _ st => k prg ⟨st, [], (ins.filterMap Pred.ofSexp)⟩

def mmToSexp (m : MMPred) : Sexp :=
  .list [m.fn.toSexp, m.tm.oldpred.toSexp, m.tm.newpred.toSexp,
         .list (m.tm.mapping.map fun x => match x with | some i => ofNat i | none => .atom "none"), ofNat m.idx]

end MinMax

open MinMax in
def handleMinMax : Sexp → Option Sexp
  | .list [.atom "minmax_rules", p, .list ins] => some <|
    runWith p ins fun prg s =>
      match (firstLoop prg prg).run s with
      | .ok (ret, _) => Dep.okS [Prog.toSexp ret]
      | .error e => Dep.errAnswer e
  | .list [.atom "minmax", p, .list ins] => some <|
    runWith p ins fun prg s =>
      match (execute prg).run s with
      | .ok (ret, _) => Dep.okS [Prog.toSexp ret]
      | .error e => Dep.errAnswer e
  | .list [.atom "minmax_info", p, .list ins] => some <|
    runWith p ins fun prg s =>
      match (firstLoop prg prg).run s with
      | .ok (_, s') => Dep.okS [.list (prg.map fun stm => Sexp.str (branchOf s.dom stm)), .list (s'.mm.map mmToSexp)]
      | .error e => Dep.errAnswer e
  | _ => none

end NgoVerif
