import NgoVerif.Sexp
/-!
# A typed mirror of the `clingo.ast` fragment that ngo manipulates

Field order and constructor names follow `clingo.ast`; only the location data that ngo actually reads
(`begin.line`/`begin.column` of rules, objectives and body aggregates) is kept.
Everything outside the fragment is `opaque` and is never silently compared.
-/
namespace NgoVerif

/-- `clingo.Symbol` -/
inductive Sym where
  | num (n : Int)
  | str (s : String)
  | fn (name : String) (args : List Sym) (pos : Bool)
  | inf
  | sup
  deriving Repr, BEq, Ord, Inhabited

inductive UnOp where | minus | neg | abs
  deriving Repr, BEq, ReflBEq, LawfulBEq, DecidableEq, Ord, Inhabited
inductive BinOp where | xor | or | and | plus | minus | mul | div | mod | pow
  deriving Repr, BEq, ReflBEq, LawfulBEq, DecidableEq, Ord, Inhabited

/-- terms (`Variable`, `SymbolicTerm`, `UnaryOperation`, `BinaryOperation`, `Interval`, `Function`, `Pool`) -/
inductive Term where
  | var (n : String)
  | sym (s : Sym)
  | un (op : UnOp) (a : Term)
  | bin (op : BinOp) (l r : Term)
  | ival (l r : Term)
  | fn (name : String) (args : List Term) (ext : Bool)
  | pool (args : List Term)
  deriving Repr, BEq, Ord, Inhabited

/-- `clingo.ast.ComparisonOperator`, declared in the order of its integer values (used by AST `<`). -/
inductive CmpOp where | gt | lt | le | ge | ne | eq
  deriving Repr, BEq, ReflBEq, LawfulBEq, DecidableEq, Ord, Inhabited

inductive Sign where | pos | neg | dneg
  deriving Repr, BEq, ReflBEq, LawfulBEq, DecidableEq, Ord, Inhabited

inductive AggFun where | count | sum | sump | min | max
  deriving Repr, BEq, ReflBEq, LawfulBEq, DecidableEq, Ord, Inhabited

structure Guard where
  op : CmpOp
  term : Term
  deriving Repr, BEq, Ord, Inhabited

/-- atoms and literals; conditions are lists of literals -/
inductive Atom where
  | sym (t : Term)
  | cmp (t : Term) (guards : List Guard)
  | bool (b : Bool)
  | bagg (line col : Nat) (lg : Option Guard) (f : AggFun)
      (elems : List (List Term × List (Sign × Atom))) (rg : Option Guard)
  | agg (lg : Option Guard) (elems : List ((Sign × Atom) × List (Sign × Atom))) (rg : Option Guard)
  | theory (text : String)
  deriving Repr, BEq, Inhabited

abbrev Lit := Sign × Atom
abbrev CondLit := Lit × List Lit
abbrev BAggElem := List Term × List Lit

/-- body literal: a literal or a conditional literal -/
inductive BLit where
  | lit (l : Lit)
  | clit (c : CondLit)
  deriving Repr, BEq, Inhabited

inductive Head where
  | lit (l : Lit)
  | disj (elems : List CondLit)
  | agg (lg : Option Guard) (elems : List CondLit) (rg : Option Guard)
  | hagg (lg : Option Guard) (f : AggFun) (elems : List (List Term × CondLit)) (rg : Option Guard)
  | theory (text : String)
  deriving Repr, BEq, Inhabited

inductive Stm where
  | rule (line col : Nat) (head : Head) (body : List BLit)
  | minimize (line col : Nat) (weight prio : Term) (terms : List Term) (body : List BLit)
  | showSig (name : String) (arity : Nat) (positive : Bool)
  | showTerm (t : Term) (body : List BLit)
  | defn (name : String) (value : Term) (isDefault : Bool)
  | program (name : String) (params : List String)
  | external (atom : Term) (body : List BLit) (ty : Term)
  | opaque (kind : String) (text : String)
  deriving Repr, BEq, Inhabited

abbrev Prog := List Stm

/-- predicate signature -/
structure Pred where
  name : String
  arity : Nat
  deriving Repr, BEq, ReflBEq, LawfulBEq, DecidableEq, Hashable, Inhabited

instance : Ord Pred := ⟨fun a b => (compare a.name b.name).then (compare a.arity b.arity)⟩

structure SPred where
  sign : Sign
  pred : Pred
  deriving Repr, BEq, ReflBEq, LawfulBEq, DecidableEq, Inhabited

/-! ## s-expression codec -/
open Sexp

section encode

def UnOp.toSexp : UnOp → Sexp
  | .minus => .atom "minus" | .neg => .atom "neg" | .abs => .atom "abs"
def BinOp.toSexp : BinOp → Sexp
  | .xor => .atom "xor" | .or => .atom "or" | .and => .atom "and" | .plus => .atom "plus" | .minus => .atom "minus"
  | .mul => .atom "mul" | .div => .atom "div" | .mod => .atom "mod" | .pow => .atom "pow"
def CmpOp.toSexp : CmpOp → Sexp
  | .gt => .atom "gt" | .lt => .atom "lt" | .le => .atom "le" | .ge => .atom "ge" | .ne => .atom "ne" | .eq => .atom "eq"
def Sign.toSexp : Sign → Sexp
  | .pos => .atom "0" | .neg => .atom "1" | .dneg => .atom "2"
def AggFun.toSexp : AggFun → Sexp
  | .count => .atom "count" | .sum => .atom "sum" | .sump => .atom "sump" | .min => .atom "min" | .max => .atom "max"

mutual
def Sym.toSexp : Sym → Sexp
  | .num n => .list [.atom "num", ofInt n]
  | .str s => .list [.atom "str", .str s]
  | .fn name args pos => .list [.atom "fun", .str name, .list (Sym.listToSexp args), ofBool pos]
  | .inf => .list [.atom "inf"]
  | .sup => .list [.atom "sup"]
def Sym.listToSexp : List Sym → List Sexp
  | [] => []
  | x :: xs => x.toSexp :: Sym.listToSexp xs
end

mutual
def Term.toSexp : Term → Sexp
  | .var n => .list [.atom "var", .str n]
  | .sym s => .list [.atom "sym", s.toSexp]
  | .un op a => .list [.atom "un", op.toSexp, a.toSexp]
  | .bin op l r => .list [.atom "bin", op.toSexp, l.toSexp, r.toSexp]
  | .ival l r => .list [.atom "ival", l.toSexp, r.toSexp]
  | .fn name args ext => .list [.atom "fn", .str name, .list (Term.listToSexp args), ofBool ext]
  | .pool args => .list [.atom "pool", .list (Term.listToSexp args)]
def Term.listToSexp : List Term → List Sexp
  | [] => []
  | x :: xs => x.toSexp :: Term.listToSexp xs
end

def Guard.toSexp (g : Guard) : Sexp := .list [.atom "g", g.op.toSexp, g.term.toSexp]
def optGuardToSexp : Option Guard → Sexp
  | none => .list [.atom "none"]
  | some g => g.toSexp

mutual
def Atom.toSexp : Atom → Sexp
  | .sym t => .list [.atom "satom", t.toSexp]
  | .cmp t gs => .list [.atom "cmp", t.toSexp, .list (gs.map fun g => .list [g.op.toSexp, g.term.toSexp])]
  | .bool b => .list [.atom "bool", ofBool b]
  | .bagg line col lg f elems rg =>
      .list [.atom "bagg", ofNat line, ofNat col, optGuardToSexp lg, f.toSexp, .list (bElemsToSexp elems), optGuardToSexp rg]
  | .agg lg elems rg => .list [.atom "agg", optGuardToSexp lg, .list (cElemsToSexp elems), optGuardToSexp rg]
  | .theory t => .list [.atom "theory", .str t]
def litToSexp : Sign × Atom → Sexp
  | (s, a) => .list [.atom "lit", s.toSexp, a.toSexp]
def litsToSexp : List (Sign × Atom) → List Sexp
  | [] => []
  | l :: ls => litToSexp l :: litsToSexp ls
def bElemsToSexp : List (List Term × List (Sign × Atom)) → List Sexp
  | [] => []
  | (ts, c) :: es => .list [.list (Term.listToSexp ts), .list (litsToSexp c)] :: bElemsToSexp es
def cElemsToSexp : List ((Sign × Atom) × List (Sign × Atom)) → List Sexp
  | [] => []
  | (l, c) :: es => .list [.atom "clit", litToSexp l, .list (litsToSexp c)] :: cElemsToSexp es
end

def condLitToSexp (c : CondLit) : Sexp := .list [.atom "clit", litToSexp c.1, .list (litsToSexp c.2)]

def BLit.toSexp : BLit → Sexp
  | .lit l => litToSexp l
  | .clit c => condLitToSexp c

def Head.toSexp : Head → Sexp
  | .lit l => litToSexp l
  | .disj es => .list [.atom "disj", .list (es.map condLitToSexp)]
  | .agg lg es rg => .list [.atom "agg", optGuardToSexp lg, .list (es.map condLitToSexp), optGuardToSexp rg]
  | .hagg lg f es rg =>
      .list [.atom "hagg", optGuardToSexp lg, f.toSexp,
        .list (es.map fun e => .list [.list (Term.listToSexp e.1), condLitToSexp e.2]), optGuardToSexp rg]
  | .theory t => .list [.atom "theory", .str t]

def Stm.toSexp : Stm → Sexp
  | .rule l c h b => .list [.atom "rule", ofNat l, ofNat c, h.toSexp, .list (b.map BLit.toSexp)]
  | .minimize l c w p ts b =>
      .list [.atom "min", ofNat l, ofNat c, w.toSexp, p.toSexp, .list (Term.listToSexp ts), .list (b.map BLit.toSexp)]
  | .showSig n a p => .list [.atom "showsig", .str n, ofNat a, ofBool p]
  | .showTerm t b => .list [.atom "showterm", t.toSexp, .list (b.map BLit.toSexp)]
  | .defn n v d => .list [.atom "def", .str n, v.toSexp, ofBool d]
  | .program n ps => .list [.atom "program", .str n, .list (ps.map Sexp.str)]
  | .external a b t => .list [.atom "external", a.toSexp, .list (b.map BLit.toSexp), t.toSexp]
  | .opaque k t => .list [.atom "opaque", .str k, .str t]

def Prog.toSexp (p : Prog) : Sexp := .list (p.map Stm.toSexp)
def Pred.toSexp (p : Pred) : Sexp := .list [.str p.name, ofNat p.arity]

end encode

section decode

def UnOp.ofSexp : Sexp → Option UnOp
  | .atom "minus" => some .minus | .atom "neg" => some .neg | .atom "abs" => some .abs | _ => none
def BinOp.ofSexp : Sexp → Option BinOp
  | .atom "xor" => some .xor | .atom "or" => some .or | .atom "and" => some .and | .atom "plus" => some .plus
  | .atom "minus" => some .minus | .atom "mul" => some .mul | .atom "div" => some .div | .atom "mod" => some .mod
  | .atom "pow" => some .pow | _ => none
def CmpOp.ofSexp : Sexp → Option CmpOp
  | .atom "gt" => some .gt | .atom "lt" => some .lt | .atom "le" => some .le | .atom "ge" => some .ge
  | .atom "ne" => some .ne | .atom "eq" => some .eq | _ => none
def Sign.ofSexp : Sexp → Option Sign
  | .atom "0" => some .pos | .atom "1" => some .neg | .atom "2" => some .dneg | _ => none
def AggFun.ofSexp : Sexp → Option AggFun
  | .atom "count" => some .count | .atom "sum" => some .sum | .atom "sump" => some .sump
  | .atom "min" => some .min | .atom "max" => some .max | _ => none

mutual
def Sym.ofSexp : Sexp → Option Sym
  | .list [.atom "num", n] => n.toInt?.map Sym.num
  | .list [.atom "str", .str s] => some (.str s)
  | .list [.atom "fun", .str name, .list args, pos] => do
      let as ← Sym.listOfSexp args
      let p ← pos.toBool?
      pure (.fn name as p)
  | .list [.atom "inf"] => some .inf
  | .list [.atom "sup"] => some .sup
  | _ => none
def Sym.listOfSexp : List Sexp → Option (List Sym)
  | [] => some []
  | x :: xs => do
      let a ← Sym.ofSexp x
      let as ← Sym.listOfSexp xs
      pure (a :: as)
end

mutual
def Term.ofSexp : Sexp → Option Term
  | .list [.atom "var", .str n] => some (.var n)
  | .list [.atom "sym", s] => (Sym.ofSexp s).map Term.sym
  | .list [.atom "un", op, a] => do
      let o ← UnOp.ofSexp op
      let x ← Term.ofSexp a
      pure (.un o x)
  | .list [.atom "bin", op, l, r] => do
      let o ← BinOp.ofSexp op
      let x ← Term.ofSexp l
      let y ← Term.ofSexp r
      pure (.bin o x y)
  | .list [.atom "ival", l, r] => do
      let x ← Term.ofSexp l
      let y ← Term.ofSexp r
      pure (.ival x y)
  | .list [.atom "fn", .str name, .list args, ext] => do
      let as ← Term.listOfSexp args
      let e ← ext.toBool?
      pure (.fn name as e)
  | .list [.atom "pool", .list args] => do
      let as ← Term.listOfSexp args
      pure (.pool as)
  | _ => none
def Term.listOfSexp : List Sexp → Option (List Term)
  | [] => some []
  | x :: xs => do
      let a ← Term.ofSexp x
      let as ← Term.listOfSexp xs
      pure (a :: as)
end

def optGuardOfSexp : Sexp → Option (Option Guard)
  | .list [.atom "none"] => some none
  | .list [.atom "g", op, t] => do
      let o ← CmpOp.ofSexp op
      let x ← Term.ofSexp t
      pure (some ⟨o, x⟩)
  | _ => none

def guardsOfSexp : List Sexp → Option (List Guard)
  | [] => some []
  | .list [op, t] :: rest => do
      let o ← CmpOp.ofSexp op
      let x ← Term.ofSexp t
      let gs ← guardsOfSexp rest
      pure (⟨o, x⟩ :: gs)
  | _ => none

mutual
def Atom.ofSexp : Sexp → Option Atom
  | .list [.atom "satom", t] => (Term.ofSexp t).map Atom.sym
  | .list [.atom "cmp", t, .list gs] => do
      let x ← Term.ofSexp t
      let g ← guardsOfSexp gs
      pure (.cmp x g)
  | .list [.atom "bool", b] => b.toBool?.map Atom.bool
  | .list [.atom "bagg", l, c, lg, f, .list es, rg] => do
      let l' ← l.toNat?
      let c' ← c.toNat?
      let lg' ← optGuardOfSexp lg
      let f' ← AggFun.ofSexp f
      let es' ← bElemsOfSexp es
      let rg' ← optGuardOfSexp rg
      pure (.bagg l' c' lg' f' es' rg')
  | .list [.atom "agg", lg, .list es, rg] => do
      let lg' ← optGuardOfSexp lg
      let es' ← cElemsOfSexp es
      let rg' ← optGuardOfSexp rg
      pure (.agg lg' es' rg')
  | .list [.atom "theory", .str t] => some (.theory t)
  | _ => none
def litOfSexp : Sexp → Option (Sign × Atom)
  | .list [.atom "lit", s, a] => do
      let s' ← Sign.ofSexp s
      let a' ← Atom.ofSexp a
      pure (s', a')
  | _ => none
def litsOfSexp : List Sexp → Option (List (Sign × Atom))
  | [] => some []
  | x :: xs => do
      let a ← litOfSexp x
      let as ← litsOfSexp xs
      pure (a :: as)
def bElemsOfSexp : List Sexp → Option (List (List Term × List (Sign × Atom)))
  | [] => some []
  | .list [.list ts, .list c] :: es => do
      let ts' ← Term.listOfSexp ts
      let c' ← litsOfSexp c
      let es' ← bElemsOfSexp es
      pure ((ts', c') :: es')
  | _ => none
def cElemsOfSexp : List Sexp → Option (List ((Sign × Atom) × List (Sign × Atom)))
  | [] => some []
  | .list [.atom "clit", l, .list c] :: es => do
      let l' ← litOfSexp l
      let c' ← litsOfSexp c
      let es' ← cElemsOfSexp es
      pure ((l', c') :: es')
  | _ => none
end

def condLitOfSexp : Sexp → Option CondLit
  | .list [.atom "clit", l, .list c] => do
      let l' ← litOfSexp l
      let c' ← litsOfSexp c
      pure (l', c')
  | _ => none

def BLit.ofSexp (s : Sexp) : Option BLit :=
  match s with
  | .list (.atom "lit" :: _) => (litOfSexp s).map BLit.lit
  | .list (.atom "clit" :: _) => (condLitOfSexp s).map BLit.clit
  | _ => none

def Head.ofSexp (s : Sexp) : Option Head :=
  match s with
  | .list (.atom "lit" :: _) => (litOfSexp s).map Head.lit
  | .list [.atom "disj", .list es] => (es.mapM condLitOfSexp).map Head.disj
  | .list [.atom "agg", lg, .list es, rg] => do
      let lg' ← optGuardOfSexp lg
      let es' ← es.mapM condLitOfSexp
      let rg' ← optGuardOfSexp rg
      pure (.agg lg' es' rg')
  | .list [.atom "hagg", lg, f, .list es, rg] => do
      let lg' ← optGuardOfSexp lg
      let f' ← AggFun.ofSexp f
      let es' ← es.mapM fun e => match e with
        | .list [.list ts, c] => do
            let ts' ← Term.listOfSexp ts
            let c' ← condLitOfSexp c
            pure (ts', c')
        | _ => none
      let rg' ← optGuardOfSexp rg
      pure (.hagg lg' f' es' rg')
  | .list [.atom "theory", .str t] => some (.theory t)
  | _ => none

def Stm.ofSexp : Sexp → Option Stm
  | .list [.atom "rule", l, c, h, .list b] => do
      let l' ← l.toNat?
      let c' ← c.toNat?
      let h' ← Head.ofSexp h
      let b' ← b.mapM BLit.ofSexp
      pure (.rule l' c' h' b')
  | .list [.atom "min", l, c, w, p, .list ts, .list b] => do
      let l' ← l.toNat?
      let c' ← c.toNat?
      let w' ← Term.ofSexp w
      let p' ← Term.ofSexp p
      let ts' ← Term.listOfSexp ts
      let b' ← b.mapM BLit.ofSexp
      pure (.minimize l' c' w' p' ts' b')
  | .list [.atom "showsig", .str n, a, p] => do
      let a' ← a.toNat?
      let p' ← p.toBool?
      pure (.showSig n a' p')
  | .list [.atom "showterm", t, .list b] => do
      let t' ← Term.ofSexp t
      let b' ← b.mapM BLit.ofSexp
      pure (.showTerm t' b')
  | .list [.atom "def", .str n, v, d] => do
      let v' ← Term.ofSexp v
      let d' ← d.toBool?
      pure (.defn n v' d')
  | .list [.atom "program", .str n, .list ps] => do
      let ps' ← ps.mapM Sexp.toString?
      pure (.program n ps')
  | .list [.atom "external", a, .list b, t] => do
      let a' ← Term.ofSexp a
      let b' ← b.mapM BLit.ofSexp
      let t' ← Term.ofSexp t
      pure (.external a' b' t')
  | .list [.atom "opaque", .str k, .str t] => some (.opaque k t)
  | _ => none

def Prog.ofSexp : Sexp → Option Prog
  | .list xs => xs.mapM Stm.ofSexp
  | _ => none

def Pred.ofSexp : Sexp → Option Pred
  | .list [.str n, a] => a.toNat?.map fun k => ⟨n, k⟩
  | _ => none

end decode

end NgoVerif
