import NgoVerif.Sexp
import NgoVerif.Syntax
import NgoVerif.Model.Collect
import NgoVerif.Model.Globals
import NgoVerif.Model.Options
import NgoVerif.Model.Api
import NgoVerif.Model.Order
import NgoVerif.DriverCleanup
import NgoVerif.DriverBinding
import NgoVerif.DriverNormalize
import NgoVerif.DriverSumAgg
import NgoVerif.DriverDependency
import NgoVerif.DriverUnused
import NgoVerif.DriverMinMax
import NgoVerif.DriverSymmetry
import NgoVerif.DriverDuplication
import NgoVerif.DriverSumRewrite
import NgoVerif.DriverMathSimp
import NgoVerif.DriverSem
import NgoVerif.DriverInline
/-!
# Line-protocol driver: one s-expression request per line on stdin, one s-expression answer per line on stdout.

`(ok …)` – the model's result; `(unsupported "why")` – the request is outside the modelled fragment (never
compared); `(err "what")` – the model reached a Python `assert`/exception branch.
-/
namespace NgoVerif
open Sexp

def predsToSexp (ps : List Pred) : Sexp := .list (ps.map Pred.toSexp)
def strsToSexp (ss : List String) : Sexp := .list (ss.map Sexp.str)
def ok (xs : List Sexp) : Sexp := .list (.atom "ok" :: xs)
def unsupported (why : String) : Sexp := .list [.atom "unsupported", .str why]
def errS (what : String) : Sexp := .list [.atom "err", .str what]

def spredsToSexp (ps : List SPred) : Sexp := .list (ps.map fun p => .list [p.sign.toSexp, p.pred.toSexp])

def termKind? : String → Option (Term → Bool)
  | "Variable" => some Term.isVar
  | "Function" => some Term.isFn
  | "Interval" => some Term.isIval
  | "UnaryOperation" => some Term.isUn
  | "BinaryOperation" => some Term.isBin
  | "Pool" => some Term.isPool
  | _ => none

def runUniqueNames (s : UniqueNames) : List Sexp → List Pred → Option (List Pred)
  | [], acc => some acc.reverse
  | .list [.atom "aux", n] :: rest, acc => do
      let k ← n.toNat?
      let (p, s') ← s.newAux k
      runUniqueNames s' rest (p :: acc)
  | .list [.atom "pred", .str sim, n] :: rest, acc => do
      let k ← n.toNat?
      let (p, s') ← s.newPred sim k
      runUniqueNames s' rest (p :: acc)
  | _, _ => none

def runMakeUnique (u : UniqueVars) : List Sexp → List String → Option (List String)
  | [], acc => some acc.reverse
  | .str v :: rest, acc => do
      let (r, u') ← u.makeUnique v
      runMakeUnique u' rest (r :: acc)
  | _, _ => none

/-- handlers contributed by the per-pass driver files; tried in order -/
def extHandlers : List (Sexp → Option Sexp) := [handleCleanup, handleBinding, handleNormalize, handleSumAgg, handleDependency, handleUnused, handleMinMax, handleSymmetry, handleDuplication, handleSumRewrite, handleMathSimp, handleSem, handleInline]

def tryExt (req : Sexp) : List (Sexp → Option Sexp) → Sexp
  | [] => unsupported "unknown op"
  | h :: hs => match h req with
    | some r => r
    | none => tryExt req hs

def handle (req : Sexp) : Sexp :=
  match req with
  | .list [.atom "echo", p] =>
    match Prog.ofSexp p with
    | some prg => ok [prg.toSexp]
    | none => unsupported "program"
  | .list [.atom "detect_in", p] =>
    match Prog.ofSexp p with
    | some prg => let (a, b) := autoDetectInputParts prg; ok [predsToSexp a, predsToSexp b]
    | none => unsupported "program"
  | .list [.atom "detect_out", p] =>
    match Prog.ofSexp p with
    | some prg => ok [predsToSexp (autoDetectOutput prg)]
    | none => unsupported "program"
  | .list [.atom "preds", s] =>
    match Stm.ofSexp s with
    | some stm => ok [spredsToSexp (stm.preds allSigns), spredsToSexp stm.headDerivable,
                      spredsToSexp (stm.bodyPreds allSigns), spredsToSexp (stm.minimizePreds allSigns)]
    | none => unsupported "statement"
  | .list [.atom "collect", .str kind, s] =>
    match Stm.ofSexp s, termKind? kind with
    | some stm, some k => ok [.list ((stm.collectTerms k).map Term.toSexp)]
    | _, _ => unsupported "statement or kind"
  | .list [.atom "unique_names", p, .list ins, .list ops] =>
    match Prog.ofSexp p, ins.mapM Pred.ofSexp with
    | some prg, some inputs =>
      match runUniqueNames (UniqueNames.init prg inputs) ops [] with
      | some ps => ok [predsToSexp ps]
      | none => errS "unique_names"
    | _, _ => unsupported "program"
  | .list [.atom "make_unique", s, .list vs] =>
    match Stm.ofSexp s with
    | some stm =>
      match runMakeUnique (UniqueVars.init stm) vs [] with
      | some r => ok [strsToSexp r]
      | none => errS "make_unique"
    | none => unsupported "statement"
  | .list [.atom "expand_enable", .list vs] =>
    match vs.mapM Sexp.toString? with
    | some values =>
      match expandEnable values with
      | some en => ok [strsToSexp en, .list ((flagsOf en).map fun (k, b) => .list [.str k, ofBool b])]
      | none => .list [.atom "reject"]
    | none => unsupported "values"
  | .list [.atom "pred_list", v] =>
    let arg : Option (Option String) := match v with
      | .atom "none" => some none
      | .str s => some (some s)
      | _ => none
    match arg with
    | none => unsupported "value"
    | some a =>
      match predicateList a with
      | .auto => .list [.atom "auto"]
      | .reject => .list [.atom "reject"]
      | .preds ps => ok [.list (ps.map fun p => .list [.str p.name, ofInt p.arity])]
  | .list [.atom "stages", .list fl, n] =>
    let flags := fl.filterMap fun f => match f with
      | .list [.str k, b] => b.toBool?.map fun v => (k, v)
      | _ => none
    match n.toNat? with
    | some k => if flags.length == fl.length then ok [strsToSexp (traceStages flags k)] else unsupported "flags"
    | none => unsupported "iterations"
  | .list [.atom "order_spec", .list vs] =>
    match vs.mapM Sexp.toInt? with
    | some l =>
      let (mn, mx, nx) := orderSpec l
      let opt : Option Int → Sexp := fun o => match o with | some v => ofInt v | none => .atom "none"
      ok [opt mn, opt mx, .list (nx.map fun (a, b) => .list [ofInt a, ofInt b])]
    | none => unsupported "non-integer value"
  | _ => tryExt req extHandlers

partial def loop (hin : IO.FS.Stream) (hout : IO.FS.Stream) : IO Unit := do
  let line ← hin.getLine
  if line.isEmpty then return ()
  let out := match Sexp.parse line with
    | some req => handle req
    | none => unsupported "unreadable request"
  hout.putStrLn out.toStr
  loop hin hout

def driverMain : IO Unit := do
  let hin ← IO.getStdin
  let hout ← IO.getStdout
  loop hin hout
  hout.flush

end NgoVerif
