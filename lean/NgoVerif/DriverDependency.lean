import NgoVerif.Sexp
import NgoVerif.Syntax
import NgoVerif.Model.Dependency
/-!
# Driver ops for `ngo/dependency.py` (class `DomainPredicates`)

In every op `<prog>` is the (preprocessed) program, `(<inputs>…)` the input predicates; the object is
`DomainPredicates(UniqueNames(prog, inputs), prog)`.  If the constructor raises, the answer is `(err "py: …")`.
Programs with theory atoms or pools are `(unsupported …)`, and so is a request that needs a template predicate of
negative arity (more annotated positions than arguments).

* `(dep_static <prog> (<inputs>…))` → `(ok (<sorted non-static preds>) (<sorted preds that have a domain>))`
  (the second list ranges over the predicates of the program and the inputs)
* `(dep_info <prog> (<inputs>…))` → `(ok (<sorted non-static>) (<sorted too complex>) ((<pred> <dom pred>)…))`
  (`domains.items()` in insertion order)
* `(dep_domain <prog> (<inputs>…) ("name" arity))` → `(ok <rule>…)` | `(err "…")`   (`list(create_domain(pred))`)
* `(dep_next <prog> (<inputs>…) ("name" arity (positions…)) position)` → `(ok <rule>…)` | `(err "…")`
* `(dep_chain <prog> (<inputs>…) ("name" arity (positions…)) position 0|1)` → `(ok <rule>…)` | `(err "…")`
* `(dep_seq <prog> (<inputs>…) (<request>…))` → `(ok <rule>…)`: all requests on ONE object, rule lists
  concatenated; `(err "…")` if the constructor or one of the requests raises
* `(dep_seq_each <prog> (<inputs>…) (<request>…))` → `(ok <answer>…)` with one `(ok <rule>…)` | `(err "…")` per
  request; the object lives on after an exception
  requests: `(domain ("name" arity))`, `(next ("name" arity (positions…)) position)`,
  `(chain ("name" arity (positions…)) position 0|1)`, `(add_rule ("name" arity) ((<head term> (<blit>…))…))`
  (`add_domain_rule`, answers `(ok)`)
-/
namespace NgoVerif
open Sexp

namespace Dep

def okS (xs : List Sexp) : Sexp := .list (.atom "ok" :: xs)
def unsupportedS (why : String) : Sexp := .list [.atom "unsupported", .str why]
def errorS (what : String) : Sexp := .list [.atom "err", .str what]
def predsS (ps : List Pred) : Sexp := .list (ps.map Pred.toSexp)

def apredOfSexp : Sexp → Option APred
  | .list [.str n, a, .list ps] => do
    let k ← a.toNat?
    let pos ← ps.mapM Sexp.toNat?
    pure ⟨⟨n, k⟩, pos⟩
  | _ => none

def druleOfSexp : Sexp → Option DRule
  | .list [t, .list b] => do
    let t' ← Term.ofSexp t
    let b' ← b.mapM BLit.ofSexp
    pure (t', b')
  | _ => none

def reqOfSexp : Sexp → Option Req
  | .list [.atom "domain", p] => (Pred.ofSexp p).map Req.domain
  | .list [.atom "next", ap, pos] => do
    let a ← apredOfSexp ap
    let k ← pos.toNat?
    pure (.next a k)
  | .list [.atom "chain", ap, pos, m] => do
    let a ← apredOfSexp ap
    let k ← pos.toNat?
    let b ← m.toBool?
    pure (.chain a k b)
  | .list [.atom "add_rule", p, .list rs] => do
    let p' ← Pred.ofSexp p
    let rs' ← rs.mapM druleOfSexp
    pure (.addRule p' rs')
  | _ => none

def reqOutside : Req → Bool
  | .addRule _ rs => rs.any fun r => r.2.any BLit.hasTheory || (r.1 :: bodyTerms r.2).any termHasPool
  | _ => false

/-- an error of the model as an answer -/
def errAnswer (e : String) : Sexp :=
  if e.startsWith "unsupported" then unsupportedS e else errorS e

def genAnswer : Except String (List Stm) → Sexp
  | .ok rules => okS (rules.map Stm.toSexp)
  | .error e => errAnswer e

def isUnsupportedErr : Except String (List Stm) → Bool
  | .error e => e.startsWith "unsupported"
  | _ => false

/-- build the object and answer with `k` -/
def withObject (p : Sexp) (ins : List Sexp) (k : Prog → UniqueNames → DomState → Sexp) : Sexp :=
  match Prog.ofSexp p, ins.mapM Pred.ofSexp with
  | some prg, some inputs =>
    match progOutside prg with
    | some why => unsupportedS why
    | none =>
      let names := UniqueNames.init prg inputs
      match DomState.init names prg with
      | .ok st => k prg names st
      | .error e => errAnswer e
  | _, _ => unsupportedS "program or predicates"

end Dep

open Dep in
def handleDependency : Sexp → Option Sexp
  | .list [.atom "dep_static", p, .list ins] => some <|
    withObject p ins fun prg names st =>
      -- the predicates asked about are those of the program's atoms and the inputs (the `#show p/n.` signatures that
      -- `UniqueNames` also knows since fix eec1903 are not atoms of the program)
      let inputs := (ins.mapM Pred.ofSexp).getD []
      let _ := names
      okS [predsS (sortDedup st.notStatic), predsS ((sortDedup (inputs ++ prg.allPreds)).filter st.hasDomain)]
  | .list [.atom "dep_info", p, .list ins] => some <|
    withObject p ins fun _ _ st =>
      okS [predsS (sortDedup st.notStatic), predsS (sortDedup st.tooComplex),
           .list (st.domains.map fun kv => .list [kv.1.toSexp, kv.2.toSexp])]
  | .list [.atom "dep_domain", p, .list ins, pr] => some <|
    match Pred.ofSexp pr with
    | some pred => withObject p ins fun _ _ st => genAnswer (createDomain st pred).1
    | none => unsupportedS "predicate"
  | .list [.atom "dep_next", p, .list ins, ap, pos] => some <|
    match apredOfSexp ap, pos.toNat? with
    | some a, some k => withObject p ins fun _ _ st => genAnswer (runReq st (.next a k)).1
    | _, _ => unsupportedS "annotated predicate or position"
  | .list [.atom "dep_chain", p, .list ins, ap, pos, m] => some <|
    match apredOfSexp ap, pos.toNat?, m.toBool? with
    | some a, some k, some b => withObject p ins fun _ _ st => genAnswer (runReq st (.chain a k b)).1
    | _, _, _ => unsupportedS "annotated predicate, position or flag"
  | .list [.atom "dep_seq", p, .list ins, .list rs] => some <|
    match rs.mapM reqOfSexp with
    | some reqs =>
      if reqs.any reqOutside then unsupportedS "theory atom or pool in a request" else
      withObject p ins fun _ _ st =>
        let answers := (runReqs st reqs).1
        match answers.find? (fun a => match a with | .error _ => true | .ok _ => false) with
        | some a => genAnswer a
        | none => okS (answers.flatMap fun a => match a with | .ok rules => rules.map Stm.toSexp | .error _ => [])
    | none => unsupportedS "requests"
  | .list [.atom "dep_seq_each", p, .list ins, .list rs] => some <|
    match rs.mapM reqOfSexp with
    | some reqs =>
      if reqs.any reqOutside then unsupportedS "theory atom or pool in a request" else
      withObject p ins fun _ _ st =>
        let answers := (runReqs st reqs).1
        if answers.any isUnsupportedErr then unsupportedS "predicate of negative arity"
        else okS (answers.map genAnswer)
    | none => unsupportedS "requests"
  | _ => none

end NgoVerif
