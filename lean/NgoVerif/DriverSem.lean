import NgoVerif.Sexp
import NgoVerif.Syntax
import NgoVerif.Proofs.C09link
import NgoVerif.Proofs.C11check
import NgoVerif.Proofs.C16stm
import NgoVerif.Proofs.C05sem
import NgoVerif.Proofs.C10multi
import NgoVerif.Proofs.C20dom
import NgoVerif.Proofs.C08impl
import NgoVerif.Proofs.C08trans
import NgoVerif.Proofs.C08anon
import NgoVerif.Proofs.C08anonStm
import NgoVerif.Proofs.C08anonObj
/-!
# Driver ops that evaluate the *side conditions of the end-to-end theorems* on what the real passes did

* `(sem_sym_cond <rule> (("X" "Y") ("U" "V") …))` → `(ok <pairs disjoint> <body symmetric> <globals closed> <head fixed>)`: the
  decidable parts of `Proofs.C11sem.Symmetric` for the rule *before* `symmetry` replaced its literal `X != Y` by
  `X < Y`, with `σ` the involution exchanging the members of each listed pair (`(unsupported …)` if the rule has no
  such literal).
* `(sem_split_cond <rule> <aux rule> <updated rule> <context program>)` → `(ok <splitCheck> <ctxCheck> <aux rule> <updated rule>)`:
  `Proofs.C16stm.splitCheck` / `ctxCheck` for the split `projection` made of `<rule>`; the two rules the theorem speaks about
  are returned and compared by the harness with what the real pass emitted.
* `(sem_dup_cond <rule> <canonical aux rule> <rewritten rule> <context>)` → `(ok <renaming ok> <splitCheck> <ctxCheck> <aux rule> <rewritten rule>)`:
  `Proofs.C10stm.dupCheck` for the FIRST place of use of a literal set factored out by `duplication`.
* `(sem_dup_all <canonical aux rule> ((<rule before> <rule after>) …) <context>)` → `(ok <some place> <every placeCheck> <ctxAvoidsCheck> <aux rule> ((<before> <after>) …))`:
  `Proofs.C10multi.placeCheck` for ALL places of use of one factored literal set (hypotheses of `C10_factor_all_*`).
* `(sem_dom_cond <prog> ((("p" n) "dom") …))` → `(ok <coveredCheck>)`: the hypothesis of `C20_domain_overapproximates`.
* `(sem_implied_cond <pre> <rule before> <rule after> <post> <rule with body [p literal]> <rule with body [q literal]>)` →
  `(ok <impliedCheck> <same literals>)`: the hypotheses of `C08_remove_implied_typed` for ONE deletion `cleanup` made:
  `q` deleted from the rule because of `p`, `pre`/`post` the other statements at that moment.
* `(sem_anon_cond <rule before> <rule after> <rule with body [p literal]> <rule with body [q literal]> ("v" …))` →
  `(ok <anonCheck> <same literals>)`: the hypotheses of `C08_remove_weaker_copy_strongeq` for one deletion of a literal of the
  SAME predicate (`p(X), p(_)`), `("v" …)` the variables of `q` that occur nowhere else (the renamed-apart `_`).
* `(sem_anon_in <rule before> <rule after> i j <rule with body [p literal]> <rule with body [q literal]> ("v" …))` →
  `(ok <condCheck> <same literals> <the other parts coincide>)`: the hypotheses of `C08_remove_weaker_copy_in_condition`
  for a weaker copy deleted inside the condition of body literal `i` (a conditional literal: `j` = -1; element `j` of a
  body aggregate otherwise).
* `(sem_anon_obj <objective before> <objective after> <rule with body [p literal]> <rule with body [q literal]> ("v" …))` →
  `(ok <objCheck> <same literals>)`: the hypothesis of `C08_weaker_copy_in_objective_costs`.
* `(sem_implied_obj <pre> <objective before> <objective after> <post> <rule with body [p literal]> <rule with body [q literal]>)` →
  `(ok <objImpliedCheck> <same literals>)`: the hypothesis of `C08_remove_implied_in_objective`.
* `(sem_okstm <stm>)` → `(ok <okBody>)`: the hypothesis of the `_partial` theorems about `expand_comparisons`.
* `(sem_unused_cond <prog> "n" k)` → `(ok <every statement stmOk> <Unused n k prog>)`: the hypothesis of
  `C09_removal_sound/complete` for the program `unused` removed the rules of `n/k` from.
The checks are the executable definitions `Proofs.C11check.symCheck` and `Proofs.C09sem.unusedCheck`, whose answer `true`
is proved to imply the theorems' hypotheses (`symCheck_sound`, `unusedCheck_sound`); equality of literals is the proved
test of `Sem/DecEq.lean`.
-/
namespace NgoVerif
open Sexp

namespace SemCond
open Proofs.C11sem Proofs.C09sem Proofs.C09link

def removeFirst (x : BLit) : List BLit → Option (List BLit)
  | [] => none
  | y :: ys => if blitEqb y x then some ys else (removeFirst x ys).map (y :: ·)

end SemCond

def handleSem : Sexp → Option Sexp
  | .list [.atom "sem_sym_cond", s, .list pairs] =>
    some <| match Stm.ofSexp s, pairs.mapM (fun p => match p with | .list [.str a, .str b] => some (a, b) | _ => none) with
      | some (.rule _ _ h b), some ((X, Y) :: more) =>
        match SemCond.removeFirst (Proofs.C11sem.cmpBLit X .ne Y) b with
        | some b' =>
          let ps := (X, Y) :: more
          let σ := Proofs.C11check.swaps ps
          -- the conjunction of the four answers is `Proofs.C11check.symCheck ps X Y h b'` (sound: `symCheck_sound`)
          .list [.atom "ok", ofBool (Proofs.C11check.involOk ps && σ X == Y), ofBool (Proofs.C11check.symBody σ b'),
                 ofBool (Proofs.C11check.symGlobals σ X Y h b'), ofBool (Proofs.C11check.symHead σ h)]
        | none => .list [.atom "unsupported", .str "no literal X != Y"]
      | _, _ => .list [.atom "unsupported", .str "rule or pairs"]
  | .list [.atom "sem_unused_cond", p, .str n, k] =>
    some <| match Prog.ofSexp p, k.toNat? with
      | some prg, some k => .list [.atom "ok", ofBool (prg.all fun s => Proofs.C09link.stmOk s), ofBool (Proofs.C09sem.unusedCheck n k prg)]
      | _, _ => .list [.atom "unsupported", .str "program"]
  | .list [.atom "sem_okstm", s] =>
    -- the hypothesis of `C05_expand_comparisons_strongeq_partial` (no negated multi-guard comparison) for one statement
    some <| match Stm.ofSexp s with
      | some (.rule _ _ _ b) => .list [.atom "ok", ofBool (Proofs.C05sem.okBody b)]
      | some (.minimize _ _ _ _ _ b) => .list [.atom "ok", ofBool (Proofs.C05sem.okBody b)]
      | some _ => .list [.atom "ok", ofBool true]
      | none => .list [.atom "unsupported", .str "statement"]
  | .list [.atom "sem_split_cond", o, a, u, p] =>
    some <| match Stm.ofSexp o, Stm.ofSexp a, Stm.ofSexp u, Prog.ofSexp p with
      | some (.rule l c h body), some (.rule _ _ (.lit (.pos, .sym (.fn auxName args false))) new), some (.rule _ _ _ ubody),
        some ctx =>
        match args.mapM (fun t => match t with | .var v => some v | _ => none) with
        | some vs =>
          let S : Proofs.C16stm.Split :=
            { line := l, col := c, head := h, body := body, new := new, rest := ubody.dropLast, vs := vs, auxName := auxName }
          -- `S.auxRule`, `S.updRule` are returned so that the harness can compare them with what the real pass emitted
          .list [.atom "ok", ofBool (Proofs.C16stm.splitCheck S), ofBool (Proofs.C16stm.ctxCheck S ctx []),
                 S.auxRule.toSexp, S.updRule.toSexp]
        | none => .list [.atom "unsupported", .str "auxiliary head arguments are not variables"]
      | _, _, _, _ => .list [.atom "unsupported", .str "rules"]
  | .list [.atom "sem_dup_cond", o, a, u, p] =>
    -- one place of use of a factored literal set: `o` the rule before, `a` the canonical auxiliary rule, `u` the rule after
    -- (`… , aux(args)` last), `p` the context
    some <| match Stm.ofSexp o, Stm.ofSexp a, Stm.ofSexp u, Prog.ofSexp p with
      | some (.rule l c h body), some (.rule la ca (.lit (.pos, .sym (.fn auxName vterms false))) sb), some (.rule _ _ _ ubody),
        some ctx =>
        match vterms.mapM (fun t => match t with | .var v => some v | _ => none), ubody.getLast? with
        | some V, some (.lit (.pos, .sym (.fn _ aterms false))) =>
          match aterms.mapM (fun t => match t with | .var v => some v | _ => none) with
          | some args =>
            let use := Proofs.C10stm.useOf l c h body ubody.dropLast auxName V args sb la ca
            .list [.atom "ok", ofBool (V.length == args.length && Proofs.C11check.involOk (V.zip args)),
                   ofBool (Proofs.C16stm.splitCheck use.split), ofBool (Proofs.C16stm.ctxCheck use.split ctx []),
                   use.canon.toSexp, use.split.updRule.toSexp]
          | none => .list [.atom "unsupported", .str "arguments of the auxiliary atom are not variables"]
        | _, _ => .list [.atom "unsupported", .str "shape of the auxiliary rule / the rewritten rule"]
      | _, _, _, _ => .list [.atom "unsupported", .str "rules"]
  | .list [.atom "sem_dup_all", a, .list uses, p] =>
    -- ALL places of use of one factored literal set: `a` the canonical auxiliary rule, `uses` = ((<rule before> <rule after>) …),
    -- `p` the context (every other statement of the rewritten program)
    some <| match Stm.ofSexp a, Prog.ofSexp p with
      | some (.rule la ca (.lit (.pos, .sym (.fn auxName vterms false))) sb), some ctx =>
        match vterms.mapM (fun t => match t with | .var v => some v | _ => none) with
        | some V =>
          let c : Proofs.C10multi.Canon := { auxName := auxName, V := V, Sb := sb, la := la, ca := ca }
          let one (u : Sexp) : Option (Bool × Sexp × Sexp) :=
            match u with
            | .list [o, r] =>
              match Stm.ofSexp o, Stm.ofSexp r with
              | some (.rule l cl h body), some (.rule _ _ _ ubody) =>
                match ubody.getLast? with
                | some (.lit (.pos, .sym (.fn _ aterms false))) =>
                  match aterms.mapM (fun t => match t with | .var v => some v | _ => none) with
                  | some args =>
                    let pairs := V.zip args
                    let pl := Proofs.C10multi.placeOf l cl h body ubody.dropLast pairs
                    some (V.length == args.length && Proofs.C10multi.placeCheck c l cl h body ubody.dropLast pairs,
                          (c.split pl).orig.toSexp, (c.split pl).updRule.toSexp)
                  | none => none
                | _ => none
              | _, _ => none
            | _ => none
          match uses.mapM one with
          | some rs =>
            .list [.atom "ok", ofBool (!rs.isEmpty), ofBool (rs.all (·.1)), ofBool (Proofs.C10multi.ctxAvoidsCheck c ctx),
                   c.stm.toSexp, .list (rs.map fun r => .list [r.2.1, r.2.2])]
          | none => .list [.atom "unsupported", .str "shape of a place of use"]
        | none => .list [.atom "unsupported", .str "auxiliary head arguments are not variables"]
      | _, _ => .list [.atom "unsupported", .str "auxiliary rule / context"]
  | .list [.atom "sem_dom_cond", p, .list ms] =>
    -- `ms` = ((("p" n) "dom name") …): the hypothesis of `C20_domain_overapproximates` for the program `p`
    some <| match Prog.ofSexp p, ms.mapM (fun x => match x with
        | .list [.list [.str n, k], .str d] => k.toNat?.map fun k' => ((n, k'), d)
        | _ => none) with
      | some prg, some m => .list [.atom "ok", ofBool (Proofs.C20dom.coveredCheck m prg)]
      | _, _ => .list [.atom "unsupported", .str "program / map"]
  | .list [.atom "sem_implied_cond", pre, o, u, post, pr, qr] =>
    some <| match Prog.ofSexp pre, Stm.ofSexp o, Stm.ofSexp u, Prog.ofSexp post, Stm.ofSexp pr, Stm.ofSexp qr with
      | some pre, some (.rule l c h bb), some (.rule _ _ _ ab), some post,
        some (.rule _ _ _ [.lit (.pos, .sym (.fn pn pargs false))]), some (.rule _ _ _ [.lit (.pos, .sym (.fn qn qargs false))]) =>
        let R : Proofs.C08impl.Rewrite :=
          { pre := pre, post := post, line := l, col := c, head := h, body := ab, pn := pn, pargs := pargs, qn := qn, qargs := qargs }
        -- `bb` and `q :: ab` have the same literals (hypothesis `hmem` of the theorem)
        let same := Proofs.C08impl.sameLits bb (R.qLit :: ab)
        -- the three conjuncts of `impliedCheck` are also reported one by one (coverage statistics of the harness)
        -- the direct check, or the implication followed through chains of predicates to depth 4 (`C08_remove_implied_typed_chain`)
        let direct := Proofs.C08impl.impliedCheck R
        let chain := Proofs.C08trans.impliedCheckT 3 R
        .list [.atom "ok", ofBool (direct || chain), ofBool same, ofBool (R.src.all Proofs.C08impl.okStm),
               ofBool (blitMem R.pLit R.body), ofBool (R.src.all (Proofs.C08impl.ruleImplies R.pn R.pargs R.qn R.qargs) || chain),
               ofBool (!direct && chain)]
      | _, _, _, _, _, _ => .list [.atom "unsupported", .str "rules / literals"]
  | .list [.atom "sem_anon_cond", o, u, pr, qr, .list fs] =>
    some <| match Stm.ofSexp o, Stm.ofSexp u, Stm.ofSexp pr, Stm.ofSexp qr,
        fs.mapM (fun x => match x with | .str v => some v | _ => none) with
      | some (.rule l c h bb), some (.rule _ _ _ ab), some (.rule _ _ _ [.lit (.pos, .sym (.fn pn sargs false))]),
        some (.rule _ _ _ [.lit (.pos, .sym (.fn qn targs false))]), some F =>
        let A : Proofs.C08anon.Anon :=
          { line := l, col := c, head := h, body := ab, pn := pn, sargs := sargs, targs := targs, F := F }
        .list [.atom "ok", ofBool (pn == qn && Proofs.C08anon.anonCheck A), ofBool (Proofs.C08impl.sameLits bb (A.qLit :: ab))]
      | _, _, _, _, _ => .list [.atom "unsupported", .str "rules / literals"]
  | .list [.atom "sem_anon_in", o, u, si, sj, pr, qr, .list fs] =>
    some <| match Stm.ofSexp o, Stm.ofSexp u, si.toNat?, sj.toInt?, Stm.ofSexp pr, Stm.ofSexp qr,
        fs.mapM (fun x => match x with | .str v => some v | _ => none) with
      | some (.rule _ _ _ bb), some (.rule _ _ h ab), some i, some j,
        some (.rule _ _ _ [.lit (.pos, .sym (.fn pn sargs false))]), some (.rule _ _ _ [.lit (.pos, .sym (.fn qn targs false))]), some F =>
        let pre := ab.take i
        let post := ab.drop (i + 1)
        let listEq : List BLit → List BLit → Bool := fun xs ys => xs.length == ys.length && (xs.zip ys).all fun p => blitEqb p.1 p.2
        match bb[i]?, ab[i]? with
        | some (.clit (hd, cfull)), some (.clit (hd', cond)) =>
          if j != -1 then .list [.atom "unsupported", .str "element index for a conditional literal"] else
          let A : Proofs.C08anonCond.CondAnon := { cond := cond, pn := pn, sargs := sargs, targs := targs, F := F }
          .list [.atom "ok", ofBool (pn == qn && Proofs.C08anonCond.condCheck A (Proofs.C08anonStm.outsideClit h pre post hd')),
                 ofBool (Proofs.C08anonStm.sameLitList cfull (A.qLit :: cond)),
                 ofBool (litEqb hd hd' && listEq (bb.take i) pre && listEq (bb.drop (i + 1)) post)]
        | some (.lit (s, .bagg _ _ lg f es rg)), some (.lit (s', .bagg _ _ lg' f' es' rg')) =>
          let k := j.toNat
          match es[k]?, es'[k]? with
          | some (ts, cfull), some (ts', cond) =>
            let epre := es'.take k
            let epost := es'.drop (k + 1)
            let A : Proofs.C08anonCond.CondAnon := { cond := cond, pn := pn, sargs := sargs, targs := targs, F := F }
            .list [.atom "ok",
                   ofBool (j ≥ 0 && pn == qn && Proofs.C08anonCond.condCheck A (Proofs.C08anonStm.outsideBagg h pre post lg' rg' epre epost ts')),
                   ofBool (Proofs.C08anonStm.sameLitList cfull (A.qLit :: cond)),
                   ofBool (s == s' && f == f' && optGuardEqb lg lg' && optGuardEqb rg rg' && termsEqb ts ts' &&
                     bElemsEqb (es.take k) epre && bElemsEqb (es.drop (k + 1)) epost &&
                     listEq (bb.take i) pre && listEq (bb.drop (i + 1)) post)]
          | _, _ => .list [.atom "unsupported", .str "element index"]
        | _, _ => .list [.atom "unsupported", .str "body literal at the index"]
      | _, _, _, _, _, _, _ => .list [.atom "unsupported", .str "rules / literals"]
  | .list [.atom "sem_implied_obj", pre, o, u, post, pr, qr] =>
    some <| match Prog.ofSexp pre, Stm.ofSexp o, Stm.ofSexp u, Prog.ofSexp post, Stm.ofSexp pr, Stm.ofSexp qr with
      | some pre, some (.minimize l c w p ts bb), some (.minimize _ _ w' p' ts' ab), some post,
        some (.rule _ _ _ [.lit (.pos, .sym (.fn pn pargs false))]), some (.rule _ _ _ [.lit (.pos, .sym (.fn qn qargs false))]) =>
        let R : Proofs.C08impl.ObjRewrite :=
          { pre := pre, post := post, line := l, col := c, weight := w', prio := p', terms := ts', body := ab, pn := pn, pargs := pargs,
            qn := qn, qargs := qargs }
        .list [.atom "ok", ofBool (Proofs.C08impl.objImpliedCheck R),
               ofBool (termEqb w w' && termEqb p p' && termsEqb ts ts' && Proofs.C08impl.sameLits bb (R.qLit :: ab))]
      | _, _, _, _, _, _ => .list [.atom "unsupported", .str "objectives / literals"]
  | .list [.atom "sem_anon_obj", o, u, pr, qr, .list fs] =>
    some <| match Stm.ofSexp o, Stm.ofSexp u, Stm.ofSexp pr, Stm.ofSexp qr,
        fs.mapM (fun x => match x with | .str v => some v | _ => none) with
      | some (.minimize l c w p ts bb), some (.minimize _ _ w' p' ts' ab), some (.rule _ _ _ [.lit (.pos, .sym (.fn pn sargs false))]),
        some (.rule _ _ _ [.lit (.pos, .sym (.fn qn targs false))]), some F =>
        let A : Proofs.C08anonObj.ObjAnon :=
          { line := l, col := c, weight := w', prio := p', terms := ts', body := ab, pn := pn, sargs := sargs, targs := targs, F := F }
        .list [.atom "ok", ofBool (pn == qn && Proofs.C08anonObj.objCheck A),
               ofBool (termEqb w w' && termEqb p p' && termsEqb ts ts' && Proofs.C08impl.sameLits bb (A.qLit :: ab))]
      | _, _, _, _, _ => .list [.atom "unsupported", .str "objectives / literals"]
  | _ => none

end NgoVerif
