import NgoVerif.Sexp
import NgoVerif.Syntax
import NgoVerif.Proofs.C09link
import NgoVerif.Proofs.C11sem
/-!
# Driver ops that evaluate the *side conditions of the end-to-end theorems* on what the real passes did

* `(sem_sym_cond <rule> (("X" "Y") ("U" "V") …))` → `(ok <pairs disjoint> <body symmetric> <globals closed> <head fixed>)`: the
  decidable parts of `Proofs.C11sem.Symmetric` for the rule *before* `symmetry` replaced its literal `X != Y` by
  `X < Y`, with `σ` the involution exchanging the members of each listed pair (`(unsupported …)` if the rule has no
  such literal).
* `(sem_unused_cond <prog> "n" k)` → `(ok <every statement stmOk> <Unused n k prog>)`: the hypothesis of
  `C09_removal_sound/complete` for the program `unused` removed the rules of `n/k` from.
Equality of body literals is the derived structural `==` of the AST mirror.
-/
namespace NgoVerif
open Sexp

namespace SemCond
open Proofs.C11sem Proofs.C09sem Proofs.C09link

/-- the involution that exchanges the two members of each pair -/
def swaps (ps : List (String × String)) : String → String := fun v =>
  match ps.find? (fun p => p.1 == v || p.2 == v) with
  | some p => if p.1 == v then p.2 else p.1
  | none => v

/-- the pairs are disjoint and non-trivial: `swaps` is an involution -/
def pairsOk (ps : List (String × String)) : Bool :=
  let vs := ps.flatMap fun p => [p.1, p.2]
  vs.length == (vs.foldl (fun acc v => if acc.contains v then acc else v :: acc) []).length

def flipNe : BLit → Option BLit
  | .lit (.pos, .cmp (.var U) [⟨.ne, .var V⟩]) => some (.lit (.pos, .cmp (.var V) [⟨.ne, .var U⟩]))
  | _ => none

/-- the decidable form of `Symmetric.body` -/
def symBody (σ : String → String) (b : List BLit) : Bool :=
  b.all fun l =>
    let r := Sem.renameBLit σ l
    b.contains r || (match flipNe r with | some f => b.contains f | none => false)

def symGlobals (σ : String → String) (X Y : String) (h : Head) (b : List BLit) : Bool :=
  let L := Sem.stdHeadGlobals h ++ Sem.bodyGlobals (b ++ [cmpBLit X .ne Y])
  L.all fun v => L.contains (σ v)

def symHead (σ : String → String) (h : Head) : Bool := h.vars.all fun v => σ v == v

def removeFirst (x : BLit) : List BLit → Option (List BLit)
  | [] => none
  | y :: ys => if y == x then some ys else (removeFirst x ys).map (y :: ·)

def unusedCond (n : String) (k : Nat) (prg : Prog) : Bool :=
  prg.all fun s => defRule n k s || stmAvoids (Sem.predSig n k) s

end SemCond

def handleSem : Sexp → Option Sexp
  | .list [.atom "sem_sym_cond", s, .list pairs] =>
    some <| match Stm.ofSexp s, pairs.mapM (fun p => match p with | .list [.str a, .str b] => some (a, b) | _ => none) with
      | some (.rule _ _ h b), some ((X, Y) :: more) =>
        match SemCond.removeFirst (Proofs.C11sem.cmpBLit X .ne Y) b with
        | some b' =>
          let σ := SemCond.swaps ((X, Y) :: more)
          .list [.atom "ok", ofBool (SemCond.pairsOk ((X, Y) :: more)), ofBool (SemCond.symBody σ b'),
                 ofBool (SemCond.symGlobals σ X Y h b'), ofBool (SemCond.symHead σ h)]
        | none => .list [.atom "unsupported", .str "no literal X != Y"]
      | _, _ => .list [.atom "unsupported", .str "rule or pairs"]
  | .list [.atom "sem_unused_cond", p, .str n, k] =>
    some <| match Prog.ofSexp p, k.toNat? with
      | some prg, some k => .list [.atom "ok", ofBool (prg.all fun s => Proofs.C09link.stmOk s), ofBool (SemCond.unusedCond n k prg)]
      | _, _ => .list [.atom "unsupported", .str "program"]
  | _ => none

end NgoVerif
