import NgoVerif.Sexp
import NgoVerif.Syntax
import NgoVerif.Model.Binding
import NgoVerif.Model.Projection
/-!
# Driver ops for the binding analysis and the projection pass

* `(binding_body (<blit>…) (<"V">…)|none)` → `(ok (<sorted bound>) (<sorted unbound>))` | `(err "…")`
* `(binding_head <head> (<blit>…))`        → `(ok (<sorted need_bound>) (<sorted no_bound_needed>))` | `(err "…")`
* `(global_body (<blit>…))`                → `(ok (<sorted names>))` | `(err "…")`
* `(global_head <head>)`                   → `(ok (<sorted names>))` | `(err "…")`
* `(bound_vars (<blit>…))`                 → `(ok (<sorted names>))` | `(err "…")`   (`collect_bound_variables`)
* `(unsafe_term <term>)`                   → `(ok <has_interval 0|1> <has_unsafe_operation 0|1>)`
* `(largest_subset <n>)`                   → `(ok ((<positions>…)…))`   (`largest_subset(range(n))`)
* `(good_split (<new blit>…) (<rest blit>…) <rule>)` → `(ok none)` | `(ok ("V"…))` | `(err "…")`
* `(projection <prog> (<pred>…))`          → `(ok <prog>)` | `(err "…")`

Anything containing a theory atom is `(unsupported …)`: the mirror keeps theory atoms as text, their variables
are invisible to the model.
-/
namespace NgoVerif
open Sexp

private def okB (xs : List Sexp) : Sexp := .list (.atom "ok" :: xs)
private def unsupportedB (why : String) : Sexp := .list [.atom "unsupported", .str why]
private def errB (what : String) : Sexp := .list [.atom "err", .str what]
private def namesToSexp (ss : List String) : Sexp := .list ((sortNames ss).map Sexp.str)

private def pairAnswer : Except String (VSet × VSet) → Sexp
  | .ok (a, b) => okB [namesToSexp a, namesToSexp b]
  | .error e => errB e

private def setAnswer : Except String VSet → Sexp
  | .ok a => okB [namesToSexp a]
  | .error e => errB e

private def bodyOfSexp (b : List Sexp) : Option (List BLit) := b.mapM BLit.ofSexp

private def preboundOfSexp : Sexp → Option (Option (List String))
  | .atom "none" => some none
  | .list xs => (xs.mapM Sexp.toString?).map some
  | _ => none

def handleBinding (req : Sexp) : Option Sexp :=
  match req with
  | .list [.atom "binding_body", .list b, pre] => some <|
    match bodyOfSexp b, preboundOfSexp pre with
    | some body, some prebound =>
      if body.any BLit.hasTheory then unsupportedB "theory atom" else pairAnswer (bindingBody body prebound)
    | _, _ => unsupportedB "body or prebound"
  | .list [.atom "binding_head", h, .list b] => some <|
    match Head.ofSexp h, bodyOfSexp b with
    | some head, some body =>
      if head.hasTheory || body.any BLit.hasTheory then unsupportedB "theory atom"
      else pairAnswer (bindingHead head body)
    | _, _ => unsupportedB "head or body"
  | .list [.atom "global_body", .list b] => some <|
    match bodyOfSexp b with
    | some body =>
      if body.any BLit.hasTheory then unsupportedB "theory atom" else setAnswer (globalVarsInsideBody body)
    | none => unsupportedB "body"
  | .list [.atom "bound_vars", .list b] => some <|
    match bodyOfSexp b with
    | some body =>
      if body.any BLit.hasTheory then unsupportedB "theory atom" else setAnswer (collectBoundVariables body)
    | none => unsupportedB "body"
  | .list [.atom "global_head", h] => some <|
    match Head.ofSexp h with
    | some head => if head.hasTheory then unsupportedB "theory atom" else setAnswer (globalVarsInsideHead head)
    | none => unsupportedB "head"
  | .list [.atom "unsafe_term", t] => some <|
    match Term.ofSexp t with
    | some tm => okB [ofBool tm.hasInterval, ofBool tm.hasUnsafe]
    | none => unsupportedB "term"
  | .list [.atom "largest_subset", n] => some <|
    match n.toNat? with
    | some k =>
      if k > 16 then unsupportedB "too large"
      else okB [.list ((largestSubset (List.range k)).map fun s => .list (s.map ofNat))]
    | none => unsupportedB "n"
  | .list [.atom "good_split", .list n, .list r, s] => some <|
    match bodyOfSexp n, bodyOfSexp r, Stm.ofSexp s with
    | some new, some rest, some (.rule l c head body) =>
      if (Stm.rule l c head body).ruleHasTheory || new.any BLit.hasTheory || rest.any BLit.hasTheory then
        unsupportedB "theory atom"
      else
        match goodSplit new rest head body with
        | .ok none => okB [.atom "none"]
        | .ok (some vs) => okB [.list (vs.map Sexp.str)]
        | .error e => errB e
    | _, _, _ => unsupportedB "new, rest or rule"
  | .list [.atom "projection", p, .list ins] => some <|
    match Prog.ofSexp p, ins.mapM Pred.ofSexp with
    | some prg, some inputs =>
      if prg.any Stm.ruleHasTheory then unsupportedB "theory atom"
      else
        match projection prg inputs with
        | .ok res => okB [Prog.toSexp res]
        | .error e => errB e
    | _, _ => unsupportedB "program or predicates"
  | _ => none

end NgoVerif
