import NgoVerif.Model.Binding
import NgoVerif.Model.Globals
/-!
# Model of `ngo/dependency.py`: class `DomainPredicates`

* `DomainPredicates.__init__` = `DomState.init`: `__compute_nonstatic_predicates` (`computeNonStatic`),
  `__compute_domains` (`collectDomainRules`) + `add_domain_rules` (`addDomainRules`);
* `is_static`, `has_domain`, `domain_predicate`;
* the name memo `_predicate` (`functools.cache`) and `dom_named_predicate`, `min_anon_predicate`,
  `max_anon_predicate`, `next_anon_predicate`, `chain_pred`;
* `create_domain`, `create_next_pred_for_annotated_pred`, `create_chain_pred_for_annotated_pred`,
  `add_domain_rule`.

The object state (`unique_names`, the memo, `_not_static`, `_too_complex`, `domains`, `domain_rules`,
`created_domain`) is the structure `DomState`.  Python `dict`s are association lists in insertion order (the order
of `domains` / of the `domain_rules` argument decides which fresh `__dom_` name a predicate gets), Python `set`s
are duplicate-free lists; no result depends on the iteration order of a set.

`x.unpool(condition=True)` is the identity on pool-free statements; the driver rejects programs with pools (and
with theory atoms, whose symbolic atoms and variables the AST mirror does not keep), so here `prg` is its own
unpooling.

Errors: `Except.error "py: …"` is a Python exception (`assert`, `RuntimeError`, `IndexError`,
`AttributeError`), `"fuel: …"` an exhausted fuel (never expected), `"unsupported: …"` a request outside the
modelled domain (a template predicate of negative arity).
-/
namespace NgoVerif
namespace Dep

def CHAIN_STR : String := "__chain"
def MIN_STR : String := "__min_"
def MAX_STR : String := "__max_"
def NEXT_STR : String := "__next_"
def DOM_STR : String := "__dom_"

/-! ## finite sets of predicates as duplicate-free lists -/

def pInsert (s : List Pred) (p : Pred) : List Pred := if s.contains p then s else s ++ [p]
def pUnion (s t : List Pred) : List Pred := t.foldl pInsert s
def pOfList (l : List Pred) : List Pred := pUnion [] l

/-! ## `collect_ast(·, "SymbolicAtom")` / `transform_ast(·, "SymbolicAtom", f)` on body literals

Pre-order over `child_keys` (`Literal.atom`; `BodyAggregate`: guards, elements = terms, condition;
`Aggregate`: guards, elements = literal, condition; `ConditionalLiteral`: literal, condition).  Symbolic atoms do
not nest and terms contain none.  The collected value is the `symbol` of the atom. -/

mutual
def atomSyms : Atom → List Term
  | .sym t => [t]
  | .cmp _ _ => []
  | .bool _ => []
  | .bagg _ _ _ _ elems _ => bElemsSyms elems
  | .agg _ elems _ => cElemsSyms elems
  | .theory _ => []
def litSyms : Sign × Atom → List Term
  | (_, a) => atomSyms a
def litsSyms : List (Sign × Atom) → List Term
  | [] => []
  | l :: ls => litSyms l ++ litsSyms ls
def bElemsSyms : List (List Term × List (Sign × Atom)) → List Term
  | [] => []
  | (_, c) :: es => litsSyms c ++ bElemsSyms es
def cElemsSyms : List ((Sign × Atom) × List (Sign × Atom)) → List Term
  | [] => []
  | (l, c) :: es => litSyms l ++ litsSyms c ++ cElemsSyms es
end

def blitSyms : BLit → List Term
  | .lit l => litSyms l
  | .clit c => litSyms c.1 ++ litsSyms c.2

mutual
def atomMapSym (f : Term → Term) : Atom → Atom
  | .sym t => .sym (f t)
  | .bagg l c lg fn elems rg => .bagg l c lg fn (bElemsMapSym f elems) rg
  | .agg lg elems rg => .agg lg (cElemsMapSym f elems) rg
  | .cmp t gs => .cmp t gs
  | .bool b => .bool b
  | .theory t => .theory t
def litMapSym (f : Term → Term) : Sign × Atom → Sign × Atom
  | (s, a) => (s, atomMapSym f a)
def litsMapSym (f : Term → Term) : List (Sign × Atom) → List (Sign × Atom)
  | [] => []
  | l :: ls => litMapSym f l :: litsMapSym f ls
def bElemsMapSym (f : Term → Term) :
    List (List Term × List (Sign × Atom)) → List (List Term × List (Sign × Atom))
  | [] => []
  | (ts, c) :: es => (ts, litsMapSym f c) :: bElemsMapSym f es
def cElemsMapSym (f : Term → Term) :
    List ((Sign × Atom) × List (Sign × Atom)) → List ((Sign × Atom) × List (Sign × Atom))
  | [] => []
  | (l, c) :: es => (litMapSym f l, litsMapSym f c) :: cElemsMapSym f es
end

def blitMapSym (f : Term → Term) : BLit → BLit
  | .lit l => .lit (litMapSym f l)
  | .clit c => .clit (litMapSym f c.1, litsMapSym f c.2)

/-- `Predicate(atom.symbol.name, len(atom.symbol.arguments))` WITHOUT a check of `symbol.ast_type`: a classically
negated atom `-p(X)` (symbol = `UnaryOperation`) raises `AttributeError` -/
def symPredE : Term → Except String Pred
  | .fn name args _ => .ok ⟨name, args.length⟩
  | _ => .error "py: AttributeError: symbol has no attribute name"

/-! ## the predicate dependency graph (`_create_graph_from_prg(prg, SIGNS)`)

Only edges are ever added (`add_edges_from(product(bodies, heads))`), so a predicate is a node iff it is the end of
an edge. -/

abbrev Edges := List (Pred × Pred)

def depEdges (prg : Prog) : Edges :=
  prg.flatMap fun s =>
    match s with
    | .rule .. => (s.bodyPreds allSigns).flatMap fun b => s.headDerivable.map fun h => (b.pred, h.pred)
    | _ => []

def graphNodes (es : Edges) : List Pred := pOfList (es.flatMap fun e => [e.1, e.2])
def succs (es : Edges) (u : Pred) : List Pred := es.filterMap fun e => if e.1 == u then some e.2 else none
def preds (es : Edges) (u : Pred) : List Pred := es.filterMap fun e => if e.2 == u then some e.1 else none

/-- iterate the inflationary `step` until the set stops growing -/
def growLoop (step : List Pred → List Pred) : Nat → List Pred → Except String (List Pred)
  | 0, _ => .error "fuel: growLoop"
  | fuel + 1, s =>
    let s' := pUnion s (step s)
    if s'.length == s.length then .ok s else growLoop step fuel s'

/-- the nodes reachable from `u` by at least one edge.  Fuel: every round but the last adds a node. -/
def reachPlus (es : Edges) (u : Pred) : Except String (List Pred) :=
  growLoop (fun s => s.flatMap (succs es)) ((graphNodes es).length + 1) (pOfList (succs es u))

/-- members of strongly connected components with more than one node: `u` and some `v ≠ u` reach each other -/
def inBigScc (es : Edges) (u : Pred) : Except String Bool := do
  let ru ← reachPlus es u
  ru.anyM fun v => do
    if v == u then pure false
    else
      let rv ← reachPlus es v
      pure (rv.contains u)

def selfLoopNodes (es : Edges) : List Pred := pOfList (es.filterMap fun e => if e.1 == e.2 then some e.1 else none)

/-! ## `__compute_nonstatic_predicates` -/

/-- the `### remove head choice predicates` block for one head -/
def headChoicePreds : Head → Except String (List Pred)
  | .disj es => es.mapM fun e =>
      match litPreds allSigns e.1 with
      | p :: _ => .ok p.pred
      | [] => .error "py: IndexError: list(literal_predicate(cond.literal, SIGNS))[0]"
  | .agg _ es _ => es.mapM fun e =>
      match litPreds allSigns e.1 with
      | p :: _ => .ok p.pred
      | [] => .error "py: IndexError: list(literal_predicate(cond.literal, SIGNS))[0]"
  | .hagg _ _ es _ => .ok (es.flatMap fun e => (litPreds allSigns e.2.1).map (·.pred))
  | _ => .ok []

def choicePreds : Prog → Except String (List Pred)
  | [] => .ok []
  | .rule _ _ h _ :: rest => do
    let a ← headChoicePreds h
    let b ← choicePreds rest
    pure (a ++ b)
  | _ :: rest => choicePreds rest

/-- `(_not_static, _too_complex)` after `__compute_nonstatic_predicates`.

The last loop of the Python function visits the nodes of `cycle_free_pdg` (the graph without the nodes on cycles)
in a topological order and marks a node whose predecessor IN THE FULL GRAPH is marked.  When a node is visited, all
its predecessors are final (they are earlier in the order or were removed, and the removed ones are all marked), so
the loop computes the least set that contains the initial marks and is closed under "an acyclic node with a marked
predecessor is marked" - for every topological order.  `growLoop` computes that least fixpoint; fuel: every round
but the last marks a new node of the graph. -/
def computeNonStatic (prg : Prog) : Except String (List Pred × List Pred) := do
  let ns0 := pOfList (← choicePreds prg)
  let es := depEdges prg
  let nodes := graphNodes es
  let big ← nodes.filterM (inBigScc es)
  let loops := selfLoopNodes es
  let tooComplex := pUnion big loops
  let ns1 := pUnion ns0 tooComplex
  let dag := nodes.filter fun n => !tooComplex.contains n
  let ns ← growLoop (fun s => dag.filter fun n => (preds es n).any s.contains) (dag.length + 1) ns1
  pure (ns, tooComplex)

/-! ## the object state -/

abbrev DRule := Term × List BLit

structure DomState where
  names : UniqueNames
  /-- the `functools.cache` of `_predicate`, key `(name, arity)` -/
  memo : List ((String × Int) × Pred)
  notStatic : List Pred
  tooComplex : List Pred
  /-- `self.domains`, insertion order -/
  domains : List (Pred × Pred)
  /-- `self.domain_rules` -/
  domainRules : List (Pred × List DRule)
  /-- `self.created_domain` -/
  created : List Pred

def DomState.isStatic (st : DomState) (p : Pred) : Bool := !st.notStatic.contains p
def DomState.hasDomain (st : DomState) (p : Pred) : Bool := st.isStatic p || (st.domains.lookup p).isSome

/-- `domain_predicate` -/
def DomState.domainPredicate (st : DomState) (p : Pred) : Except String Pred :=
  if !st.hasDomain p then .error "py: AssertionError: has_domain(pred)"
  else if st.isStatic p then .ok p
  else match st.domains.lookup p with
    | some d => .ok d
    | none => .error "py: KeyError: domains[pred]"  -- unreachable: has_domain and not static

/-- `_predicate(name, arity)`: memoised `unique_names.new_predicate` -/
def DomState.predicate (st : DomState) (name : String) (arity : Int) : Except String (Pred × DomState) :=
  match st.memo.lookup (name, arity) with
  | some p => .ok (p, st)
  | none =>
    if arity < 0 then .error "unsupported: predicate of negative arity"
    else match st.names.newPred name arity.toNat with
      | none => .error "fuel: new_predicate"
      | some (p, names') => .ok (p, { st with names := names', memo := ((name, arity), p) :: st.memo })

/-- `dom_named_predicate` -/
def DomState.domNamed (st : DomState) (name : String) (arity : Nat) : Except String (Pred × DomState) :=
  st.predicate (DOM_STR ++ name) arity

/-! ## `add_domain_rules` -/

/-- `is_too_complex` on the collected symbols -/
def isTooComplexSyms (st : DomState) : List Term → Except String Bool
  | [] => .ok false
  | t :: ts => do
    let p ← symPredE t
    if st.tooComplex.contains p then pure true else isTooComplexSyms st ts

def anyNonStaticSyms (st : DomState) : List Term → Except String Bool
  | [] => .ok false
  | t :: ts => do
    let p ← symPredE t
    if !st.isStatic p then pure true else anyNonStaticSyms st ts

/-- `is_dynamic_sum` -/
def isDynamicSum (st : DomState) : BLit → Except String Bool
  | .lit (_, .bagg _ _ _ _ elems _) => anyNonStaticSyms st (bElemsSyms elems)
  | .lit (_, .agg _ elems _) => anyNonStaticSyms st (cElemsSyms elems)
  | _ => .ok false

/-- `unbounded_head` -/
def unboundedHead (r : DRule) : Except String Bool := do
  let bound ← collectBoundVariables r.2
  pure !(vDiff (vOfList r.1.vars) bound).isEmpty

def condsTooComplex (st : DomState) : List BLit → Except String Bool
  | [] => .ok false
  | c :: cs => do
    if ← isTooComplexSyms st (blitSyms c) then pure true
    else if ← isDynamicSum st c then pure true
    else condsTooComplex st cs

def rulesTooComplex (st : DomState) : List DRule → Except String Bool
  | [] => .ok false
  | r :: rs => do
    if ← unboundedHead r then pure true
    else if ← isTooComplexSyms st [r.1] then pure true
    else if ← condsTooComplex st r.2 then pure true
    else rulesTooComplex st rs

/-- `too_complex_rules` -/
def tooComplexRules (st : DomState) (item : Pred × List DRule) : Except String Bool :=
  if st.isStatic item.1 then .ok true else rulesTooComplex st item.2

/-- `have_domain` -/
def haveDomain (st : DomState) (c : BLit) : Bool :=
  (blitSyms c).all fun t =>
    match t with
    | .fn name args _ => st.hasDomain ⟨name, args.length⟩
    | _ => true

/-- the asserts of `replace_domain` on one symbol -/
def replaceDomainCheck (st : DomState) : Term → Except String Unit
  | .fn name args _ =>
    if st.hasDomain ⟨name, args.length⟩ then .ok () else .error "py: AssertionError: has_domain"
  | _ => .error "py: AssertionError: atom.symbol.ast_type == ASTType.Function"

/-- `replace_domain` on the symbol (after the asserts) -/
def replaceDomainSym (st : DomState) : Term → Term
  | .fn name args ext =>
    match st.domainPredicate ⟨name, args.length⟩ with
    | .ok d => .fn d.name args ext
    | .error _ => .fn name args ext
  | t => t

/-- `transform_ast(cond, "SymbolicAtom", replace_domain)` -/
def replaceDomain (st : DomState) (c : BLit) : Except String BLit := do
  (blitSyms c).forM (replaceDomainCheck st)
  pure (blitMapSym (replaceDomainSym st) c)

def assocSet {β : Type} (k : Pred) (v : β) : List (Pred × β) → List (Pred × β)
  | [] => [(k, v)]
  | (k', v') :: rest => if k' == k then (k', v) :: rest else (k', v') :: assocSet k v rest

/-- the body of `for pred, rules in domain_rules.items()` -/
def domStep (st : DomState) (item : Pred × List DRule) : Except String DomState := do
  let (pred, rules) := item
  if (st.domains.lookup pred).isSome then return st
  if !(rules.all fun r => r.2.all (haveDomain st)) then return st
  let newRules ← rules.mapM fun r => do
    let c ← r.2.mapM (replaceDomain st)
    pure (r.1, c)
  let (d, st) ← st.domNamed pred.name pred.arity
  pure { st with domainRules := assocSet pred newRules st.domainRules,
                 domains := st.domains ++ [(pred, d)],
                 notStatic := pInsert st.notStatic pred }

def domPass (dr : List (Pred × List DRule)) (st : DomState) : Except String DomState :=
  dr.foldlM domStep st

/-- `while True: … if len(self.domain_rules) == num_domain_preds: break` -/
def domLoop (dr : List (Pred × List DRule)) : Nat → DomState → Except String DomState
  | 0, _ => .error "fuel: add_domain_rules"
  | fuel + 1, st => do
    let st' ← domPass dr st
    if st'.domainRules.length == st.domainRules.length then pure st' else domLoop dr fuel st'

/-- `add_domain_rules(domain_rules)`.  Termination of the `while`: a pass that changes `len(self.domain_rules)`
puts a key of `domain_rules` that was not in `self.domains` into `self.domains`, and never removes one; so at most
`len(domain_rules)` passes change something and one more ends the loop. -/
def addDomainRules (st : DomState) (dr : List (Pred × List DRule)) : Except String DomState := do
  let dr ← dr.filterM fun item => do
    let b ← tooComplexRules st item
    pure !b
  domLoop dr (dr.length + 1) st

/-- `add_domain_rule(pred, conditions)` -/
def addDomainRule (st : DomState) (pred : Pred) (conds : List DRule) : Except String DomState :=
  addDomainRules { st with notStatic := pInsert st.notStatic pred } [(pred, conds)]

/-! ## `__compute_domains` -/

/-- `domain_rules[pred].append(rule)` on a `defaultdict(list)` -/
def drAppend (p : Pred) (r : DRule) : List (Pred × List DRule) → List (Pred × List DRule)
  | [] => [(p, [r])]
  | (q, rs) :: rest => if q == p then (q, rs ++ [r]) :: rest else (q, rs) :: drAppend p r rest

def liftBody (c : List Lit) : List BLit := c.map BLit.lit

/-- one `(literal, condition)` head element: kept iff the literal is a positive symbolic atom -/
def drAddElem (body : List BLit) (dr : List (Pred × List DRule)) (l : Lit) (cond : List Lit) :
    Except String (List (Pred × List DRule)) :=
  match l with
  | (.pos, .sym t) => do
    let p ← symPredE t
    pure (drAppend p (t, liftBody cond ++ body) dr)
  | _ => .ok dr

def collectDomainRules : Prog → List (Pred × List DRule) → Except String (List (Pred × List DRule))
  | [], dr => .ok dr
  | .rule _ _ head body :: rest, dr => do
    let dr ← (match head with
      | .lit l => drAddElem body dr l []
      | .disj es => es.foldlM (fun dr e => drAddElem body dr e.1 e.2) dr
      | .hagg _ _ es _ => es.foldlM (fun dr e => drAddElem body dr e.2.1 e.2.2) dr
      | .agg _ es _ => es.foldlM (fun dr e => drAddElem body dr e.1 e.2) dr
      | .theory _ => .ok dr)
    collectDomainRules rest dr
  | _ :: rest, dr => collectDomainRules rest dr

/-- `DomainPredicates(unique_names, prg)` -/
def DomState.init (names : UniqueNames) (prg : Prog) : Except String DomState := do
  let (ns, tc) ← computeNonStatic prg
  let st : DomState :=
    { names := names, memo := [], notStatic := ns, tooComplex := tc, domains := [], domainRules := [], created := [] }
  let dr ← collectDomainRules prg []
  addDomainRules st dr

/-! ## `create_domain` -/

/-- a generator run under `list(…)`: the result (an exception loses the rules yielded so far) and the state the
object is left in -/
abbrev Gen := Except String (List Stm) × DomState

/-- `__create_domain_for_condition(cond)` given `create_domain` -/
def domainForSyms (rec : DomState → Pred → Gen) : List Term → DomState → Gen
  | [], st => (.ok [], st)
  | t :: ts, st =>
    match symPredE t with
    | .error e => (.error e, st)
    | .ok dp =>
      -- `symbol.ast_type == ASTType.Function` holds whenever `symPredE` succeeds
      match st.domains.find? (fun kv => kv.2 == dp) with
      | none => domainForSyms rec ts st
      | some (orig, _) =>
        match rec st orig with
        | (.error e, st) => (.error e, st)
        | (.ok r1, st) =>
          match domainForSyms rec ts st with
          | (.error e, st) => (.error e, st)
          | (.ok r2, st) => (.ok (r1 ++ r2), st)

def domainForConds (rec : DomState → Pred → Gen) : List BLit → DomState → Gen
  | [], st => (.ok [], st)
  | c :: cs, st =>
    match domainForSyms rec (blitSyms c) st with
    | (.error e, st) => (.error e, st)
    | (.ok r1, st) =>
      match domainForConds rec cs st with
      | (.error e, st) => (.error e, st)
      | (.ok r2, st) => (.ok (r1 ++ r2), st)

/-- `for head, condition in self.domain_rules[pred]` -/
def domainForRules (rec : DomState → Pred → Gen) (pred : Pred) : List DRule → DomState → Gen
  | [], st => (.ok [], st)
  | (head, cond) :: rs, st =>
    match st.domainPredicate pred with
    | .error e => (.error e, st)
    | .ok d =>
      match head with
      | .fn _ args _ =>
        match domainForConds rec cond st with
        | (.error e, st) => (.error e, st)
        | (.ok r1, st) =>
          let rule : Stm := .rule 1 1 (.lit (.pos, .sym (.fn d.name args false))) cond
          match domainForRules rec pred rs st with
          | (.error e, st) => (.error e, st)
          | (.ok r2, st) => (.ok (r1 ++ [rule] ++ r2), st)
      | _ => (.error "py: AttributeError: head.symbol.arguments", st)

/-- `create_domain(pred)` with an explicit bound on the nesting depth -/
def createDomainFuel : Nat → DomState → Pred → Gen
  | 0, st, _ => (.error "fuel: create_domain", st)
  | fuel + 1, st, pred =>
    if st.created.contains pred then (.ok [], st)
    else
      let st := { st with created := pred :: st.created }
      if !st.hasDomain pred then (.error "py: RuntimeError: Can not create domain", st)
      else if st.isStatic pred then (.ok [], st)
      else match st.domainRules.lookup pred with
        | none => (.error "py: RuntimeError: Can not create domain (no domain rules)", st)
        | some rules => domainForRules (createDomainFuel fuel) pred rules st

/-- `list(create_domain(pred))`.  Fuel: a nested call that does not return at once is for a key of `domains` that
is not yet in `created_domain` and puts it there, so along a chain of nested calls these keys are distinct: below
the outermost call there are at most `len(domains)` such calls and one more that returns at once, i.e. the
nesting depth is at most `len(domains) + 2`. -/
def createDomain (st : DomState) (pred : Pred) : Gen :=
  createDomainFuel (st.domains.length + 2) st pred

/-! ## the rule templates -/

/-- `AnnotatedPredicate` -/
structure APred where
  pred : Pred
  annot : List Nat

def gVar (i : Nat) : Term := .var ("G" ++ toString i)

/-- `var_global_flat` -/
def globalFlat (ap : APred) : List Term :=
  ((List.range ap.pred.arity).filter fun i => !ap.annot.contains i).map gVar

/-- `var_global_map` -/
def globalMap (ap : APred) : Nat → Option Term :=
  fun i => if i < ap.pred.arity && !ap.annot.contains i then some (gVar i) else none

/-- `m | {pos: v}` -/
def withPos (m : Nat → Option Term) (pos : Nat) (v : Term) : Nat → Option Term :=
  fun i => if i == pos then some v else m i

/-- `_var_map` -/
def varMap (l : List Term) : Nat → Option Term := fun i => l[i]?

/-- `_create_projected_lit` -/
def projLit (p : Pred) (m : Nat → Option Term) (s : Sign := .pos) : Lit :=
  (s, .sym (.fn p.name ((List.range p.arity).map fun i => (m i).getD (.var "_")) false))

def joinPositions (ap : APred) : String := "_".intercalate (ap.annot.map toString)

def restArity (ap : APred) (extra : Int) : Int := (ap.pred.arity : Int) - (ap.annot.length : Int) + extra

/-- `min_anon_predicate` -/
def minAnon (st : DomState) (ap : APred) (pos : Nat) : Except String (Pred × DomState) := do
  let d ← st.domainPredicate ap.pred
  st.predicate (MIN_STR ++ joinPositions ap ++ "_" ++ toString pos ++ d.name) (restArity ap 1)

/-- `max_anon_predicate` -/
def maxAnon (st : DomState) (ap : APred) (pos : Nat) : Except String (Pred × DomState) := do
  let d ← st.domainPredicate ap.pred
  st.predicate (MAX_STR ++ joinPositions ap ++ "_" ++ toString pos ++ d.name) (restArity ap 1)

/-- `next_anon_predicate` -/
def nextAnon (st : DomState) (ap : APred) (pos : Nat) : Except String (Pred × DomState) := do
  let d ← st.domainPredicate ap.pred
  st.predicate (NEXT_STR ++ joinPositions ap ++ "_" ++ toString pos ++ d.name) (restArity ap 2)

/-- `chain_pred` -/
def chainPred (st : DomState) (ap : APred) (pos : Nat) (maximum : Bool) : Except String (Pred × DomState) := do
  let d ← st.domainPredicate ap.pred
  st.predicate (CHAIN_STR ++ "_" ++ joinPositions ap ++ "_" ++ toString pos
                ++ (if maximum then MAX_STR else MIN_STR) ++ d.name) (restArity ap 1)

def cmpLit (t : Term) (gs : List (CmpOp × Term)) : Lit := (.pos, .cmp t (gs.map fun g => ⟨g.1, g.2⟩))

/-- `create_next_pred_for_annotated_pred(anon_pred, position)` -/
def createNext (st : DomState) (ap : APred) (pos : Nat) : Except String (List Stm × DomState) := do
  let pred := ap.pred
  if !st.hasDomain pred then throw "py: RuntimeError: Can not create order encoding, unable to create domain"
  if pos ≥ pred.arity then throw "py: RuntimeError: Can not create order encoding, position exceeds arity"
  let (minP, st) ← minAnon st ap pos
  let (maxP, st) ← maxAnon st ap pos
  let (nextP, st) ← nextAnon st ap pos
  let dom ← st.domainPredicate pred
  let vX : Term := .var "X"
  let vL : Term := .var "L"
  let vP : Term := .var "P"
  let vN : Term := .var "N"
  let vB : Term := .var "B"
  let flat := globalFlat ap
  let gm := globalMap ap
  let aggBody (f : AggFun) : List BLit :=
    [.lit (.pos, .bagg 1 1 (some ⟨.eq, vX⟩) f [([vL], [projLit dom (withPos gm pos vL)])] none),
     .lit (projLit dom gm)]
  let minRule : Stm := .rule 1 1 (.lit (projLit minP (varMap (flat ++ [vX])))) (aggBody .min)
  let maxRule : Stm := .rule 1 1 (.lit (projLit maxP (varMap (flat ++ [vX])))) (aggBody .max)
  let tail : List BLit :=
    [.lit (projLit dom (withPos gm pos vN)),
     .lit (cmpLit vN [(.gt, vP)]),
     .clit (projLit dom (withPos gm pos vB) .neg,
            [projLit dom (withPos gm pos vB), cmpLit vP [(.lt, vB), (.lt, vN)]])]
  let nextHead : Head := .lit (projLit nextP (varMap (flat ++ [vP, vN])))
  let next1 : Stm := .rule 1 1 nextHead (.lit (projLit minP (varMap (flat ++ [vP]))) :: tail)
  let next2 : Stm := .rule 1 1 nextHead (.lit (projLit nextP (varMap (flat ++ [.var "_", vP]))) :: tail)
  pure ([minRule, maxRule, next1, next2], st)

/-- `create_chain_pred_for_annotated_pred(anon_pred, position, maximum)` -/
def createChain (st : DomState) (ap : APred) (pos : Nat) (maximum : Bool) :
    Except String (List Stm × DomState) := do
  let pred := ap.pred
  if !ap.annot.contains pos then throw "py: AssertionError: position in anon_pred.annotated_positions"
  let vP : Term := .var "P"
  let vN : Term := .var "N"
  let flat := globalFlat ap
  let gm := globalMap ap
  let (nextP, st) ← nextAnon st ap pos
  let (chainP, st) ← chainPred st ap pos maximum
  let r1 : Stm := .rule 1 1 (.lit (projLit chainP (varMap (flat ++ [vP]))))
    [.lit (projLit pred (withPos gm pos vP))]
  let prevAgg := if maximum then vP else vN
  let nextAgg := if maximum then vN else vP
  let r2 : Stm := .rule 1 1 (.lit (projLit chainP (varMap (flat ++ [prevAgg]))))
    [.lit (projLit chainP (varMap (flat ++ [nextAgg]))),
     .lit (projLit nextP (varMap (flat ++ [vP, vN])))]
  pure ([r1, r2], st)

/-- an `Except` computation that only changes the state on success, as a `Gen` -/
def genOf (st : DomState) : Except String (List Stm × DomState) → Gen
  | .ok (r, st') => (.ok r, st')
  | .error e => (.error e, st)

/-! ## requests on one object (the driver's `dep_seq`) -/

inductive Req where
  | domain (p : Pred)
  | next (ap : APred) (pos : Nat)
  | chain (ap : APred) (pos : Nat) (maximum : Bool)
  | addRule (p : Pred) (rules : List DRule)

def runReq (st : DomState) : Req → Gen
  | .domain p => createDomain st p
  | .next ap pos => genOf st (createNext st ap pos)
  | .chain ap pos m => genOf st (createChain st ap pos m)
  | .addRule p rules =>
    -- `_not_static.add(pred)` happens before anything can raise
    match addDomainRule st p rules with
    | .ok st' => (.ok [], st')
    | .error e => (.error e, { st with notStatic := pInsert st.notStatic p })

/-- every request on the same object, continuing after an exception -/
def runReqs : DomState → List Req → List (Except String (List Stm)) × DomState
  | st, [] => ([], st)
  | st, r :: rs =>
    let (a, st) := runReq st r
    let (as, st) := runReqs st rs
    (a :: as, st)

/-! ## the fragment -/

def termHasPool (t : Term) : Bool := !(t.collect Term.isPool).isEmpty

def stmOutside (s : Stm) : Option String :=
  match s with
  | .rule _ _ h b =>
    if h.hasTheory || b.any BLit.hasTheory then some "theory atom"
    else if s.terms.any termHasPool then some "pool" else none
  | .minimize _ _ _ _ _ b =>
    if b.any BLit.hasTheory then some "theory atom"
    else if s.terms.any termHasPool then some "pool" else none
  | _ => none

def progOutside (prg : Prog) : Option String := prg.findSome? stmOutside

end Dep
end NgoVerif
