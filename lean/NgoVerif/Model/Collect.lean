import NgoVerif.Syntax
/-!
# Model of the traversal helpers of `ngo/utils/ast.py`

* `collect_ast` (a `clingo.ast.Transformer` with one `visit_<Kind>`): pre-order over `child_keys`, **no descent
  below a match**.
* the predicate collectors `literal_predicate`, …, `predicates`, `headderivable_predicates` with exactly the
  yield order (and the duplicates) of the Python generators.
-/
namespace NgoVerif

/-! ## term level -/

/-- `collect_ast(t, Kind)` for a term kind given as a predicate on the node. -/
def Term.collect (p : Term → Bool) (t : Term) : List Term :=
  if p t then [t] else
  match t with
  | .var _ => []
  | .sym _ => []
  | .un _ a => a.collect p
  | .bin _ l r => l.collect p ++ r.collect p
  | .ival l r => l.collect p ++ r.collect p
  | .fn _ args _ => args.flatMap (fun a => a.collect p)
  | .pool args => args.flatMap (fun a => a.collect p)

def Term.isVar : Term → Bool | .var _ => true | _ => false
def Term.isFn : Term → Bool | .fn .. => true | _ => false
def Term.isIval : Term → Bool | .ival .. => true | _ => false
def Term.isUn : Term → Bool | .un .. => true | _ => false
def Term.isBin : Term → Bool | .bin .. => true | _ => false
def Term.isPool : Term → Bool | .pool .. => true | _ => false

/-- names of the variables of a term, in `collect_ast(·, "Variable")` order -/
def Term.vars : Term → List String
  | .var n => [n]
  | .sym _ => []
  | .un _ a => a.vars
  | .bin _ l r => l.vars ++ r.vars
  | .ival l r => l.vars ++ r.vars
  | .fn _ args _ => args.flatMap Term.vars
  | .pool args => args.flatMap Term.vars

def optGuardTerms : Option Guard → List Term
  | none => []
  | some g => [g.term]

/-! ## top-level terms of atoms, literals, … in `child_keys` order -/
mutual
def Atom.terms : Atom → List Term
  | .sym t => [t]
  | .cmp t gs => t :: gs.map (·.term)
  | .bool _ => []
  | .bagg _ _ lg _ elems rg => optGuardTerms lg ++ bElemsTerms elems ++ optGuardTerms rg
  | .agg lg elems rg => optGuardTerms lg ++ cElemsTerms elems ++ optGuardTerms rg
  | .theory _ => []
def litTerms : Sign × Atom → List Term
  | (_, a) => a.terms
def litsTerms : List (Sign × Atom) → List Term
  | [] => []
  | l :: ls => litTerms l ++ litsTerms ls
def bElemsTerms : List (List Term × List (Sign × Atom)) → List Term
  | [] => []
  | (ts, c) :: es => ts ++ litsTerms c ++ bElemsTerms es
def cElemsTerms : List ((Sign × Atom) × List (Sign × Atom)) → List Term
  | [] => []
  | (l, c) :: es => litTerms l ++ litsTerms c ++ cElemsTerms es
end

def condLitTerms (c : CondLit) : List Term := litTerms c.1 ++ litsTerms c.2

def BLit.terms : BLit → List Term
  | .lit l => litTerms l
  | .clit c => condLitTerms c

def bodyTerms (b : List BLit) : List Term := b.flatMap BLit.terms

def Head.terms : Head → List Term
  | .lit l => litTerms l
  | .disj es => es.flatMap condLitTerms
  | .agg lg es rg => optGuardTerms lg ++ es.flatMap condLitTerms ++ optGuardTerms rg
  | .hagg lg _ es rg => optGuardTerms lg ++ es.flatMap (fun e => e.1 ++ condLitTerms e.2) ++ optGuardTerms rg
  | .theory _ => []

def Stm.terms : Stm → List Term
  | .rule _ _ h b => h.terms ++ bodyTerms b
  | .minimize _ _ w p ts b => w :: p :: ts ++ bodyTerms b
  | .showSig .. => []
  | .showTerm t b => t :: bodyTerms b
  | .defn _ v _ => [v]
  | .program .. => []
  | .external a b t => a :: bodyTerms b ++ [t]
  | .opaque .. => []

/-- `collect_ast(stm, "Variable")` as names -/
def Stm.vars (s : Stm) : List String := s.terms.flatMap Term.vars
def litVars (l : Lit) : List String := (litTerms l).flatMap Term.vars
def BLit.vars (b : BLit) : List String := b.terms.flatMap Term.vars
def Head.vars (h : Head) : List String := h.terms.flatMap Term.vars
def Stm.collectTerms (p : Term → Bool) (s : Stm) : List Term := s.terms.flatMap (Term.collect p)
def litCollect (p : Term → Bool) (l : Lit) : List Term := (litTerms l).flatMap (Term.collect p)
def BLit.collect (p : Term → Bool) (b : BLit) : List Term := b.terms.flatMap (Term.collect p)

/-! ## predicate collectors -/

def symPred? : Term → Option Pred
  | .fn name args _ => some ⟨name, args.length⟩
  | _ => none

mutual
/-- `literal_predicate` -/
def litPreds (signs : List Sign) : Sign × Atom → List SPred
  | (s, a) =>
    (match a with
     | .sym t => if signs.contains s then (match symPred? t with | some p => [⟨s, p⟩] | none => []) else []
     | _ => [])
    ++ atomAggPreds signs a
/-- `aggregate_predicate` ++ `headorbody_aggregate_predicate` applied to an atom -/
def atomAggPreds (signs : List Sign) : Atom → List SPred
  | .agg _ elems _ => cElemsPreds signs elems
  | .bagg _ _ _ _ elems _ => bElemsPreds signs elems
  | _ => []
def litsPreds (signs : List Sign) : List (Sign × Atom) → List SPred
  | [] => []
  | l :: ls => litPreds signs l ++ litsPreds signs ls
/-- elements of an old-style aggregate: `conditional_literal_predicate(elem)` then the conditions once more -/
def cElemsPreds (signs : List Sign) : List ((Sign × Atom) × List (Sign × Atom)) → List SPred
  | [] => []
  | (l, c) :: es => litPreds signs l ++ litsPreds signs c ++ litsPreds signs c ++ cElemsPreds signs es
def bElemsPreds (signs : List Sign) : List (List Term × List (Sign × Atom)) → List SPred
  | [] => []
  | (_, c) :: es => litsPreds signs c ++ bElemsPreds signs es
end

/-- `conditional_literal_predicate` -/
def condLitPreds (signs : List Sign) (c : CondLit) : List SPred :=
  litPreds signs c.1 ++ litsPreds signs c.2

/-- one body literal as `body_predicates` treats it -/
def BLit.preds (signs : List Sign) : BLit → List SPred
  | .lit l => litPreds signs l
  | .clit c => condLitPreds signs c

def bodyPreds (signs : List Sign) (b : List BLit) : List SPred := b.flatMap (BLit.preds signs)

/-- `head_predicates` on the head of a rule -/
def Head.preds (signs : List Sign) : Head → List SPred
  | .lit l => litPreds signs l
  | .agg _ es _ => es.flatMap (fun e => condLitPreds signs e ++ litsPreds signs e.2)
  | .hagg _ _ es _ => es.flatMap (fun e => condLitPreds signs e.2)
  | .disj es => es.flatMap (condLitPreds signs)
  | .theory _ => []

def allSigns : List Sign := [.pos, .neg, .dneg]

/-- `predicates(stm, signs)` for a statement -/
def Stm.preds (signs : List Sign) : Stm → List SPred
  | .rule _ _ h b => h.preds signs ++ bodyPreds signs b
  | .minimize _ _ _ _ _ b => bodyPreds signs b
  | _ => []

/-- `body_predicates(stm, signs)` -/
def Stm.bodyPreds (signs : List Sign) : Stm → List SPred
  | .rule _ _ _ b => NgoVerif.bodyPreds signs b
  | _ => []

/-- `minimize_predicates(stm, signs)` -/
def Stm.minimizePreds (signs : List Sign) : Stm → List SPred
  | .minimize _ _ _ _ _ b => NgoVerif.bodyPreds signs b
  | _ => []

/-- `headderivable_predicates(stm)` -/
def Stm.headDerivable : Stm → List SPred
  | .rule _ _ h _ =>
    match h with
    | .lit l => litPreds [.pos] l
    | .agg _ es _ => es.flatMap (fun e => litPreds [.pos] e.1)
    | .hagg _ _ es _ => es.flatMap (fun e => litPreds [.pos] e.2.1)
    | .disj es => es.flatMap (fun e => litPreds [.pos] e.1)
    | .theory _ => []
  | _ => []

end NgoVerif
