import NgoVerif.Model.Normalize
import NgoVerif.Model.Dependency
import NgoVerif.Model.SumAgg
/-!
# Model of `ngo/inline.py`: class `InlineTranslator`

`InlineTranslator(prg, inputs, outputs).execute(prg)` = `Inline.execute`:

* `__init__`: `UniqueNames(prg, inputs)`, `DomainPredicates(unique_names, prg)` (`Dep.DomState.init`; only
  `is_static` is ever asked, and the object is never updated while rules disappear), the two predicate lists;
* `is_single` (`isSingle`), `has_anonymous_vars`, `_info` (`info`);
* `transform_args` (`extendMap`/`applyMap`): the Python function walks the ASTs with a `Transformer` whose
  `visit_Variable` looks the variable up in a dict that only ever GROWS (a missing variable gets
  `unique_vars.make_unique(var)`); the replacement is not visited again.  So the value a variable occurrence gets is
  the value the dict has for it after the FIRST occurrence in visit order, and the walk is: extend the dict over
  the variable occurrences in `collect_ast(·, "Variable")` order, then substitute.  The dict is rebuilt on every
  call, the `UniqueVariables` object lives on (so a second aggregate element gets *other* fresh names);
* `inline_body_aggregate` + `compute_new_body_elements`, `replace_inside_agg`, `replace_single_rule_for_agg`,
  `inline_in_agg`;
* `get_body_lit`, `is_connected_to_agregates`, `inline_literal`, `replace_single_rule_for_body`,
  `inline_in_rulebody`;
* `analyze_minimize`, `inline_minimize`, `inline_in_minimize`; `execute`.

clingo AST equality ignores locations; the mirror keeps the begin of rules, objectives and body aggregates, so every
`==` of the Python code on statements / literals / atoms is an equality after stripping those (`stmEq`, …).
`x.update(...)` keeps the location of `x`.

Python exceptions are `Except.error "py: …"`, exhausted fuel is `"fuel: …"` (never expected).
Theory atoms and pools are outside the fragment (`Dep.progOutside`, checked by the driver).
-/
namespace NgoVerif
namespace Inline
open SumAgg (stripAtom stripLit stripLits stripBLit elemEq analyticsOfGuards potUnifySeq)

/-! ## AST equality (locations ignored) -/

def stripHead : Head → Head
  | .lit l => .lit (stripLit l)
  | h => h

def stripStm : Stm → Stm
  | .rule _ _ h b => .rule 0 0 (stripHead h) (b.map stripBLit)
  | .minimize _ _ w p ts b => .minimize 0 0 w p ts (b.map stripBLit)
  | .showTerm t b => .showTerm t (b.map stripBLit)
  | .external a b t => .external a (b.map stripBLit) t
  | s => s

/-- `a == b` on statements -/
def stmEq (a b : Stm) : Bool := stripStm a == stripStm b

/-- `a == b` on body literals -/
def blitEq (a b : BLit) : Bool := stripBLit a == stripBLit b

/-- `a == b` on atoms -/
def atomEq (a b : Atom) : Bool := stripAtom a == stripAtom b

/-! ## small helpers -/

def isBAggLit : BLit → Bool
  | .lit (_, .bagg ..) => true
  | _ => false

/-- `collect_ast(stm, "BodyAggregate")` restricted to a body: body aggregates only occur as atoms of body
literals (conditions and heads cannot hold them) -/
def bodyBAggs (body : List BLit) : List Atom :=
  body.filterMap fun b => match b with
    | .lit (_, .bagg l c lg f es rg) => some (.bagg l c lg f es rg)
    | _ => none

/-- `RuleDependency.get_statements_that_use(pred)`: one entry per YIELD of `body_predicates` /
`minimize_predicates`, so a statement that uses the predicate twice is listed twice -/
def stmsThatUse (prg : Prog) (p : Pred) : List Stm :=
  prg.flatMap fun s => (s.usedInBody.filter (· == p)).map fun _ => s

/-- the immutable part of the `InlineTranslator` object -/
structure Ctx where
  inputs : List Pred
  outputs : List Pred
  /-- `domain_predicates._not_static`, computed ONCE from the program handed to `__init__` -/
  notStatic : List Pred

/-- `has_anonymous_vars(pred, body)`: only top-level body literals are looked at -/
def hasAnonymousVars (p : Pred) (body : List BLit) : Bool :=
  body.any fun b => match b with
    | .lit (_, .sym (.fn n args _)) => (⟨n, args.length⟩ : Pred) == p && args.any (· == Term.var "_")
    | _ => false

/-- `_info(rule)`: (number of aggregates, is there a conditional literal).  `collect_ast(blit,
"ConditionalLiteral")` also finds the elements of an old-style body `Aggregate`. -/
def info (body : List BLit) : Nat × Bool :=
  let numAggs := (body.map fun b => match b with
    | .lit (_, .bagg ..) => 1
    | .lit (_, .agg ..) => 1
    | _ => 0).sum
  let numCond := body.any fun b => match b with
    | .clit _ => true
    | .lit (_, .agg _ es _) => !es.isEmpty
    | _ => false
  (numAggs, numCond)

/-! ## `is_single` -/

/-- a statement for which `is_single` returned an index, with the parts of it that are used later -/
structure Single where
  stm : Stm
  head : Head
  name : String
  args : List Term
  body : List BLit
  pred : Pred
  /-- the value returned by `is_single` -/
  index : Nat
  /-- `rdp.get_statements_that_use(hpred)[0]` -/
  orig : Stm

/-- `is_single(stm, rdp)` with `rdp = RuleDependency(prg)` -/
def isSingle (c : Ctx) (prg : Prog) (stm : Stm) : Option Single :=
  match stm with
  | .rule _ _ (.lit (.pos, .sym (.fn name args ext))) body =>
    let hpred : Pred := ⟨name, args.length⟩
    -- distinct plain variables (`len(set(collect_ast(hatom.symbol, "Variable"))) != len(arguments)`)
    if args.any (fun a => !a.isVar) || (vOfList (args.flatMap Term.vars)).length != args.length then none
    else if c.inputs.contains hpred || c.outputs.contains hpred || !c.notStatic.contains hpred then none
    else if (SumAgg.rulesThatDerive prg hpred).length != 1 then none
    else
      match stmsThatUse prg hpred with
      | [u] =>
        if stmEq u stm || hasAnonymousVars hpred u.body then none
        else
          match bodyBAggs body with
          | [.bagg _ _ lg _ _ rg] =>
            let an := analyticsOfGuards lg rg
            match an.equalVars, an.bounds with
            | [v], [] =>
              match args.findIdx? (· == Term.var v) with
              | some i => some ⟨stm, .lit (.pos, .sym (.fn name args ext)), name, args, body, hpred, i, u⟩
              | none => none
            | _, _ => none
          | _ => none
      | _ => none
  | _ => none

/-! ## `transform_args` -/

abbrev VMap := List (String × Term)

def vmSet (k : String) (v : Term) : VMap → VMap
  | [] => [(k, v)]
  | (k', v') :: rest => if k' == k then (k', v) :: rest else (k', v') :: vmSet k v rest

/-- `dict(zip(orig, passed))`; keys that are not Variables are never looked up (only Variables are) -/
def zipMap : List Term → List Term → VMap → VMap
  | o :: os, p :: ps, m => zipMap os ps (match o with | .var n => vmSet n p m | _ => m)
  | _, _, m => m

/-- the calls of `trans` in visit order -/
def extendMap : List String → VMap → UniqueVars → Except String (VMap × UniqueVars)
  | [], m, uv => pure (m, uv)
  | v :: vs, m, uv =>
    if (m.lookup v).isSome then extendMap vs m uv
    else
      match uv.makeUnique v with
      | none => .error "fuel: make_unique"
      | some (n, uv') => extendMap vs (m ++ [(v, Term.var n)]) uv'

def applyMap (m : VMap) : Term → Term := Term.subst fun v => (m.lookup v).getD (.var v)

/-! ## inlining into an aggregate element -/

/-- the `good` table -/
def good : AggFun → List AggFun
  | .min => [.min]
  | .max => [.max]
  | .count => [.count, .sum, .sump]
  | .sum => [.sum]  -- fix (known_findings.json `fixed:`): a negative total is ignored by an outer #sum+
  | .sump => [.sum, .sump]

/-- `Function(LOC, "unique", [], False)` -/
def uniqueT : Term := .fn "unique" [] false

/-- the `for elem in agg.elements` loop of `compute_new_body_elements` -/
def newElems (hargs pargs : List Term) (rbody : List Lit) (replTerms : List Term) (others : List Lit) (maxArity : Nat) :
    List BAggElem → UniqueVars → Except String (List BAggElem × UniqueVars)
  | [], uv => pure ([], uv)
  | ie :: rest, uv => do
    -- all lists are transformed in ONE call: terms, then the rest of the rule body, then the condition
    let vars := ie.1.flatMap Term.vars ++ (litsTerms rbody).flatMap Term.vars ++ (litsTerms ie.2).flatMap Term.vars
    let (m, uv) ← extendMap vars (zipMap hargs pargs []) uv
    let terms := ie.1.map (applyMap m)
    let cond := litsMapTerms (applyMap m) (rbody ++ ie.2)
    let newTerms := terms ++ replTerms.drop 1
    -- `[unique] * (max_arity - len(new_terms) + 1)`: a negative count gives the empty list
    let newTerms := newTerms ++ List.replicate (maxArity + 1 - newTerms.length) uniqueT
    let (tl, uv) ← newElems hargs pargs rbody replTerms others maxArity rest uv
    -- fix 919cd70: the other conditions of the replaced element are kept (untransformed: they belong to the outer rule)
    pure ((newTerms, cond ++ others) :: tl, uv)

/-- `compute_new_body_elements`.  NB `max_arity` is the maximal number of CONDITIONS of an element of the outer
aggregate, not the maximal tuple length. -/
def computeNewBodyElements (sg : Single) (pargs : List Term) (re : BAggElem) (rc : Lit) (ielems elems : List BAggElem)
    (uv : UniqueVars) : Except String (List BAggElem × UniqueVars) := do
  let maxArity := elems.foldl (fun m e => max m e.2.length) 0
  let rbody ← (sg.body.filter fun b => !isBAggLit b).mapM fun b => match b with
    | .lit l => pure l
    | .clit _ => (.error "py: unreachable: conditional literal although num_cond == 0" : Except String Lit)
  newElems sg.args pargs rbody re.1 (re.2.filter fun c => stripLit c != stripLit rc) maxArity ielems uv

/-- the double loop that looks for the element / condition holding `hpred`: the LAST match wins -/
def findReplace (hpred : Pred) (elems : List BAggElem) : Option (BAggElem × Lit) :=
  elems.foldl (fun acc e =>
    e.2.foldl (fun acc cond =>
      if ((litPreds allSigns cond).map (·.pred)).contains hpred then some (e, cond) else acc) acc) none

/-- `_nonnegative_weights(agg)`: every element has a non-negative number as weight -/
def nonnegativeWeights (elems : List BAggElem) : Bool :=
  elems.all fun e =>
    match e.1 with
    | .sym (.num n) :: _ => n ≥ 0
    | _ => false

/-- `inline_body_aggregate(rule, atom, unique_vars)` -/
def inlineBodyAggregate (sg : Single) (atom : Atom) (uv : UniqueVars) : Except String (Atom × UniqueVars) :=
  match atom with
  | .bagg l c lg f elems rg =>
    let (numAggs, numCond) := info sg.body
    if numCond || numAggs != 1 then pure (atom, uv)
    else
      match bodyBAggs sg.body with
      | (.bagg _ _ ilg ifn ielems irg) :: _ => do
        -- fix (known_findings.json `fixed:`): a variable that joins the helper's body with its aggregate has to be a
        -- head variable
        let aggVars := (bElemsTerms ielems).flatMap Term.vars
        let bodyVars := (sg.body.filter fun b => match b with | .lit (_, .bagg ..) => false | _ => true).flatMap BLit.vars
        let headVars := sg.args.flatMap Term.vars
        if (aggVars.filter fun v => bodyVars.contains v).any (fun v => !headVars.contains v) then return (atom, uv)
        let resultFn := if ifn == .sum then AggFun.sum else f
        if !(good ifn).contains f then return (atom, uv)
        -- fix (known_findings.json `fixed:`): an inner #sum+ ignores negative weights, an outer #sum would count them
        if ifn == .sump && f == .sum && !nonnegativeWeights ielems then return (atom, uv)
        let an := analyticsOfGuards ilg irg
        match an.equalVars with
        | [] => .error "py: IndexError: equal_variable_bound[0]"
        | ev :: _ =>
          -- `for hv_pos, hv in enumerate(...): if hv == Variable(ev): break` (the `else` branch is a no-op)
          let found : Option (Nat × Term) :=
            match sg.args.findIdx? (· == Term.var ev) with
            | some i => some (i, Term.var ev)
            | none => match sg.args.getLast? with
              | some a => some (sg.args.length - 1, a)
              | none => none
          match found with
          | none => .error "py: NameError: hv"
          | some (hvPos, hv) =>
            if (sg.stm.vars.filter fun n => Term.var n == hv).length != 2 then return (atom, uv)
            match findReplace sg.pred elems with
            | none => return (atom, uv)
            | some (re, rc) =>
              if rc.1 != .pos then return (atom, uv)
              -- fix (known_findings.json `fixed:`): the arguments of the helper atom have to be distinct variables
              match rc.2 with
              | .sym (.fn _ cargs _) =>
                if cargs.any (fun a => !a.isVar) || cargs.any (fun a => (cargs.filter (· == a)).length != 1) then
                  return (atom, uv)
                -- fix (known_findings.json `fixed:`): the element's tuple has to tell the helper's groups apart
                let tupleVars := re.1.tail.flatMap Term.vars
                if ((List.range cargs.length).zip cargs).any (fun (ia : Nat × Term) =>
                    ia.1 != hvPos && !(ia.2.vars.all fun v => tupleVars.contains v)) then
                  return (atom, uv)
              | _ => pure ()
              let rest := elems.filter fun e => !elemEq e re
              if ← rest.anyM (fun x => potUnifySeq x.1 re.1) then return (atom, uv)
              match rc.2 with
              | .sym (.fn _ pargs _) =>
                match re.1 with
                | [] => return (atom, uv)
                | t0 :: _ =>
                  match pargs[hvPos]? with
                  | none => .error "py: IndexError: replace_cond.atom.symbol.arguments[hv_pos]"
                  | some a =>
                    if t0 != a then return (atom, uv)
                    let (newEs, uv) ← computeNewBodyElements sg pargs re rc ielems elems uv
                    pure (.bagg l c lg resultFn (rest ++ newEs) rg, uv)
              | _ => .error "py: AttributeError: replace_cond.atom.symbol.arguments"
      | _ => .error "py: IndexError: collect_ast(rule, BodyAggregate)[0]"
  | _ => pure (atom, uv)

/-- the `for blit in orig.body` loop of `replace_inside_agg`; ONE `UniqueVariables` object for all aggregates -/
def replaceInBody (sg : Single) : List BLit → UniqueVars → Except String (List BLit)
  | [], _ => pure []
  | .lit (s, .bagg l c lg f es rg) :: rest, uv => do
    let (a, uv) ← inlineBodyAggregate sg (.bagg l c lg f es rg) uv
    let tl ← replaceInBody sg rest uv
    pure (.lit (s, a) :: tl)
  | b :: rest, uv => do
    let tl ← replaceInBody sg rest uv
    pure (b :: tl)

/-- `replace_inside_agg(stm, orig)` -/
def replaceInsideAgg (sg : Single) (orig : Stm) : Except String Stm :=
  match orig with
  | .rule l c h body => do
    let body' ← replaceInBody sg body (UniqueVars.init orig)
    pure (.rule l c h body')
  | _ => pure orig

/-- the `for stm in prg` loop of `replace_single_rule_for_agg`; `none` = `return prg` (nothing replaced) -/
def aggCandidates (c : Ctx) (prg : Prog) : List Stm → Except String (Option Prog)
  | [] => pure none
  | stm :: rest =>
    match isSingle c prg stm with
    | none => aggCandidates c prg rest
    | some sg => do
      let repl ← replaceInsideAgg sg sg.orig
      if !stmEq sg.orig repl then
        pure (some (prg.filterMap fun r =>
          if stmEq r stm then none else if stmEq r sg.orig then some repl else some r))
      else aggCandidates c prg rest

/-- `replace_single_rule_for_agg(prg)` -/
def replaceSingleRuleForAgg (c : Ctx) (prg : Prog) : Except String (Option Prog) := aggCandidates c prg prg

/-- `while True: new = step(prg); if new == prg: break; prg = new`, with the number of successful rounds.
A successful round returns a program without the inlined rule (`if r == stm: continue`), i.e. a strictly shorter
one, so it is never `==` the old program and there are at most `len(prg)` successful rounds: fuel
`len(prg) + 1` is enough. -/
def fixLoop (step : Prog → Except String (Option Prog)) : Nat → Prog → Nat → Except String (Prog × Nat)
  | 0, _, _ => .error "fuel: inline loop"
  | fuel + 1, prg, n => do
    match ← step prg with
    | none => pure (prg, n)
    | some p => fixLoop step fuel p (n + 1)

/-- `inline_in_agg` -/
def inlineInAgg (c : Ctx) (prg : Prog) : Except String (Prog × Nat) :=
  fixLoop (replaceSingleRuleForAgg c) (prg.length + 1) prg 0

/-! ## inlining into a body literal -/

def setEq (a b : VSet) : Bool := vSubset a b && vSubset b a

/-- `get_body_lit(stm, orig)`: the `for blit in orig.body` loop -/
def getBodyLit (sg : Single) : List BLit → Except String (Option BLit)
  | [] => pure none
  | b :: rest =>
    match b with
    | .lit (s, .sym (.fn n a _)) =>
      if (⟨n, a.length⟩ : Pred) != sg.pred then getBodyLit sg rest
      else
        match s with
        | .dneg => getBodyLit sg rest
        | .pos => pure (some b)
        | .neg =>
          -- `len(stm.body) > 1 or global_vars_inside_head(..) != global_vars_inside_body(..)` short-circuits
          if sg.body.length > 1 then getBodyLit sg rest
          else do
            let gh ← globalVarsInsideHead sg.head
            let gb ← globalVarsInsideBody sg.body
            if !setEq gh gb then getBodyLit sg rest
            else
              match sg.body with
              | .lit (s0, _) :: _ => if s0 != .pos then getBodyLit sg rest else pure (some b)
              | .clit _ :: _ => .error "py: AttributeError: ConditionalLiteral has no sign"
              | [] => .error "py: IndexError: stm.body[0]"
    | _ => getBodyLit sg rest

/-- a node `(orig, blit)` of the graph `g` with its attributes -/
structure Node where
  orig : Stm
  blit : BLit
  sg : Single

def nodeIs (n : Node) (orig : Stm) (b : BLit) : Bool := stmEq n.orig orig && blitEq n.blit b

/-- `g.add_node(key, **attrs)`: a known key keeps its position and gets the new attributes -/
def addNode (n : Node) : List Node → List Node
  | [] => [n]
  | m :: rest => if nodeIs m n.orig n.blit then n :: rest else m :: addNode n rest

/-- the first loop of `replace_single_rule_for_body` -/
def buildNodes (c : Ctx) (prg : Prog) : List Stm → List Node → Except String (List Node)
  | [], g => pure g
  | stm :: rest, g =>
    match isSingle c prg stm with
    | none => buildNodes c prg rest g
    | some sg => do
      match ← getBodyLit sg sg.orig.body with
      | none => buildNodes c prg rest g
      | some b => buildNodes c prg rest (addNode ⟨sg.orig, b, sg⟩ g)

/-- `add(varlist)`: one increment of the node attribute `aggr` per list entry -/
def addW (w : List (Term × Nat)) (t : Term) : List (Term × Nat) :=
  match w with
  | [] => [(t, 1)]
  | (t', n) :: rest => if t' == t then (t', n + 1) :: rest else (t', n) :: addW rest t

def atomVarTerms (a : Atom) : List Term := (a.terms.flatMap Term.vars).map Term.var

/-- the `for blit in orig.body` loop of `is_connected_to_agregates`: the `aggr` weights and, per comparison, the
variables that `permutations(·, 2)` connects pairwise -/
def connBody (nodes : List Node) (orig : Stm) (globals : VSet) :
    List BLit → List (Term × Nat) → List (List Term) → Except String (List (Term × Nat) × List (List Term))
  | [], w, cl => pure (w, cl)
  | b :: rest, w, cl =>
    match nodes.find? (fun n => nodeIs n orig b) with
    | some n =>
      match b with
      | .lit (_, .sym (.fn _ args _)) =>
        match args[n.sg.index]? with
        | some a => connBody nodes orig globals rest (addW w a) cl
        | none => .error "py: IndexError: blit.atom.symbol.arguments[index]"
      | _ => .error "py: AttributeError: blit.atom.symbol.arguments"
    | none =>
      match b with
      | .lit (_, .bagg l c lg f es rg) =>
        let w := ((optGuardTerms lg).flatMap Term.vars).foldl (fun w v => addW w (.var v)) w
        let w := ((optGuardTerms rg).flatMap Term.vars).foldl (fun w v => addW w (.var v)) w
        let inside := vOfList ((Atom.bagg l c lg f es rg).terms.flatMap Term.vars)
        let w := (vInter globals inside).foldl (fun w v => addW w (.var v)) w
        connBody nodes orig globals rest w cl
      | .lit (_, .cmp t gs) => connBody nodes orig globals rest w (cl ++ [atomVarTerms (.cmp t gs)])
      | _ => connBody nodes orig globals rest w cl

/-- the connected component of `var`: grow by every comparison that touches it.
Fuel: every round but the last adds a term of a comparison, so `#terms + 1` rounds are enough. -/
def growComp (cliques : List (List Term)) : Nat → List Term → Except String (List Term)
  | 0, _ => .error "fuel: connected component"
  | fuel + 1, comp =>
    let comp' := cliques.foldl (fun c cl =>
      if cl.any c.contains then cl.foldl (fun c t => if c.contains t then c else c ++ [t]) c else c) comp
    if comp'.length == comp.length then pure comp else growComp cliques fuel comp'

/-- `is_connected_to_agregates(var, orig, g)` -/
def isConnected (var : Term) (orig : Stm) (nodes : List Node) : Except String Bool := do
  let globals ← globalVarsInsideBody orig.body
  let (w, cl) ← connBody nodes orig globals orig.body [] []
  let w := match orig with
    | .minimize _ _ weight _ _ _ => weight.vars.foldl (fun w v => addW w (.var v)) w
    | _ => w
  let comp ← growComp cl ((cl.map List.length).sum + 2) [var]
  pure (((w.filter fun e => comp.contains e.1).map (·.2)).sum > 1)

/-- `inline_literal(rule, lit, unique_vars)` for `lit = (sign, name(passed…))` -/
def inlineLiteral (sg : Single) (sign : Sign) (passed : List Term) (uv : UniqueVars) : Except String (List BLit) :=
  if sign == .neg then
    match sg.body with
    | .lit (_, atom) :: _ => do
      let (m, _) ← extendMap (atom.terms.flatMap Term.vars) (zipMap sg.args passed []) uv
      pure [.lit (.neg, atom.mapTerms (applyMap m))]
    | .clit _ :: _ => .error "py: AttributeError: ConditionalLiteral has no sign"
    | [] => .error "py: IndexError: rule.body[0]"
  else do
    let (m, _) ← extendMap (sg.body.flatMap BLit.vars) (zipMap sg.args passed []) uv
    pure (sg.body.map (BLit.mapTerms (applyMap m)))

/-- the `for n in g.nodes` loop of `replace_single_rule_for_body` -/
def bodyCandidates (prg : Prog) (nodes : List Node) : List Node → Except String (Option Prog)
  | [] => pure none
  | n :: rest =>
    match n.blit with
    | .lit (s, .sym (.fn _ args _)) =>
      match args[n.sg.index]? with
      | none => .error "py: IndexError: blit_.atom.symbol.arguments[index_]"
      | some arg => do
        if !(← isConnected arg n.orig nodes) then bodyCandidates prg nodes rest
        else
          let repl ← inlineLiteral n.sg s args (UniqueVars.init n.orig)
          if repl.map stripBLit != [stripBLit n.blit] then
            let newBody := n.orig.body.flatMap fun l => if blitEq l n.blit then repl else [l]
            pure (some (prg.filterMap fun r =>
              if stmEq r n.sg.stm then none
              else if !stmEq r n.orig then some r
              else some (n.orig.setBody newBody)))
          else bodyCandidates prg nodes rest
    | _ => .error "py: unreachable: node literal is not a predicate"

/-- `replace_single_rule_for_body(prg)` -/
def replaceSingleRuleForBody (c : Ctx) (prg : Prog) : Except String (Option Prog) := do
  let nodes ← buildNodes c prg prg []
  bodyCandidates prg nodes nodes

/-- `inline_in_rulebody` (fuel as for `inlineInAgg`) -/
def inlineInRulebody (c : Ctx) (prg : Prog) : Except String (Prog × Nat) :=
  fixLoop (replaceSingleRuleForBody c) (prg.length + 1) prg 0

/-! ## inlining into an objective -/

/-- `analyze_minimize` -/
def minimizeTuples (prg : Prog) : List (List Term) := prg.filterMap SumAgg.objectiveKey

/-- the `for elem in agg.elements` loop of `inline_minimize` -/
def newMinimizes (l c : Nat) (prio : Term) (terms : List Term) (rbody : List BLit) (isCount : Bool) (maxArity : Int) :
    List BAggElem → Except String (List Stm)
  | [] => pure []
  | e :: rest => do
    let w ← (if isCount then pure (Term.sym (.num 1))
      else match e.1 with
        | t :: _ => pure t
        | [] => (.error "py: IndexError: elem.terms[0]" : Except String Term))
    let newTerms := e.1.drop 1 ++ terms
    let pad := (maxArity - (newTerms.length : Int) + 1).toNat
    let newTerms := newTerms ++ List.replicate pad uniqueT
    let tl ← newMinimizes l c prio terms rbody isCount maxArity rest
    pure (.minimize l c w prio newTerms (rbody ++ e.2.map BLit.lit) :: tl)

/-- `inline_minimize(stm)` with `self.minimize_tuples = tuples`; the flag says whether the end of the function
was reached (the statement was replaced) -/
def inlineMinimize (tuples : List (List Term)) (stm : Stm) : Except String (List Stm × Bool) :=
  match stm with
  | .minimize l c weight prio terms body =>
    match bodyBAggs body with
    | [.bagg al ac lg f es rg] => do
      if !(f == .count || f == .sum || f == .sump) then return ([stm], false)
      -- fix (known_findings.json `fixed:`): #sum+ ignores negative weights, the objective would count them
      if f == .sump && !nonnegativeWeights es then return ([stm], false)
      let an := analyticsOfGuards lg rg
      match an.equalVars, an.bounds with
      | [ev], [] =>
        if Term.var ev != weight then return ([stm], false)
        if (stm.vars.filter (· == ev)).length != 2 then return ([stm], false)
        let replaceTerms := weight :: prio :: terms
        -- fix (known_findings.json `fixed:`): only the statement's own tuple is left out (`list.remove`: the first equal
        -- one), not an equal tuple of another statement
        if ← (tuples.erase replaceTerms).anyM (fun x => potUnifySeq x replaceTerms) then
          return ([stm], false)
        let agg : Atom := .bagg al ac lg f es rg
        let rbody := body.filter fun b => match b with
          | .lit (_, a) => !atomEq a agg
          | .clit _ => true
        -- fix (known_findings.json `fixed:`): the aggregate's local variables become global; they must not meet a
        -- variable of the same name elsewhere in the body
        let gv ← globalVarsInsideBody body
        let localVars := ((bElemsTerms es).flatMap Term.vars).filter fun v => !gv.contains v
        if localVars.any (fun v => (rbody.flatMap BLit.vars).contains v) then return ([stm], false)
        let maxArity : Int := (tuples.foldl (fun m t => max m t.length) 0 : Nat) - 2
        let res ← newMinimizes l c prio terms rbody (f == .count) maxArity es
        pure (res, true)
      | _, _ => pure ([stm], false)
    | _ => pure ([stm], false)
  | _ => pure ([stm], false)

/-- `inline_in_minimize(prg)`, with the number of replaced objectives -/
def inlineInMinimize (prg : Prog) : Except String (Prog × Nat) := do
  let tuples := minimizeTuples prg
  let rs ← prg.mapM (inlineMinimize tuples)
  pure (rs.flatMap (·.1), (rs.filter (·.2)).length)

/-! ## `execute` -/

/-- `InlineTranslator(prg, inputs, outputs)` -/
def mkCtx (prg : Prog) (inputs outputs : List Pred) : Except String Ctx := do
  let st ← Dep.DomState.init (UniqueNames.init prg inputs) prg
  pure ⟨inputs, outputs, st.notStatic⟩

/-- `execute(prg)` and the number of rules inlined into an aggregate element / into a body literal and of
objectives replaced -/
def executeTrace (c : Ctx) (prg : Prog) : Except String (Prog × Nat × Nat × Nat) := do
  let (prg, nAgg) ← inlineInAgg c prg
  let (prg, nBody) ← inlineInRulebody c prg
  let (prg, nMin) ← inlineInMinimize prg
  pure (prg, nAgg, nBody, nMin)

/-- `InlineTranslator(prg, inputs, outputs).execute(prg)` -/
def execute (prg : Prog) (inputs outputs : List Pred) : Except String Prog := do
  let c ← mkCtx prg inputs outputs
  let (res, _) ← executeTrace c prg
  pure res

end Inline
end NgoVerif
