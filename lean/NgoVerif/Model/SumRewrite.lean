import NgoVerif.Model.Dependency
import NgoVerif.Model.SumAgg
/-!
# Model of the rewriting part of `ngo/sum_aggregates.py`: class `SumAggregator`

`Model/SumAgg.lean` has the decisions (`_calc_at_most`, `_element_passes`, `_get_trigger`, `potentially_unifying`);
this file has what is built from them:

* `__init__` (`initState`): `UniqueNames(prg, inputs)`, `DomainPredicates(unique_names, prg)` (the `DomState` of
  `Model/Dependency.lean`), `_calc_at_most(prg)`; `_collect_objectives` needs no data of its own: `self.objectives`
  holds REFERENCES to the `Minimize` statements of the program, here the statements of `State.cur`;
* `_replace_elements` (`elemStep`, `aggStep`): the two elements that replace a rewritten one and the rules requested
  from `DomainPredicates` (`create_domain`, `create_next_pred_for_annotated_pred`,
  `create_chain_pred_for_annotated_pred(…, True)`, `chain_pred`, `next_anon_predicate`, in this order, on ONE object:
  fresh names and the "domain already created" memo carry over from one rewrite to the next);
* `_get_var`, `_replace_optimize` (`replaceOptimize`);
* `execute` (`execute`): the rules requested for a body aggregate are appended to the result BEFORE the statement
  they were requested for, the rules for an objective before its two replacements.

## in-place mutation

`_replace_elements` edits the element it rewrites in place: `old_condition = elem.condition` is a view,
`old_condition.remove(trigger_lit)`, `old_condition.append(new_lit)` change the node stored in the INPUT program.
The result never contains that node (two new elements replace it), but the rest of the run sees it:

* `_element_passes` of the later elements of the same aggregate compares `other == elem` with the edited node;
* `_get_var` compares the objectives stored in `self.objectives` (the edited input statements) with the statement at
  hand (`execute` passes `stm.update(body=newbody)`, which differs from the stored statement as soon as one of its
  elements was rewritten or dropped);
* a node that occurs SEVERAL times in the input is edited everywhere at once.  `ngo.normalize.preprocess` produces
  such programs: `x.unpool()` of `a(X,(1;2)) :- X = #sum { L,D : shift(D,L) }.` yields two rules that share the
  element node; rewriting the first rule leaves `… #sum { L,D : __chain…(D,L) }` in the second, which then has no
  trigger any more and stays that way in the RESULT.

`State.cur` is the input program in its current state.  Sharing cannot be seen in an s-expression, so `execute`
takes it as an extra argument: `Groups`, a partition of the addresses (statement, body literal, element) of the
`BodyAggregateElement` nodes that occur more than once.  An edit is written to every address of the group.
What the model does not express is a node that is edited after a reference to it was put into the result (the group
contains a smaller address; that needs two different aggregates that share an element): `unsupported`.

`_replace_optimize` edits `minimize.body`, but `minimize` is the fresh statement `execute` built, not an input node.

Python exceptions are `Except.error "py: …"` / `"assert: …"` / `"IndexError: …"`; they end `execute`.
Locations: `x.update(…)` keeps the location of `x`; `LOC` is line 1 column 1.
-/
namespace NgoVerif
namespace SumRewrite
open Dep (DomState)

/-- `ngo.utils.globals.PREV` -/
def PREV : Term := .var "__PREV"
def ANON : Term := .var "_"

/-! ## addresses of body aggregate elements, shared nodes -/

/-- statement index, index of the body literal, index of the element -/
structure Addr where
  stm : Nat
  blit : Nat
  elem : Nat
  deriving BEq, Repr, Inhabited

def Addr.lt (a b : Addr) : Bool :=
  a.stm < b.stm || (a.stm == b.stm && (a.blit < b.blit || (a.blit == b.blit && a.elem < b.elem)))

/-- the addresses that hold the same node, for the nodes that occur more than once -/
abbrev Groups := List (List Addr)

def groupOf (gs : Groups) (a : Addr) : List Addr :=
  match gs.find? fun g => g.contains a with
  | some g => g
  | none => [a]

def bodyOf : Stm → Option (List BLit)
  | .rule _ _ _ b => some b
  | .minimize _ _ _ _ _ b => some b
  | .showTerm _ b => some b
  | .external _ b _ => some b
  | _ => none

def mapBody (f : List BLit → List BLit) : Stm → Stm
  | .rule l c h b => .rule l c h (f b)
  | .minimize l c w p ts b => .minimize l c w p ts (f b)
  | .showTerm t b => .showTerm t (f b)
  | .external a b t => .external a (f b) t
  | s => s

def modifyAt {α : Type} (f : α → α) : Nat → List α → List α
  | _, [] => []
  | 0, x :: xs => f x :: xs
  | n + 1, x :: xs => x :: modifyAt f n xs

/-- the `#sum`/`#sum+`/… body aggregate at a body position: sign and the fields of the atom -/
structure AggLit where
  sign : Sign
  line : Nat
  col : Nat
  lg : Option Guard
  f : AggFun
  elems : List BAggElem
  rg : Option Guard

def aggOfBLit : BLit → Option AggLit
  | .lit (s, .bagg l c lg f elems rg) => some ⟨s, l, c, lg, f, elems, rg⟩
  | _ => none

def readBLit (cur : Prog) (i b : Nat) : Option BLit := do
  let s ← cur[i]?
  let body ← bodyOf s
  body[b]?

def setCondInBLit (e : Nat) (cond : List Lit) : BLit → BLit
  | .lit (s, .bagg l c lg f elems rg) => .lit (s, .bagg l c lg f (modifyAt (fun el => (el.1, cond)) e elems) rg)
  | b => b

/-- write the condition of the node at one address -/
def writeCond (cond : List Lit) (cur : Prog) (a : Addr) : Prog :=
  modifyAt (mapBody (modifyAt (setCondInBLit a.elem cond) a.blit)) a.stm cur

/-! ## the object -/

structure State where
  /-- the input program as the run has edited it so far -/
  cur : Prog
  /-- `self.domain_predicates` -/
  dom : DomState
  /-- `ret` of `execute`, in order -/
  ret : List Stm
  /-- number of rewritten elements / objectives (for the statistics of the correspondence; not part of the result) -/
  nElems : Nat
  nObjs : Nat

abbrev M := StateT State (Except String)

def liftE {α : Type} (e : Except String α) : M α := fun s =>
  match e with
  | .ok a => .ok (a, s)
  | .error m => .error m

def liftDom {α : Type} (f : DomState → Except String (α × DomState)) : M α := fun s =>
  match f s.dom with
  | .ok (a, d) => .ok (a, { s with dom := d })
  | .error m => .error m

def emit (rules : List Stm) : M Unit := fun s => .ok ((), { s with ret := s.ret ++ rules })

def dAP (ap : SumAgg.APred) : Dep.APred := ⟨ap.pred, ap.positions⟩

/-- `SumAggregator(prg, input_predicates)`: the state and `_atmost_preds`.
`DomainPredicates.__init__` runs before `_calc_at_most`; an exception of either ends the constructor. -/
def initState (prg : Prog) (inputs : List Pred) : Except String (State × List SumAgg.APred) := do
  let d ← DomState.init (UniqueNames.init prg inputs) prg
  let (atmost, _) ← SumAgg.calcAtMost prg inputs
  pure (⟨prg, d, [], 0, 0⟩, atmost)

/-! ## the requests to `DomainPredicates` and the new literals / terms -/

/-- `create_domain(pred)`, `create_next_pred_for_annotated_pred(ap, pos)`,
`create_chain_pred_for_annotated_pred(ap, pos, True)`: the rules in this order; then `chain_pred(ap, pos, True)` and
`next_anon_predicate(ap, pos)` -/
def requestRules (ap : SumAgg.APred) (pos : Nat) : M (List Stm × Pred × Pred) := do
  let r1 ← (fun s =>
    match Dep.createDomain s.dom ap.pred with
    | (.ok r, d) => .ok (r, { s with dom := d })
    | (.error e, _) => .error e : M (List Stm))
  let r2 ← liftDom fun d => Dep.createNext d (dAP ap) pos
  let r3 ← liftDom fun d => Dep.createChain d (dAP ap) pos true
  let chainP ← liftDom fun d => Dep.chainPred d (dAP ap) pos true
  let nextP ← liftDom fun d => Dep.nextAnon d (dAP ap) pos
  pure (r1 ++ r2 ++ r3, chainP, nextP)

/-- what both rewrites build from the trigger literal -/
structure Pieces where
  /-- `new_lit`: the trigger literal (sign kept) with the chain predicate over `var_global_flat + [var_l]` -/
  chainLit : Lit
  /-- `next(var_global_flat + [PREV, var_l])` -/
  nextPos : Lit
  /-- `not next(var_global_flat + [_, var_l])` -/
  nextNeg : Lit
  /-- the tuple term `next(var_global_flat_without_anon + [PREV, var_l])` -/
  term1 : Term
  /-- the tuple term `next(var_global_flat_without_anon + [var_l])` -/
  term2 : Term

/-- `UniqueVariables(stm).make_unique(PREV)`: the predecessor variable, not used in the statement
(fix recorded in known_findings.json `fixed:`; before it the name was `__PREV` whatever the statement used) -/
def prevFor (stm : Stm) : Term :=
  match (UniqueVars.init stm).makeUnique "__PREV" with
  | some (v, _) => .var v
  | none => PREV

def pieces (PREV : Term) (sign : Sign) (args : List Term) (ext : Bool) (ap : SumAgg.APred) (pos : Nat) (chainP nextP : Pred) :
    Except String Pieces :=
  match args[pos]? with
  | none => .error "IndexError: trigger_args[trigger_index]"
  | some varL =>
    -- `[trigger_args[i] for i in range(0, arity) if i not in annotated_positions]`; arity = len(trigger_args)
    let flat := (List.range ap.pred.arity).zip args |>.filterMap fun (i, t) =>
      if ap.positions.contains i then none else some t
    let flatNoAnon := flat.map fun x => if x == ANON then Term.fn "none" [] false else x
    pure {
      chainLit := (sign, .sym (.fn chainP.name (flat ++ [varL]) ext))
      nextPos := (.pos, .sym (.fn nextP.name (flat ++ [PREV, varL]) false))
      nextNeg := (.neg, .sym (.fn nextP.name (flat ++ [ANON, varL]) false))
      term1 := .fn nextP.name (flatNoAnon ++ [PREV, varL]) false
      term2 := .fn nextP.name (flatNoAnon ++ [varL]) false }

/-- `old_condition.remove(trigger_lit)`: the first literal that is `==` -/
def removeFirstLit (t : Lit) : List Lit → List Lit
  | [] => []
  | l :: ls => if SumAgg.stripLit l == SumAgg.stripLit t then ls else l :: removeFirstLit t ls

def removeFirstBLit (t : BLit) : List BLit → List BLit
  | [] => []
  | l :: ls => if SumAgg.stripBLit l == SumAgg.stripBLit t then ls else l :: removeFirstBLit t ls

/-! ## `_replace_elements` -/

/-- the body of `for elem in elements` for the element at address `a`: what it appends to `newelements` -/
def elemStep (atmost : List SumAgg.APred) (gs : Groups) (a : Addr) : M (List BAggElem) := do
  let s ← get
  match (readBLit s.cur a.stm a.blit).bind aggOfBLit with
  | none => throw "model: no aggregate at the address"
  | some agg =>
    match agg.elems[a.elem]? with
    | none => throw "model: no element at the address"
    | some elem =>
      match elem.1 with
      | [] => pure []   -- `if elem.terms and len(elem.terms) > 0:` has no else branch
      | w :: restTerms =>
        let passes ← liftE (SumAgg.elementPasses elem (agg.elems.map fun e => (e, false)))
        -- fix b5d2d20 (known_findings.json `fixed:`): a weight that is also used outside of the aggregate is left alone
        let glob := match w, s.cur[a.stm]?, readBLit s.cur a.stm a.blit with
          | .var v, some stm, some blit => (SumAgg.outsideVars stm blit).contains v
          | _, _, _ => false
        if !passes || glob then pure [elem]
        else
          match ← liftE (SumAgg.getTrigger atmost w (elem.2.map BLit.lit) 0) with
          | none => pure [elem]
          | some (li, pos, ap) =>
            match elem.2[li]? with
            | some (sign, .sym (.fn name args ext)) =>
              let grp := groupOf gs a
              if grp.any fun a' => a'.lt a then
                throw "unsupported: a shared element is edited after a reference to it was put into the result"
              else
                let c1 := removeFirstLit (sign, .sym (.fn name args ext)) elem.2
                let (rules, chainP, nextP) ← requestRules ap pos
                emit rules
                let PREV : Term := match s.cur[a.stm]? with | some stm => prevFor stm | none => PREV
                let p ← liftE (pieces PREV sign args ext ap pos chainP nextP)
                let c2 := c1 ++ [p.chainLit]
                modify fun s => { s with cur := grp.foldl (writeCond c2) s.cur, nElems := s.nElems + 1 }
                pure [(Term.bin .minus w PREV :: restTerms ++ [p.term1], c2 ++ [p.nextPos]),
                      (w :: restTerms ++ [p.term2], c2 ++ [p.nextNeg])]
            | _ => throw "model: the trigger is not a symbolic literal"

/-- `_replace_elements(elements, ret)` for the aggregate at body position `b` of statement `i`; the elements are
read from the current state one at a time (the Python loop runs over a live view) -/
def elemsLoop (atmost : List SumAgg.APred) (gs : Groups) (i b : Nat) : List Nat → M (List BAggElem)
  | [] => pure []
  | e :: es => do
    let r ← elemStep atmost gs ⟨i, b, e⟩
    let rs ← elemsLoop atmost gs i b es
    pure (r ++ rs)

/-- the `for blit in stm.body` loop of `execute`: `newbody` -/
def bodyLoop (atmost : List SumAgg.APred) (gs : Groups) (i : Nat) : List Nat → M (List BLit)
  | [] => pure []
  | b :: bs => do
    let s ← get
    match readBLit s.cur i b with
    | none => throw "model: no body literal at the address"
    | some blit =>
      let blit' ← (match aggOfBLit blit with
        | some agg =>
          if agg.f == .sum then do
            let es ← elemsLoop atmost gs i b (List.range agg.elems.length)
            pure (BLit.lit (agg.sign, .bagg agg.line agg.col agg.lg agg.f es agg.rg))
          else pure blit
        | none => pure blit : M BLit)
      let rest ← bodyLoop atmost gs i bs
      pure (blit' :: rest)

/-! ## `_get_var`, `_replace_optimize` -/

/-- the weight variable if the weight is `V` or `-V` -/
def weightVar : Term → Option String
  | .var n => some n
  | .un .minus (.var n) => some n
  | _ => none

/-- `_replace_optimize(minimize)`; `minimize` is the statement `execute` built, `self.objectives` are the `Minimize`
statements of the input in their current state -/
def replaceOptimize (atmost : List SumAgg.APred) (m : Stm) : M (List Stm) :=
  match m with
  | .minimize l c w p ts body => do
    let s ← get
    -- `_get_var`
    if ← liftE (SumAgg.unsafeObjective s.cur m (w :: p :: ts)) then pure [m]
    else
      match weightVar w with
      | none => pure [m]
      | some v =>
        let others := (p :: ts).flatMap Term.vars ++ body.flatMap BLit.vars
        if SumAgg.countName v others != 1 then pure [m]
        else
          match ← liftE (SumAgg.getTrigger atmost (.var v) body 0) with
          | none => pure [m]
          | some (li, pos, ap) =>
            match body[li]? with
            | some (.lit (sign, .sym (.fn name args ext))) =>
              let b1 := removeFirstBLit (.lit (sign, .sym (.fn name args ext))) body
              let (rules, chainP, nextP) ← requestRules ap pos
              let PREV : Term := prevFor m
              let pc ← liftE (pieces PREV sign args ext ap pos chainP nextP)
              let b2 := b1 ++ [BLit.lit pc.chainLit]
              let diff : Term := .bin .minus (.var v) PREV
              let weight1 : Term := if w.isVar then diff else .un .minus diff
              modify fun s => { s with nObjs := s.nObjs + 1 }
              pure (rules ++
                [.minimize l c weight1 p (ts ++ [pc.term1]) (b2 ++ [BLit.lit pc.nextPos]),
                 .minimize l c w p (ts ++ [pc.term2]) (b2 ++ [BLit.lit pc.nextNeg])])
            | _ => throw "model: the trigger is not a symbolic literal"
  | _ => throw "assert: minimize.ast_type == ASTType.Minimize"

/-! ## `execute` -/

/-- the body of `for stm in prg` for statement `i` -/
def stmStep (atmost : List SumAgg.APred) (gs : Groups) (i : Nat) : M Unit := do
  let s ← get
  match s.cur[i]? with
  | none => throw "model: no statement at the address"
  | some stm =>
    match stm with
    | .rule l c h body => do
      let nb ← bodyLoop atmost gs i (List.range body.length)
      emit [.rule l c h nb]
    | .minimize l c w p ts body => do
      let nb ← bodyLoop atmost gs i (List.range body.length)
      let r ← replaceOptimize atmost (.minimize l c w p ts nb)
      emit r
    | _ => emit [stm]

def stmsLoop (atmost : List SumAgg.APred) (gs : Groups) : List Nat → M Unit
  | [] => pure ()
  | i :: is => do
    stmStep atmost gs i
    stmsLoop atmost gs is

/-- `SumAggregator(prg, inputs).execute(prg)` where the nodes of `prg` are shared as `gs` says:
(result, rewritten elements, rewritten objectives) -/
def execute (prg : Prog) (inputs : List Pred) (gs : Groups) : Except String (Prog × Nat × Nat) := do
  let (st, atmost) ← initState prg inputs
  let ((), st) ← (stmsLoop atmost gs (List.range prg.length)).run st
  pure (st.ret, st.nElems, st.nObjs)

/-- several different annotated predicates for one predicate in `_atmost_preds`: then `_get_trigger` depends on the
order of that list, i.e. on the iteration order of a `set[Predicate]` (the string hash seed of the process) -/
def orderDependent (atmost : List SumAgg.APred) : Bool :=
  atmost.any fun a => atmost.any fun b => a.pred == b.pred && a.positions != b.positions

end SumRewrite
end NgoVerif
