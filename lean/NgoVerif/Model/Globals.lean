import NgoVerif.Model.Collect
/-!
# Model of `ngo/utils/globals.py`: auto-detection of input/output predicates, `UniqueNames`,
`UniqueVariables`
-/
namespace NgoVerif

def Pred.le (a b : Pred) : Bool := a.name < b.name || (a.name == b.name && a.arity ≤ b.arity)

/-- insert in order -/
def insertOrd (p : Pred) : List Pred → List Pred
  | [] => [p]
  | q :: qs => if Pred.le p q then p :: q :: qs else q :: insertOrd p qs

/-- insert into a sorted duplicate-free list (Python: `sorted(set(..))`) -/
def insertSorted (p : Pred) (l : List Pred) : List Pred :=
  if l.contains p then l else insertOrd p l

def sortDedup (ps : List Pred) : List Pred := ps.foldr insertSorted []

def Stm.allPreds (s : Stm) : List Pred := (s.preds allSigns).map (·.pred)
def Stm.derivablePreds (s : Stm) : List Pred := s.headDerivable.map (·.pred)
def Stm.usedInBody (s : Stm) : List Pred := ((s.bodyPreds allSigns) ++ (s.minimizePreds allSigns)).map (·.pred)

def Prog.allPreds (prg : Prog) : List Pred := prg.flatMap Stm.allPreds
def Prog.derivablePreds (prg : Prog) : List Pred := prg.flatMap Stm.derivablePreds

/-- `in_body[p] == in_head[p]` as sets of statement indices -/
def sameDefUse (prg : Prog) (p : Pred) : Bool :=
  prg.all fun s => (s.usedInBody.contains p) == (s.derivablePreds.contains p)

/-- `auto_detect_input`: the sorted first part and the (hash-ordered in Python, here sorted) second part -/
def autoDetectInputParts (prg : Prog) : List Pred × List Pred :=
  let all := prg.allPreds
  let der := prg.derivablePreds
  (sortDedup (all.filter fun p => !der.contains p), sortDedup (all.filter (sameDefUse prg)))

/-- the returned list as a set (sorted, duplicate free) -/
def autoDetectInput (prg : Prog) : List Pred :=
  let (a, b) := autoDetectInputParts prg
  sortDedup (a ++ b)

/-- `auto_detect_output` -/
def autoDetectOutput (prg : Prog) : List Pred :=
  sortDedup <| prg.flatMap fun s =>
    match s with
    | .showSig n a _ => [⟨n, a⟩]
    | .showTerm _ b => (bodyPreds allSigns b).map (·.pred)
    | _ => []

/-! ## `UniqueNames` -/

structure UniqueNames where
  auxcounter : Nat
  preds : List Pred
  deriving Repr

def AUX_FUNC : String := "__aux_"

/-- the signatures of `#show p/n.` statements count as taken (fix recorded as `fixed:` in known_findings.json) -/
def showSigs (prg : Prog) : List Pred :=
  prg.filterMap fun s => match s with
    | .showSig n k _ => some ⟨n, k⟩
    | _ => none

def UniqueNames.init (prg : Prog) (inputs : List Pred) : UniqueNames :=
  ⟨0, inputs ++ prg.allPreds ++ showSigs prg⟩

/-- first `k' ≥ k` (within `fuel` candidates) with `mk k' ∉ known` -/
def findFree (mk : Nat → Pred) (known : List Pred) : Nat → Nat → Option Nat
  | 0, _ => none
  | fuel + 1, k => if known.contains (mk k) then findFree mk known fuel (k + 1) else some k

def auxName (arity : Nat) (k : Nat) : Pred := ⟨AUX_FUNC ++ toString k, arity⟩

/-- `new_auxpredicate`: `none` would be "the while loop never ends" (impossible, see `findFree_isSome`). -/
def UniqueNames.newAux (s : UniqueNames) (arity : Nat) : Option (Pred × UniqueNames) :=
  let c := s.auxcounter + 1
  if s.preds.contains (auxName arity c) then
    match findFree (auxName arity) s.preds (s.preds.length + 1) c with
    | none => none
    | some n => some (auxName arity n, ⟨n + 1, auxName arity n :: s.preds⟩)
  else some (auxName arity c, ⟨c, auxName arity c :: s.preds⟩)

def similarName (similar : String) (arity : Nat) (k : Nat) : Pred :=
  if k == 0 then ⟨similar, arity⟩ else ⟨similar ++ toString k, arity⟩

/-- `new_predicate(similar, arity)` -/
def UniqueNames.newPred (s : UniqueNames) (similar : String) (arity : Nat) : Option (Pred × UniqueNames) :=
  match findFree (similarName similar arity) s.preds (s.preds.length + 1) 0 with
  | none => none
  | some n => some (similarName similar arity n, ⟨s.auxcounter, similarName similar arity n :: s.preds⟩)

/-! ## `UniqueVariables` -/

structure UniqueVars where
  all : List String
  deriving Repr

def UniqueVars.init (s : Stm) : UniqueVars := ⟨s.vars⟩

def findFreeVar (base : String) (known : List String) : Nat → Nat → Option Nat
  | 0, _ => none
  | fuel + 1, k => if known.contains (base ++ toString k) then findFreeVar base known fuel (k + 1) else some k

/-- `make_unique(var)` -/
def UniqueVars.makeUnique (u : UniqueVars) (v : String) : Option (String × UniqueVars) :=
  if v == "_" then some (v, u)
  else if !u.all.contains v then some (v, ⟨u.all ++ [v]⟩)
  else match findFreeVar v u.all (u.all.length + 1) 0 with
    | none => none
    | some n => some (v ++ toString n, ⟨u.all ++ [v ++ toString n]⟩)

end NgoVerif
