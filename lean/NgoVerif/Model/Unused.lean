import NgoVerif.Model.Collect
import NgoVerif.Model.Globals
/-!
# Model of `ngo/unused.py` (`UnusedTranslator`)

`execute` with everything it calls: `exline_arithmetic` (from `ngo/normalize.py`, the first line of `execute`),
`_anonymize_variables` (+ `transform_body_ast_except_aggregate`), `analyze_usage` (`_add_usage`, `_add_usage_stm`),
`project_unused` (`transform`, `_new_name`), `remove_unused`, `remove_single_copies` (`Mapper`, `convert`) and the
fixpoint loop.

Conventions

* `self.used` / `self.used_positions` (a set and a dict of sets) are represented by the *list of usage events*
  `(pred, positions)` they were built from.  They are only ever queried existentially (`pred in self.used`,
  `pos in self.used_positions[pred]`), so no result can depend on their iteration order: nothing iterates them.
* `self.new_names` is an association list keyed by `(orig_pred, new_pred)`; it and `self.unique_names` survive the
  iterations of the `execute` loop, `self.used` does not (`analyze_usage` resets it).
* `transform_ast(stm, "SymbolicAtom", f)` is `stmMapSym f` (pre-order over `child_keys`, no descent below a
  `SymbolicAtom`); the order in which `f` meets the atoms is `stmSymAtoms`.  `transform` has a side effect (fresh
  names in `_new_name`), so the names are allocated by a fold over `symAtoms` of the whole program and then the
  (now pure) function is mapped.
* `Mapper.__init__` iterates over a Python **set** of variables (hash order) and calls `make_unique` for each; here
  the order is first occurrence in the head.  The fresh names can depend on that order only if one head variable's
  name is another one's name followed by digits and enough candidates are taken (e.g. `X`, `X0`…`X9`, `X1`); the
  *result* can then differ as well, because `convert` substitutes sequentially (see REPORT.md).
* Python exceptions are `Except String` errors: `atom.symbol.name` on a `SymbolicAtom` whose symbol is not a
  `Function` (classical negation `-p(X)`) in `remove_single_copies.convert`.
* statements the mirror keeps as text (`opaque`) and theory atoms are outside the fragment (`supported`).
-/
namespace NgoVerif
namespace Unused

/-! ## generic traversals -/

mutual
/-- `transform_ast(t, "Variable", f)` on a term -/
def mapVars (f : String → Term) : Term → Term
  | .var n => f n
  | .sym s => .sym s
  | .un op a => .un op (mapVars f a)
  | .bin op l r => .bin op (mapVars f l) (mapVars f r)
  | .ival l r => .ival (mapVars f l) (mapVars f r)
  | .fn name args ext => .fn name (mapVarsList f args) ext
  | .pool args => .pool (mapVarsList f args)
def mapVarsList (f : String → Term) : List Term → List Term
  | [] => []
  | t :: ts => mapVars f t :: mapVarsList f ts
end

def guardMap (ft : Term → Term) (g : Guard) : Guard := ⟨g.op, ft g.term⟩
def optGuardMap (ft : Term → Term) : Option Guard → Option Guard
  | none => none
  | some g => some (guardMap ft g)

mutual
/-- rebuild an atom: `fs` on the symbol of every `SymbolicAtom`, `ft` on every other top-level term -/
def atomMap (ft fs : Term → Term) : Atom → Atom
  | .sym t => .sym (fs t)
  | .cmp t gs => .cmp (ft t) (gs.map (guardMap ft))
  | .bool b => .bool b
  | .bagg l c lg f es rg => .bagg l c (optGuardMap ft lg) f (bElemsMap ft fs es) (optGuardMap ft rg)
  | .agg lg es rg => .agg (optGuardMap ft lg) (cElemsMap ft fs es) (optGuardMap ft rg)
  | .theory t => .theory t
def litMap (ft fs : Term → Term) : Sign × Atom → Sign × Atom
  | (s, a) => (s, atomMap ft fs a)
def litsMap (ft fs : Term → Term) : List (Sign × Atom) → List (Sign × Atom)
  | [] => []
  | l :: ls => litMap ft fs l :: litsMap ft fs ls
def bElemsMap (ft fs : Term → Term) : List (List Term × List (Sign × Atom)) → List (List Term × List (Sign × Atom))
  | [] => []
  | (ts, c) :: es => (ts.map ft, litsMap ft fs c) :: bElemsMap ft fs es
def cElemsMap (ft fs : Term → Term) :
    List ((Sign × Atom) × List (Sign × Atom)) → List ((Sign × Atom) × List (Sign × Atom))
  | [] => []
  | (l, c) :: es => (litMap ft fs l, litsMap ft fs c) :: cElemsMap ft fs es
end

def condLitMap (ft fs : Term → Term) (c : CondLit) : CondLit := (litMap ft fs c.1, litsMap ft fs c.2)

def blitMap (ft fs : Term → Term) : BLit → BLit
  | .lit l => .lit (litMap ft fs l)
  | .clit c => .clit (condLitMap ft fs c)

def headMap (ft fs : Term → Term) : Head → Head
  | .lit l => .lit (litMap ft fs l)
  | .disj es => .disj (es.map (condLitMap ft fs))
  | .agg lg es rg => .agg (optGuardMap ft lg) (es.map (condLitMap ft fs)) (optGuardMap ft rg)
  | .hagg lg f es rg =>
      .hagg (optGuardMap ft lg) f (es.map fun e => (e.1.map ft, condLitMap ft fs e.2)) (optGuardMap ft rg)
  | .theory t => .theory t

/-- `transform_ast(stm, "SymbolicAtom", f)`; `fs` acts on the `symbol` of the atom -/
def stmMapSym (fs : Term → Term) : Stm → Stm
  | .rule l c h b => .rule l c (headMap id fs h) (b.map (blitMap id fs))
  | .minimize l c w p ts b => .minimize l c w p ts (b.map (blitMap id fs))
  | .showTerm t b => .showTerm t (b.map (blitMap id fs))
  | .external a b ty => .external (fs a) (b.map (blitMap id fs)) ty
  | s => s

mutual
/-- the symbols of the `SymbolicAtom`s below an atom, in `Transformer` order -/
def atomSyms : Atom → List Term
  | .sym t => [t]
  | .bagg _ _ _ _ es _ => bElemsSyms es
  | .agg _ es _ => cElemsSyms es
  | _ => []
def litSyms : Sign × Atom → List Term
  | (_, a) => atomSyms a
def litsSyms : List (Sign × Atom) → List Term
  | [] => []
  | l :: ls => litSyms l ++ litsSyms ls
def bElemsSyms : List (List Term × List (Sign × Atom)) → List Term
  | [] => []
  | (_, c) :: es => litsSyms c ++ bElemsSyms es
def cElemsSyms : List ((Sign × Atom) × List (Sign × Atom)) → List Term
  | [] => []
  | (l, c) :: es => litSyms l ++ litsSyms c ++ cElemsSyms es
end

def condLitSyms (c : CondLit) : List Term := litSyms c.1 ++ litsSyms c.2

def blitSyms : BLit → List Term
  | .lit l => litSyms l
  | .clit c => condLitSyms c

def headSyms : Head → List Term
  | .lit l => litSyms l
  | .disj es => es.flatMap condLitSyms
  | .agg _ es _ => es.flatMap condLitSyms
  | .hagg _ _ es _ => es.flatMap fun e => condLitSyms e.2
  | .theory _ => []

/-- symbols of all `SymbolicAtom`s of a statement in the order `transform_ast(stm, "SymbolicAtom", ·)` meets them -/
def stmSymAtoms : Stm → List Term
  | .rule _ _ h b => headSyms h ++ b.flatMap blitSyms
  | .minimize _ _ _ _ _ b => b.flatMap blitSyms
  | .showTerm _ b => b.flatMap blitSyms
  | .external a b _ => a :: b.flatMap blitSyms
  | _ => []

/-! ## the fragment -/

mutual
def atomHasTheory : Atom → Bool
  | .theory _ => true
  | .bagg _ _ _ _ es _ => bElemsHasTheory es
  | .agg _ es _ => cElemsHasTheory es
  | _ => false
def litHasTheory : Sign × Atom → Bool
  | (_, a) => atomHasTheory a
def litsHasTheory : List (Sign × Atom) → Bool
  | [] => false
  | l :: ls => litHasTheory l || litsHasTheory ls
def bElemsHasTheory : List (List Term × List (Sign × Atom)) → Bool
  | [] => false
  | (_, c) :: es => litsHasTheory c || bElemsHasTheory es
def cElemsHasTheory : List ((Sign × Atom) × List (Sign × Atom)) → Bool
  | [] => false
  | (l, c) :: es => litHasTheory l || litsHasTheory c || cElemsHasTheory es
end

def condLitHasTheory (c : CondLit) : Bool := litHasTheory c.1 || litsHasTheory c.2
def blitHasTheory : BLit → Bool
  | .lit l => litHasTheory l
  | .clit c => condLitHasTheory c
def headHasTheory : Head → Bool
  | .lit l => litHasTheory l
  | .disj es => es.any condLitHasTheory
  | .agg _ es _ => es.any condLitHasTheory
  | .hagg _ _ es _ => es.any fun e => condLitHasTheory e.2
  | .theory _ => true

/-- opaque statement kinds without `Function`, `Variable` or `SymbolicAtom` nodes that `analyze_usage` ignores:
they are passed through untouched by every step of the pass -/
def harmlessOpaque (kind : String) : Bool :=
  kind == "Script" || kind == "TheoryDefinition" || kind == "Defined" || kind == "Comment"

/-- `none` if the statement is inside the modelled fragment, else the reason -/
def stmUnsupported? : Stm → Option String
  | .rule _ _ h b => if headHasTheory h || b.any blitHasTheory then some "theory atom" else none
  | .minimize _ _ _ _ _ b => if b.any blitHasTheory then some "theory atom" else none
  | .showTerm _ b => if b.any blitHasTheory then some "theory atom" else none
  | .external _ b _ => if b.any blitHasTheory then some "theory atom" else none
  | .opaque k _ => if harmlessOpaque k then none else some ("opaque statement " ++ k)
  | _ => none

def unsupported? : Prog → Option String
  | [] => none
  | s :: ss => match stmUnsupported? s with
    | some w => some w
    | none => unsupported? ss

/-! ## `exline_arithmetic` (`ngo/normalize.py`), the first line of `execute` -/

def AUX_VAR : String := "AUX"

/-- `make_unique` can only fail by running out of the fuel of `findFreeVar`, which is `length + 1` candidates for
`length` known names: impossible (pigeonhole), kept as an explicit error. -/
def makeUnique (uv : UniqueVars) (v : String) : Except String (String × UniqueVars) :=
  match uv.makeUnique v with
  | some r => .ok r
  | none => .error "make_unique: no free name (unreachable)"

/-- `exline_term` -/
def exlineTerm (t : Term) (uv : UniqueVars) : Except String (Term × List Lit × UniqueVars) :=
  if t.isBin || t.isUn then do
    let (v, uv') ← makeUnique uv AUX_VAR
    pure (.var v, [(.pos, .cmp (.var v) [⟨.eq, t⟩])], uv')
  else pure (t, [], uv)

def exlineTerms : List Term → UniqueVars → Except String (List Term × List Lit × UniqueVars)
  | [], uv => pure ([], [], uv)
  | t :: ts, uv => do
    let (t', c, uv1) ← exlineTerm t uv
    let (ts', cs, uv2) ← exlineTerms ts uv1
    pure (t' :: ts', c ++ cs, uv2)

/-- `exline_literal` -/
def exlineLit (l : Lit) (uv : UniqueVars) : Except String (Lit × List Lit × UniqueVars) :=
  match l with
  | (s, .sym (.fn name args ext)) =>
    if !(litCollect Term.isPool l).isEmpty then pure (l, [], uv) else do
      let (args', conds, uv') ← exlineTerms args uv
      pure ((s, .sym (.fn name args' ext)), conds, uv')
  | _ => pure (l, [], uv)

/-- the literals of a condition: `new_condition.extend([new_lit] + body)` -/
def exlineCond : List Lit → UniqueVars → Except String (List Lit × UniqueVars)
  | [], uv => pure ([], uv)
  | l :: ls, uv => do
    let (l', c, uv1) ← exlineLit l uv
    let (ls', uv2) ← exlineCond ls uv1
    pure (l' :: c ++ ls', uv2)

/-- the body loop of `exline_arithmetic_rule` -/
def exlineBody : List BLit → UniqueVars → Except String (List BLit × UniqueVars)
  | [], uv => pure ([], uv)
  | .lit l :: bs, uv => do
    let (l', c, uv1) ← exlineLit l uv
    let (bs', uv2) ← exlineBody bs uv1
    pure (.lit l' :: c.map BLit.lit ++ bs', uv2)
  | .clit (h, cond) :: bs, uv => do
    let (cond', uv1) ← exlineCond cond uv
    let (bs', uv2) ← exlineBody bs uv1
    pure (.clit (h, cond') :: bs', uv2)

/-- `exline_arithmetic_rule` -/
def exlineStm (stm : Stm) : Except String Stm :=
  let uv := UniqueVars.init stm
  match stm with
  | .rule l c h b => do
    let (h', conds, uv1) ← (match h with
      | .lit hl => do
          let (hl', cs, u) ← exlineLit hl uv
          pure (Head.lit hl', cs, u)
      | _ => pure (h, [], uv) : Except String (Head × List Lit × UniqueVars))
    let (b', _) ← exlineBody (b ++ conds.map BLit.lit) uv1
    pure (.rule l c h' b')
  | .minimize l c w p ts b => do
    let (w', cw, uv1) ← exlineTerm w uv
    let (p', cp, uv2) ← exlineTerm p uv1
    let (ts', cts, uv3) ← exlineTerms ts uv2
    let (b', _) ← exlineBody (b ++ (cw ++ cp ++ cts).map BLit.lit) uv3
    pure (.minimize l c w' p' ts' b')
  | s => pure s

def exlineArithmetic (prg : Prog) : Except String Prog := prg.mapM exlineStm

/-! ## `_anonymize_variables` -/

def countOf (v : String) (l : List String) : Nat := (l.filter (· == v)).length

def anonTerm : Term := .var "_"

/-- `anom_var` partially applied to the `Counter` of the statement's variables -/
def anomVar (vars : List String) (v : String) : Term :=
  if countOf v vars == 1 then anonTerm else .var v

/-- one step of `transform_body_ast_except_aggregate`: aggregates are skipped, everything else is transformed -/
def anonBLit (vars : List String) : BLit → BLit
  | .lit (s, .bagg l c lg f es rg) => .lit (s, .bagg l c lg f es rg)
  | .lit (s, .agg lg es rg) => .lit (s, .agg lg es rg)
  | b => blitMap (mapVars (anomVar vars)) (mapVars (anomVar vars)) b

def anonStm (stm : Stm) : Stm :=
  match stm with
  | .rule l c h b => .rule l c h (b.map (anonBLit stm.vars))
  | .minimize l c w p ts b => .minimize l c w p ts (b.map (anonBLit stm.vars))
  | s => s

def anonymizeVariables (prg : Prog) : Prog := prg.map anonStm

/-! ## `analyze_usage` -/

/-- a usage event: the predicate and the positions it is used at -/
abbrev Event := Pred × List Nat

def nonAnonPositions : Nat → List Term → List Nat
  | _, [] => []
  | i, a :: as => if a != anonTerm then i :: nonAnonPositions (i + 1) as else nonAnonPositions (i + 1) as

/-- the body of the loop of `_add_usage_stm` for one collected `Function` node -/
def fnEvent : Term → List Event
  | .fn name args _ => [(⟨name, args.length⟩, nonAnonPositions 0 args)]
  | _ => []

/-- `_add_usage_stm(lit)` -/
def litEvents (l : Lit) : List Event := (litCollect Term.isFn l).flatMap fnEvent
/-- `_add_usage_stm(blit)` -/
def blitEvents (b : BLit) : List Event := (b.collect Term.isFn).flatMap fnEvent
/-- `_add_usage(body)` -/
def bodyEvents (b : List BLit) : List Event := b.flatMap blitEvents
def condEvents (c : List Lit) : List Event := c.flatMap litEvents

def fullEvent (p : Pred) : Event := (p, List.range p.arity)

def headEvents : Head → List Event
  | .lit (.pos, _) => []
  | .lit l => litEvents l   -- `not a :- B.` uses `a` (fix 3c7ce73)
  | .disj es => es.flatMap (fun e => condEvents e.2) ++ es.flatMap (fun e => litEvents e.1)
  | .agg _ es _ => es.flatMap (fun e => condEvents e.2) ++ es.flatMap (fun e => litEvents e.1)
  | .hagg _ _ es _ => es.flatMap (fun e => condEvents e.2.2 ++ litEvents e.2.1)
  | .theory _ => []

def stmEvents : Stm → List Event
  | .rule _ _ h b => bodyEvents b ++ headEvents h
  | .minimize _ _ _ _ _ b => bodyEvents b
  | .external _ b _ => bodyEvents b
  | .showSig n a _ => [fullEvent ⟨n, a⟩]
  | .showTerm _ b => bodyEvents b   -- fix da9b991
  | _ => []

/-- `analyze_usage`: the events `self.used` / `self.used_positions` are built from -/
def analyzeUsage (prg : Prog) (inputs outputs : List Pred) : List Event :=
  prg.flatMap stmEvents ++ (inputs ++ outputs).map fullEvent

/-- `pred in self.used` (before `_new_name` adds to it) -/
def isUsed (ev : List Event) (p : Pred) : Bool := ev.any (fun e => e.1 == p)
/-- `pos in self.used_positions[pred]` -/
def posUsed (ev : List Event) (p : Pred) (i : Nat) : Bool := ev.any (fun e => e.1 == p && e.2.contains i)

/-! ## `project_unused` -/

/-- the state that survives the iterations of `execute`: `self.unique_names`, `self.new_names` -/
structure Names where
  unique : UniqueNames
  memo : List ((Pred × Pred) × String)
  deriving Repr

def keepUsed (ev : List Event) (p : Pred) : Nat → List Term → List Term
  | _, [] => []
  | i, a :: as => if posUsed ev p i then a :: keepUsed ev p (i + 1) as else keepUsed ev p (i + 1) as

/-- what `transform` wants to do with a symbol: `(orig_pred, new_pred, kept arguments)` if an argument goes -/
def target? (ev : List Event) : Term → Option (Pred × Pred × List Term)
  | .fn name args _ =>
    let p : Pred := ⟨name, args.length⟩
    let kept := keepUsed ev p 0 args
    if kept.length != args.length then some (p, ⟨name, kept.length⟩, kept) else none
  | _ => none

def memoLookup (memo : List ((Pred × Pred) × String)) (k : Pred × Pred) : Option String :=
  (memo.find? (fun e => e.1 == k)).map (·.2)

/-- `_new_name` for the atoms in traversal order; returns the new state and the predicates added to `self.used`.
`new_predicate` can only fail by running out of the fuel of `findFree` (`length + 1` candidates for `length` known
predicates): impossible, kept as an explicit error. -/
def allocNames (ev : List Event) : List Term → Names → List Pred → Except String (Names × List Pred)
  | [], st, added => pure (st, added)
  | t :: ts, st, added =>
    match target? ev t with
    | none => allocNames ev ts st added
    | some (orig, new, _) =>
      match memoLookup st.memo (orig, new) with
      | some _ => allocNames ev ts st added
      | none =>
        match st.unique.newPred new.name new.arity with
        | none => .error "new_predicate: no free name (unreachable)"
        | some (p, u') =>
          allocNames ev ts ⟨u', st.memo ++ [((orig, new), p.name)]⟩ (added ++ [⟨p.name, new.arity⟩])

/-- `transform` once every name it needs is in the memo -/
def transformSym (ev : List Event) (memo : List ((Pred × Pred) × String)) (t : Term) : Term :=
  match t, target? ev t with
  | .fn _ _ ext, some (orig, new, kept) =>
    match memoLookup memo (orig, new) with
    | some name => .fn name kept ext
    | none => t
  | _, _ => t

/-- `project_unused` -/
def projectUnused (ev : List Event) (st : Names) (prg : Prog) : Except String (Prog × Names × List Pred) := do
  let (st', added) ← allocNames ev (prg.flatMap stmSymAtoms) st []
  pure (prg.map (stmMapSym (transformSym ev st'.memo)), st', added)

/-! ## `remove_unused` -/

def removable (ev : List Event) (added : List Pred) : Stm → Bool
  | .rule _ _ (.lit (.pos, .sym (.fn name args _))) _ =>
    let p : Pred := ⟨name, args.length⟩
    !(isUsed ev p || added.contains p)
  | _ => false

def removeUnused (ev : List Event) (added : List Pred) (prg : Prog) : Prog :=
  prg.filter (fun s => !removable ev added s)

/-! ## `remove_single_copies` -/

/-- `UnusedTranslator.Mapper` -/
structure Mapper where
  ruleId : Nat
  arguments : List Term
  symName : String
  symArgs : List Term
  deriving Repr

def dedupNames : List String → List String → List String
  | [], acc => acc
  | v :: vs, acc => if acc.contains v then dedupNames vs acc else dedupNames vs (acc ++ [v])

/-- `for v in vars_: map_[v] = uv.make_unique(v)` (deterministic order, see the header) -/
def renameAll : List String → UniqueVars → Except String (List (String × String))
  | [], _ => pure []
  | v :: vs, uv => do
    let (v', uv') ← makeUnique uv v
    let rest ← renameAll vs uv'
    pure ((v, v') :: rest)

def renameVar (m : List (String × String)) (v : String) : Term :=
  match m.find? (fun e => e.1 == v) with
  | some e => .var e.2
  | none => .var v

/-- `make_unique(v)` against the variables of the rule alone (nothing appended yet) -/
def independentFresh (uv : UniqueVars) : List String → Except String (List String)
  | [] => pure []
  | v :: vs => do
    let (v', _) ← makeUnique uv v
    let rest ← independentFresh uv vs
    pure (v' :: rest)

def pairwiseDistinct : List String → Bool
  | [] => true
  | x :: xs => !xs.contains x && pairwiseDistinct xs

/-- (historical) the error that stood for "Python's result depends on the iteration order of a set": before the
`fix:` commit "unused picked fresh variable names in set (hash) order" `Mapper.__init__` renamed the head variables in
hash order; it now iterates over `sorted(vars_)`, which `mkMapper` models exactly, so this error is no longer produced -/
def orderDependent : String := "order-dependent: Mapper renames a set of variables whose fresh names collide"

def insertNameSorted (x : String) : List String → List String
  | [] => [x]
  | y :: ys => if x ≤ y then x :: y :: ys else y :: insertNameSorted x ys

/-- `sorted(vars_)`: clingo orders `Variable` nodes by name -/
def sortVarNames (l : List String) : List String := l.foldr insertNameSorted []

def mkMapper (rule : Stm) (ruleId : Nat) (headArgs : List Term) (symName : String) (symArgs : List Term) :
    Except String Mapper := do
  -- since the fix "unused picked fresh variable names in set (hash) order" the loop runs over `sorted(vars_)`
  let vars := sortVarNames (dedupNames (headArgs.flatMap Term.vars) [])
  let m ← renameAll vars (UniqueVars.init rule)
  pure ⟨ruleId, headArgs.map (mapVars (renameVar m)), symName, symArgs.map (mapVars (renameVar m))⟩

/-- the inner loop of `convert`: sequential replacement of `head_arg` by `new_arg` -/
def substSeq : List Term → List Term → Term → Term
  | h :: hs, n :: ns, t => substSeq hs ns (mapVars (fun v => if Term.var v == h then n else .var v) t)
  | _, _, t => t

/-- `Mapper.convert` -/
def Mapper.convert (m : Mapper) (useArgs : List Term) : Term :=
  let args := m.symArgs.map (substSeq m.arguments useArgs)
  let oldVars := useArgs.flatMap Term.vars
  .fn m.symName (args.map (mapVars (fun v => if oldVars.contains v then .var v else anonTerm))) false

def occurrences (p : Pred) (l : List Pred) : Nat := (l.filter (· == p)).length

def dedupPreds : List Pred → List Pred → List Pred
  | [], acc => acc
  | p :: ps, acc => if acc.contains p then dedupPreds ps acc else dedupPreds ps (acc ++ [p])

/-- the rule with the single derivation of `head`: its index (`prg.index(rules[0])`) and itself -/
def findDeriving (head : Pred) : Nat → List Stm → Option (Nat × Stm)
  | _, [] => none
  | i, s :: ss => if s.derivablePreds.contains head then some (i, s) else findDeriving head (i + 1) ss

/-- the body of the loop that fills `mapping`, for one head predicate -/
def mapperFor (prg : Prog) (inputs outputs : List Pred) (head : Pred) : Except String (Option Mapper) :=
  if inputs.contains head || outputs.contains head then pure none
  else if occurrences head prg.derivablePreds != 1 then pure none
  else match findDeriving head 0 prg with
    | some (i, rule) =>
      match rule with
      | .rule _ _ (.lit (.pos, .sym (.fn _ hargs _))) [.lit (.pos, .sym (.fn bname bargs _))] =>
        if !hargs.all Term.isVar then pure none
        else if hargs.length != bargs.length then pure none
        else if head == (⟨bname, bargs.length⟩ : Pred) then pure none
        else do
          let m ← mkMapper rule i hargs bname bargs
          pure (some m)
      | _ => pure none
    | none => pure none

def buildMapping (prg : Prog) (inputs outputs : List Pred) : List Pred → Except String (List (Pred × Mapper))
  | [] => pure []
  | h :: hs => do
    let m ← mapperFor prg inputs outputs h
    let rest ← buildMapping prg inputs outputs hs
    match m with
    | some mp => pure ((h, mp) :: rest)
    | none => pure rest

def mappingLookup (mapping : List (Pred × Mapper)) (p : Pred) : Option Mapper :=
  (mapping.find? (fun e => e.1 == p)).map (·.2)

/-- the local function `convert` of `remove_single_copies` on a symbol that is a `Function` -/
def convertSym (mapping : List (Pred × Mapper)) (t : Term) : Term :=
  match t with
  | .fn name args _ =>
    match mappingLookup mapping ⟨name, args.length⟩ with
    | some m => m.convert args
    | none => t
  | _ => t

/-- rule ids added to the local set `used` while converting -/
def usedRuleIds (mapping : List (Pred × Mapper)) (syms : List Term) : List Nat :=
  syms.filterMap fun t => match symPred? t with
    | some p => (mappingLookup mapping p).map (·.ruleId)
    | none => none

def dropIndices (used : List Nat) : Nat → List Stm → List Stm
  | _, [] => []
  | i, s :: ss => if used.contains i then dropIndices used (i + 1) ss else s :: dropIndices used (i + 1) ss

/-- `remove_single_copies` -/
def removeSingleCopies (prg : Prog) (inputs outputs : List Pred) : Except String (Prog × Bool) := do
  let heads := dedupPreds prg.derivablePreds []
  let mapping0 ← buildMapping prg inputs outputs heads
  -- "a copy of a copy is handled in a later round": `for head in list(mapping): if inner in mapping: del mapping[head]`
  let mapping := mapping0.foldl (fun (cur : List (Pred × Mapper)) (e : Pred × Mapper) =>
      if (mappingLookup cur ⟨e.2.symName, e.2.symArgs.length⟩).isSome then cur.filter (fun x => !(x.1 == e.1)) else cur) mapping0
  let syms := prg.flatMap stmSymAtoms
  -- `atom.symbol.name` raises AttributeError for a symbol that is not a Function (e.g. `-p(X)`)
  if syms.any (fun t => !t.isFn) then .error "AttributeError: symbol of SymbolicAtom is not a Function"
  else
    let used := usedRuleIds mapping syms
    pure (dropIndices used 0 (prg.map (stmMapSym (convertSym mapping))), !used.isEmpty)

/-! ## `execute` -/

/-- per-iteration record for the trace op: which steps changed the program -/
structure StepTrace where
  anonymised : Bool
  projected : Bool
  removed : Bool
  copied : Bool
  deriving Repr

/-- one iteration of the `while True` loop: `(A, R, state)`, `A` the anonymised program (what `new_prg` has become
through the in-place edit of `transform_body_ast_except_aggregate`), `R` the result of the iteration -/
def iteration (inputs outputs : List Pred) (st : Names) (prg : Prog) :
    Except String (Prog × Prog × Names × StepTrace) := do
  let a := anonymizeVariables prg
  let ev := analyzeUsage a inputs outputs
  let (p1, st', added) ← projectUnused ev st a
  let p2 := removeUnused ev added p1
  let (p3, _) ← removeSingleCopies p2 inputs outputs
  pure (a, p3, st', ⟨a != prg, p1 != a, p2 != p1, p3 != p2⟩)

/-- termination measure of the loop: number of statements + number of argument positions of symbolic atoms.
Anonymisation leaves it unchanged; a projection that changes anything drops an argument of some atom; `remove_unused`
and `remove_single_copies` never add atoms or arguments (`convert` keeps the arity) and drop a statement whenever
they change anything.  So an iteration with `R ≠ A` strictly decreases the measure and the loop body runs at most
`measure + 1` times. -/
def measure (prg : Prog) : Nat :=
  prg.length + ((prg.flatMap stmSymAtoms).map fun t => match t with
    | .fn _ args _ => args.length
    | _ => 0).sum

def loop (inputs outputs : List Pred) : Nat → Names → Prog → List StepTrace → Except String (Prog × Names × List StepTrace)
  | 0, _, _, _ => .error "execute: out of fuel (unreachable, see `measure`)"
  | fuel + 1, st, prg, tr => do
    let (a, r, st', t) ← iteration inputs outputs st prg
    if r == a then pure (r, st', tr ++ [t]) else loop inputs outputs fuel st' r (tr ++ [t])

/-- `UnusedTranslator(prg, inputs, outputs).execute(prg)` with its trace -/
def executeTrace (prg : Prog) (inputs outputs : List Pred) : Except String (Prog × Names × List StepTrace) := do
  let p0 ← exlineArithmetic prg
  -- fix (known_findings.json `fixed:`): a new name must not be a declared output predicate either
  loop inputs outputs (measure p0 + 1) ⟨UniqueNames.init prg (inputs ++ outputs), []⟩ p0 []

/-- `UnusedTranslator(prg, inputs, outputs).execute(prg)` -/
def execute (prg : Prog) (inputs outputs : List Pred) : Except String Prog := do
  let (r, _, _) ← executeTrace prg inputs outputs
  pure r

end Unused
end NgoVerif
