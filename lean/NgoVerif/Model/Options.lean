import NgoVerif.Syntax
import NgoVerif.Generated.Tables
/-!
# Model of the command line option algebra (`ngo/utils/parser.py`, `ngo/__main__.py`)

The option tables (`ALL_OPTIONS`, `DEFAULT_OPTIONS`, the keyword wiring of `__main__.main`) are *generated* from
the Python source on every run (`NgoVerif/Generated/Tables.lean`); the functions below are the hand-written model
of the two `argparse` actions.
-/
namespace NgoVerif
open Tables

/-- insertion into a sorted list of strings, duplicates kept (Python `sorted`) -/
def insertStr (s : String) : List String → List String
  | [] => [s]
  | t :: ts => if s ≤ t then s :: t :: ts else t :: insertStr s ts
def sortStrs (l : List String) : List String := l.foldr insertStr []

/-- `VerifyEnable.__call__` after argparse's own `choices`/`nargs="+"` checks.  `none` = rejected. -/
def expandEnable (values : List String) : Option (List String) :=
  if values.isEmpty then none
  else if !(values.all fun v => (ENABLE_KEYWORDS ++ ALL_OPTIONS).contains v) then none
  else if values.length > 1 && values.contains "none" then none
  else
    let values := if values.contains "all" then ALL_OPTIONS else values
    let values := if values.contains "default" then sortStrs (values.filter (· != "default") ++ DEFAULT_OPTIONS) else values
    some values

/-- the nine keyword flags `__main__.main` passes to `optimize`, in the order of `MAIN_WIRING` -/
def flagsOf (enable : List String) : List (String × Bool) :=
  MAIN_WIRING.map fun (kw, name) => (kw, enable.contains name)

/-- documented meaning of an `--enable` list for one trait -/
def specFlag (values : List String) (trait : String) : Bool :=
  !values.contains "none" &&
  (values.contains "all" || values.contains trait || (values.contains "default" && DEFAULT_OPTIONS.contains trait))

/-! ## `PredicateList` -/

inductive PredListArg where
  | auto
  | preds (ps : List Pred)
  | reject
  deriving Repr, BEq

/-- Python `str.strip(" ")` -/
def stripSpaces (s : String) : String :=
  String.ofList ((s.toList.dropWhile (· == ' ')).reverse.dropWhile (· == ' ')).reverse

/-- the part of Python's `int(str)` grammar the model covers: optional surrounding ASCII whitespace, optional
sign, decimal digits with single underscores between digits.  Negative arities are accepted by Python
(`Predicate(name, -1)`); the model reports them as `Int`. -/
def pyInt? (s : String) : Option Int :=
  let ws := fun (c : Char) => c == ' ' || c == '\t' || c == '\n' || c == '\r' || c == '\x0b' || c == '\x0c'
  let cs := ((s.toList.dropWhile ws).reverse.dropWhile ws).reverse
  let (neg, ds) := match cs with
    | '-' :: r => (true, r)
    | '+' :: r => (false, r)
    | r => (false, r)
  let rec go : List Char → Bool → Nat → Option Nat
    | [], lastDigit, acc => if lastDigit then some acc else none
    | c :: r, lastDigit, acc =>
      if c.isDigit then go r true (acc * 10 + (c.toNat - '0'.toNat))
      else if c == '_' && lastDigit && !r.isEmpty then go r false acc
      else none
  match ds with
  | [] => none
  | _ => (go ds false 0).map fun n => if neg then -(n : Int) else (n : Int)

structure IPred where
  name : String
  arity : Int
  deriving Repr, BEq, DecidableEq

inductive PredListRes where
  | auto
  | preds (ps : List IPred)
  | reject
  deriving Repr, BEq, DecidableEq

/-- `PredicateList.__call__(values)`; `none` stands for Python's `None` (option given without value). -/
def predicateList (values : Option String) : PredListRes :=
  match values with
  | none => .preds []
  | some v =>
    if v == "auto" then .auto
    else if v == "" then .preds []
    else
      let parts := v.splitOn ","
      let rs := parts.map fun ps =>
        match ps.splitOn "/" with
        | [n, a] => (pyInt? a).map fun k => (⟨stripSpaces n, k⟩ : IPred)
        | _ => none
      if rs.all Option.isSome then .preds (rs.filterMap id) else .reject

end NgoVerif
