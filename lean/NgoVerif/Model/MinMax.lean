import NgoVerif.Model.Dependency
import NgoVerif.Model.SumAgg
import NgoVerif.Model.Normalize
/-!
# Model of `ngo/minmax_aggregates.py`: class `MinMaxAggregator`

* the object: `unique_names`, `rule_dependency` (only `len(get_bodies(pred))` is ever used), `domain_predicates`
  (the `DomState` of `Model/Dependency.lean`, with its name memo and created domains) and `_minmax_preds`;
* stage 1, the first loop of `execute`: `_process_rule`, `_minmax_agg`, `_translatable_element`,
  `_simple_translation`, `_chain_translation`, `_create_aggregate_replacement`, `replace_orig`,
  `_store_aggregate_head`, `_store_aggregate_for_minimize`  (`firstLoop`);
* stage 2: `_replace_results_in_x`, `_replace_results_in_minimize`, `_replace_results_in_sum`,
  `_replace_results_in_sum_agg(_elem)`, `_split_element`, `_create_replacement`, `_characteristic_variables`
  (`replaceResultsInX`, `execute`).

Python sets of `Variable`s are duplicate-free lists of names (`VSet`); the only place where the iteration order of
such a set is visible is `sorted(rest_vars)` (sorted by name) and the dict comprehension over `lvars` in
`_simple_translation` (see `renameElem`).  Python exceptions are `Except.error "py: …"` / `"assert: …"`, they end
the whole `execute`.  Locations: `LOC` is line 1 column 1; `rule.update(body=…)` keeps the location of the rule.
-/
namespace NgoVerif
namespace MinMax
open Dep

/-- `ngo.utils.globals.NEXT` / `PREV` -/
def NEXT : Term := .var "__NEXT"
def PREV : Term := .var "__PREV"

/-- `TranslationMap` -/
structure TransMap where
  oldpred : Pred
  newpred : Pred
  mapping : List (Option Nat)
  deriving Repr, Inhabited

/-- an entry of `_minmax_preds`: `(function, translation, index)` -/
structure MMPred where
  fn : AggFun
  tm : TransMap
  idx : Nat
  deriving Repr, Inhabited

/-- the mutable part of the object -/
structure State where
  dom : DomState
  /-- `_minmax_preds` in append order -/
  mm : List MMPred
  /-- `input_predicates` -/
  inputs : List Pred := []

abbrev M := StateT State (Except String)

def liftE {α : Type} (e : Except String α) : M α := fun s =>
  match e with
  | .ok a => .ok (a, s)
  | .error m => .error m

/-- run a state-passing function of `Model/Dependency.lean` on `self.domain_predicates` -/
def liftDom {α : Type} (f : DomState → Except String (α × DomState)) : M α := fun s =>
  match f s.dom with
  | .ok (a, d) => .ok (a, { s with dom := d })
  | .error m => .error m

def getDom : M DomState := fun s => .ok (s.dom, s)

/-- `len(self.rule_dependency.get_bodies(pred))`: `head2bodies[pred]` gets one entry per YIELD of
`headderivable_predicates` over the rules of the program the object was built from -/
def getBodiesCount (prg : Prog) (p : Pred) : Nat :=
  (prg.flatMap fun s => s.headDerivable.filter fun sp => sp.pred == p).length

def stmLine : Stm → Nat
  | .rule l _ _ _ => l
  | .minimize l _ _ _ _ _ => l
  | _ => 0

def posLit (name : String) (args : List Term) : Lit := (.pos, .sym (.fn name args false))

/-! ## `_minmax_agg`, `_translatable_element` -/

/-- a body literal that is a body aggregate -/
structure AggLit where
  sign : Sign
  line : Nat
  col : Nat
  lg : Option Guard
  f : AggFun
  elems : List BAggElem
  rg : Option Guard

def AggLit.blit (a : AggLit) : BLit := .lit (a.sign, .bagg a.line a.col a.lg a.f a.elems a.rg)

/-- `_minmax_agg(rule)`: the first `#min`/`#max` body aggregate literal (of any sign) -/
def minmaxAgg : List BLit → Option AggLit
  | [] => none
  | .lit (s, .bagg l c lg f elems rg) :: rest =>
    if f == .max || f == .min then some ⟨s, l, c, lg, f, elems, rg⟩ else minmaxAgg rest
  | _ :: rest => minmaxAgg rest

/-- `all(map(static, conditions))`; `all` stops at the first non-static condition, so a later
`-p(X)` (`AttributeError`: an `UnaryOperation` has no `name`) is not looked at -/
def allStatic (st : DomState) : List Lit → Except String Bool
  | [] => .ok true
  | (_, .sym t) :: rest => do
    let p ← symPredE t
    if st.isStatic p then allStatic st rest else pure false
  | _ :: rest => allStatic st rest

/-- `any(map(self._translatable_element, elements))`; stops at the first translatable element -/
def anyTranslatable (st : DomState) : List BAggElem → Except String Bool
  | [] => .ok false
  | e :: es => do
    if !(← allStatic st e.2) then pure true else anyTranslatable st es

/-! ## `_simple_translation` -/

/-- `old2new = {oldvar: uv.make_unique(oldvar) for oldvar in lvars}` and the `transform_ast` with it.

`lvars` is a Python set, iterated in hash order; here in order of first occurrence.  Every member but `_` already
occurs in the rule, so it is renamed to `name + str(count)` for the first count that is free; the results for two
different members are independent of the order in which they are asked, unless `X` and `X1` are both local and
`X0 … X9` are all taken (then both compete for `X10`) - no input of the correspondence comes near that. -/
def renameElem (uv : UniqueVars) (gvars : VSet) (elem : BAggElem) : Except String (BAggElem × UniqueVars) := do
  let lvars := vDiff (vOfList ((bElemsTerms [elem]).flatMap Term.vars)) gvars
  let (m, uv) ← lvars.foldlM (fun (acc : List (String × String) × UniqueVars) v =>
      match acc.2.makeUnique v with
      | some (n, uv') => (pure (acc.1 ++ [(v, n)], uv') : Except String _)
      | none => .error "fuel: make_unique") ([], uv)
  let f : String → Term := fun n => .var ((m.lookup n).getD n)
  pure ((elem.1.map (Term.subst f), litsMapTerms (Term.subst f) elem.2), uv)

/-- remove the first body literal that is `==` the aggregate (`body.remove(agg)`) -/
def removeFirst (agg : BLit) : List BLit → List BLit
  | [] => []
  | b :: bs => if SumAgg.stripBLit b == SumAgg.stripBLit agg then bs else b :: removeFirst agg bs

def simpleLoop (stm : Stm) (body : List BLit) (agg : AggLit) (lg : Guard) (gvars : VSet) :
    List BAggElem → UniqueVars → Except String (List Stm)
  | [], _ => .ok []
  | elem :: rest, uv => do
    let (elem', uv) ← renameElem uv gvars elem
    match elem'.1 with
    | [] => .error "py: IndexError: elem.terms[0]"
    | w :: _ =>
      let newlits := elem'.2 ++ [(agg.sign, .cmp lg.term [⟨lg.op, w⟩])]
      let r := stm.setBody (body ++ newlits.map BLit.lit)
      let rs ← simpleLoop stm body agg lg gvars rest uv
      pure (r :: rs)

/-- `_simple_translation(rule, agg)`; only called with a left guard.  (It also removes the aggregate from the body
of the rule object it was given, which nobody looks at afterwards.) -/
def simpleTranslation (stm : Stm) (agg : AggLit) : Except String (List Stm) := do
  let gvars ← globalVarsInsideBody stm.body
  let uv := UniqueVars.init stm
  let body := removeFirst agg.blit stm.body
  match agg.lg with
  | none => .error "py: AttributeError: left_guard is None"  -- unreachable
  | some lg => simpleLoop stm body agg lg gvars agg.elems uv

/-! ## `_store_aggregate_head`, `_store_aggregate_for_minimize` -/

def indexOf? (l : List Term) (t : Term) : Option Nat :=
  let rec go : List Term → Nat → Option Nat
    | [], _ => none
    | x :: xs, i => if x == t then some i else go xs (i + 1)
  go l 0

def isVarOrSym : Term → Bool
  | .var _ => true
  | .sym _ => true
  | _ => false

def pushMM (f : AggFun) (tm : TransMap) (maxVar : String) (args : List Term) : M Unit := fun s =>
  let new := (List.range args.length).zip args |>.filterMap fun (i, a) =>
    if a == .var maxVar then some (⟨f, tm, i⟩ : MMPred) else none
  .ok ((), { s with mm := s.mm ++ new })

/-- `_store_aggregate_head(function, head, rest_vars, max_var, new_name)` -/
def storeHead (prg : Prog) (f : AggFun) (head : Head) (restVars : List Term) (maxVar : String) (newName : String) :
    M Unit :=
  match head with
  | .lit (_, .sym (.fn name args _)) => do
    let st ← get
    if getBodiesCount prg ⟨name, args.length⟩ != 1 || st.inputs.contains ⟨name, args.length⟩ then pure ()
    else if args.any fun a => !isVarOrSym a then pure ()
    else if restVars.any fun v => !args.contains v then pure ()
    else
      let all := restVars ++ [.var maxVar]
      let tm : TransMap := ⟨⟨name, args.length⟩, ⟨newName, restVars.length + 1⟩, args.map (indexOf? all)⟩
      pushMM f tm maxVar args
  | _ => pure ()

/-- `_store_aggregate_for_minimize(function, rest_vars, max_var, new_name)`; all arguments are Variables -/
def storeMinimize (f : AggFun) (restVars : List Term) (maxVar : String) (newName : String) : M Unit :=
  let args := restVars ++ [.var maxVar]
  let tm : TransMap := ⟨⟨newName, args.length⟩, ⟨newName, restVars.length + 1⟩, args.map (indexOf? args)⟩
  pushMM f tm maxVar args

/-! ## `_chain_translation` -/

/-- the partition of the body: (lits_with_vars, lits_without_vars, rest_vars) -/
def splitBody (agg : BLit) (inside gv : VSet) : List BLit → List BLit × List BLit × VSet
  | [] => ([], [], [])
  | b :: bs =>
    let (w, wo, rv) := splitBody agg inside gv bs
    if SumAgg.stripBLit b == SumAgg.stripBLit agg then (w, wo, rv)
    else
      -- fix (known_findings.json `fixed:`): only the global variables of the literal
      let bv := vInter (vOfList b.vars) gv
      if !(vInter bv inside).isEmpty then (b :: w, wo, vUnion bv rv) else (w, b :: wo, rv)

/-- `UniqueVariables(x).make_unique(PREV)`, `.make_unique(NEXT)`: two variables `x` does not use
(fix recorded in known_findings.json `fixed:`, finding D7: the names were hard-wired) -/
def neighbours (vars : List String) : Term × Term :=
  match (⟨vars⟩ : UniqueVars).makeUnique "__PREV" with
  | some (p, u) =>
    match u.makeUnique "__NEXT" with
    | some (n, _) => (.var p, .var n)
    | none => (.var p, NEXT)
  | none => (PREV, NEXT)

/-- `_create_aggregate_replacement(agg, elem, rest_vars, new_predicate, lits_with_vars)` -/
def createAggregateReplacement (isMax : Bool) (cond : List Lit) (weight : Term) (restVars : List Term)
    (newPred : Pred) (litsWith : List BLit) : M (List Stm) := do
  let domRules ← (fun s =>
    match createDomain s.dom newPred with
    | (.ok r, d) => .ok (r, { s with dom := d })
    | (.error e, _) => .error e : M (List Stm))
  let st ← getDom
  let domP ← liftE (st.domainPredicate newPred)
  let anon : APred := ⟨domP, List.range newPred.arity⟩
  let nextRules ← liftDom fun d => createNext d anon 0
  let maxP ← liftDom fun d => maxAnon d anon 0
  let minmaxP ← if isMax then liftDom fun d => minAnon d anon 0 else pure maxP
  let chainP ← liftDom fun d => chainPred d anon 0 isMax
  let nextP ← liftDom fun d => nextAnon d anon 0
  let chainName := chainP.name
  let auxRule : Stm := .rule 1 1 (.lit (posLit chainName (restVars ++ [weight]))) (cond.map BLit.lit ++ litsWith)
  let (PREV, NEXT) := neighbours (restVars.flatMap Term.vars)
  let prevAgg := if isMax then PREV else NEXT
  let nextAgg := if isMax then NEXT else PREV
  let nextLit : Lit := posLit nextP.name [PREV, NEXT]
  let chainRule : Stm := .rule 1 1 (.lit (posLit chainName (restVars ++ [prevAgg])))
    [.lit (posLit chainName (restVars ++ [nextAgg])), .lit nextLit]
  let resRule : Stm := .rule 1 1 (.lit (posLit newPred.name (restVars ++ [prevAgg])))
    [.lit (posLit chainName (restVars ++ [prevAgg])),
     .clit ((.neg, .sym (.fn chainName (restVars ++ [nextAgg]) false)), [nextLit])]
  let border : Term := .sym (if isMax then .inf else .sup)
  -- fix (known_findings.json `fixed:`): a variable the copied literals do not use (`UniqueVariables(Rule(head, lits_with_vars))`);
  -- it was the hard-wired `X` (finding D7)
  let uvX := UniqueVars.init (Stm.rule 1 1 (.lit (posLit newPred.name (restVars ++ [border]))) litsWith)
  let vX : Term ← (match uvX.makeUnique "X" with
    | some (r, _) => pure (Term.var r)
    | none => throw "fuel: make_unique" : M Term)
  let borderRule : Stm := .rule 1 1 (.lit (posLit newPred.name (restVars ++ [border])))
    ([.lit (posLit minmaxP.name [vX]), .lit (.neg, .sym (.fn chainName (restVars ++ [vX]) false))] ++ litsWith)
  pure (domRules ++ nextRules ++ [auxRule, chainRule, resRule, borderRule])

/-- `replace_orig(rule, agg, new_name, rest_vars, lits_without_vars)`.  NB the sign of the aggregate literal is
not looked at. -/
def replaceOrig (prg : Prog) (stm : Stm) (agg : AggLit) (newName : String) (restVars : List Term)
    (litsWithout : List BLit) : M (List Stm) := do
  let an := SumAgg.analyticsOfGuards agg.lg agg.rg
  let (maxVar, rest) := match an.equalVars with
    | v :: r => (v, r)
    | [] => ("__VAR" ++ newName, [])
  let mv : Term := .var maxVar
  let eqLits : List BLit := match rest with
    | [v] => [.lit (.pos, .cmp mv [⟨.eq, .var v⟩])]
    | _ => []
  let body : List BLit := [.lit (posLit newName (restVars ++ [mv]))] ++ eqLits
    ++ an.bounds.map (fun b => BLit.lit (.pos, .cmp mv [b])) ++ litsWithout
  match stm with
  | .rule _ _ h _ => storeHead prg agg.f h restVars maxVar newName
  | _ => storeMinimize agg.f restVars maxVar newName
  pure [stm.setBody body]

/-- `_chain_translation(rule, agg)` -/
def chainTranslation (prg : Prog) (stm : Stm) (agg : AggLit) : M (List Stm) :=
  match agg.elems with
  | [] => throw "assert: len(agg.atom.elements) == 1"  -- unreachable: no element is translatable
  | _ :: _ :: _ => pure [stm]
  | [elem] =>
    match elem.1 with
    | [] => throw "py: IndexError: elem.terms[0]"
    | weight :: _ => do
      let isMax := agg.f == .max
      let newName := "__" ++ (if isMax then "max" else "min") ++ "_0_" ++ toString (stmLine stm)
      let newPred : Pred := ⟨newName, 1⟩
      let inside := vOfList ((bElemsTerms agg.elems).flatMap Term.vars)
      let gv ← globalVarsInsideBody stm.body
      let (litsWith, litsWithout, rv) := splitBody agg.blit inside gv stm.body
      let rv := match stm with
        | .minimize _ _ w p ts _ =>
          ts.foldl (fun acc t => vUnion acc (vInter inside t.vars)) (vUnion (vUnion rv (vInter inside w.vars)) (vInter inside p.vars))
        | _ => rv
      let restVars : List Term := (sortNames rv).map Term.var
      let conds : List BLit := elem.2.map BLit.lit ++ litsWith
      -- fix (known_findings.json `fixed:`): the chain rules consist of the element's condition and the joined literals; they
      -- have to bind their variables and the shared ones
      let (bnd, unb) ← liftE (bindingBody conds)
      if !unb.isEmpty || rv.any (fun v => !bnd.contains v) then return [stm]
      liftDom fun d => do
        let d' ← addDomainRule d newPred [(.fn newName [weight] false, conds)]
        pure ((), d')
      let st ← getDom
      if !st.hasDomain newPred then pure [stm]
      else do
        let r1 ← createAggregateReplacement isMax elem.2 weight restVars newPred litsWith
        let r2 ← replaceOrig prg stm agg newName restVars litsWithout
        pure (r1 ++ r2)

/-! ## `_process_rule` and the first loop of `execute` -/

def isLtLe (o : CmpOp) : Bool := o == .lt || o == .le
def isGtGe (o : CmpOp) : Bool := o == .gt || o == .ge

/-- `_process_rule(rule)` for a Rule or Minimize -/
def processRule (prg : Prog) (stm : Stm) : M (List Stm) :=
  match minmaxAgg stm.body with
  | none => pure [stm]
  | some agg => do
    let st ← getDom
    if !(← liftE (anyTranslatable st agg.elems)) then pure [stm]
    else
      match agg.lg, agg.rg with
      | none, none => pure [stm]
      | some lg, none =>
        let lt := isLtLe lg.op
        let gt := isGtGe lg.op
        let isMax := agg.f == .max
        let isMin := agg.f == .min
        if (agg.sign == .pos && ((isMax && lt) || (isMin && gt)))
            || (agg.sign == .neg && ((isMin && lt) || (isMax && gt))) then
          liftE (simpleTranslation stm agg)
        else chainTranslation prg stm agg
      | _, _ => chainTranslation prg stm agg

/-- the first loop of `execute`: `ret` right before `_replace_results_in_x` -/
def firstLoop (prg : Prog) : List Stm → M (List Stm)
  | [] => pure []
  | s :: rest => do
    let r ← (if s.isRuleOrMin then processRule prg s else pure [s])
    let rs ← firstLoop prg rest
    pure (r ++ rs)

/-- `MinMaxAggregator(prg, input_predicates)` -/
def initState (prg : Prog) (inputs : List Pred) : Except String State := do
  let d ← DomState.init (UniqueNames.init prg inputs) prg
  pure ⟨d, [], inputs⟩

/-- which branch `_process_rule` takes (for the histogram of the correspondence; not part of the result) -/
def branchOf (st : DomState) (stm : Stm) : String :=
  if !stm.isRuleOrMin then "other" else
  match minmaxAgg stm.body with
  | none => "no minmax aggregate"
  | some agg =>
    match anyTranslatable st agg.elems with
    | .error _ => "error"
    | .ok false => "static"
    | .ok true =>
      match agg.lg, agg.rg with
      | none, none => "no guard"
      | some lg, none =>
        let isMax := agg.f == .max
        let isMin := agg.f == .min
        if (agg.sign == .pos && ((isMax && isLtLe lg.op) || (isMin && isGtGe lg.op)))
            || (agg.sign == .neg && ((isMin && isLtLe lg.op) || (isMax && isGtGe lg.op))) then "simple"
        else "chain"
      | _, _ => "chain"

/-! ## stage 2: `_replace_results_in_x` -/

mutual
/-- `_characteristic_variables(term)` as names -/
def characteristicVars : Term → List String
  | .var n => [n]
  | .sym _ => []
  | .fn _ args _ => charVarsList args
  | _ => []
def charVarsList : List Term → List String
  | [] => []
  | t :: ts => characteristicVars t ++ charVarsList ts
end

/-- `translation.translate_parameters(arguments)`: a list with holes -/
def translateParameters (mapping : List (Option Nat)) (arguments : List Term) : Except String (List (Option Term)) :=
  let rec setAt : List (Option Term) → Nat → Term → List (Option Term)
    | [], 0, v => [some v]
    | [], n + 1, v => none :: setAt [] n v
    | _ :: xs, 0, v => some v :: xs
    | x :: xs, n + 1, v => x :: setAt xs n v
  let rec go : List (Option Nat) → List Term → List (Option Term) → Except String (List (Option Term))
    | [], _, ret => .ok ret
    | none :: ms, args, ret => go ms (args.drop 1) ret
    | some i :: ms, args, ret =>
      if arguments.length ≤ i then .error "assert: len(arguments) > index"
      else match args with
        | a :: as => go ms as (setAt ret i a)
        | [] => .error "py: IndexError: arguments[oldidx]"
  go mapping arguments []

/-- the two replacement (weight, terms, conditions) triples of `_create_replacement`; `oldArgs` are
`oldmax.atom.symbol.arguments`. -/
def createReplacement (nb : Term × Term) (mp : MMPred) (minimize : Bool) (terms : List Term) (oldArgs : List Term) :
    M (List (Term × List Term × List Lit)) := do
  let (PREV, NEXT) := nb
  let negateIf : Term → Term := fun x => if minimize then x else .un .minus x
  let isMax := mp.fn == .max
  let prev := if isMax then PREV else NEXT
  let next := if isMax then NEXT else PREV
  let weight1 := negateIf (.bin .minus next prev)
  let newpred := mp.tm.newpred
  let chainP ← liftDom fun d => chainPred d ⟨⟨newpred.name, 1⟩, [0]⟩ 0 isMax
  let chainName := chainP.name
  let terms1 := Term.fn chainName [PREV, NEXT] false :: terms
  let newargs ← liftE (translateParameters mp.tm.mapping oldArgs)
  -- fix (known_findings.json `fixed:`): `idx` is a position in the old predicate, the mapping gives the one in the new
  let newidx ← liftE (match mp.tm.mapping[mp.idx]? with
    | some (some j) => (pure j : Except String Nat)
    | some none => .error "py: TypeError: the result has no position in the new predicate"
    | none => .error "py: IndexError: mapping[idx]")
  let newargs := (List.range newargs.length).zip newargs |>.map fun (i, x) => if i == newidx then some next else x
  let newargs ← liftE (newargs.mapM fun x => match x with
    | some t => (pure t : Except String Term)
    | none => .error "assert: isinstance(arg, AST)")
  let chainLit : Lit := posLit chainName newargs
  let domP ← liftDom fun d => d.domNamed newpred.name 1
  let anon : APred := ⟨domP, List.range domP.arity⟩
  let nextP ← liftDom fun d => nextAnon d anon 0
  let nextLit : Lit := posLit nextP.name [PREV, NEXT]
  let infsup : Term := .sym (if isMax then .sup else .inf)
  let weight2 := negateIf next
  let terms2 := Term.fn chainName [infsup, next] false :: terms
  let mmP ← if isMax then liftDom fun d => minAnon d anon 0 else liftDom fun d => maxAnon d anon 0
  let mmLit : Lit := posLit mmP.name [next]
  pure [(weight1, terms1, [chainLit, nextLit]), (weight2, terms2, [chainLit, mmLit])]

/-- the weight is `V` (minimize) or `-V` (maximize) -/
def simpleWeight : Term → Option (String × Bool)
  | .var n => some (n, true)
  | .un .minus (.var n) => some (n, false)
  | _ => none

def isMinimizeStm : Stm → Bool
  | .minimize .. => true
  | _ => false

/-- `unsafe` is non-empty: an objective of the program with a potentially unifying tuple is not `==` `stm` -/
def unsafeObjective (ret : Prog) (stm : Stm) (key : List Term) : Except String Bool :=
  let rec go : List Stm → Except String Bool
    | [] => pure false
    | x :: xs =>
      match SumAgg.objectiveKey x with
      | none => go xs
      | some k => do
        if (← SumAgg.potUnifySeq k key) && !SumAgg.minimizeEq x stm then pure true else go xs
  go ret

/-- the split of the conditions: (oldmax = the LAST condition whose positive predicates are exactly `[oldpred]`,
the conditions that are not such) -/
def splitConds {β : Type} (predsOf : β → List Pred) (oldpred : Pred) : List β → Option β × List β
  | [] => (none, [])
  | c :: cs =>
    let (om, rest) := splitConds predsOf oldpred cs
    if predsOf c == [oldpred] then ((match om with | some o => some o | none => some c), rest)
    else (om, c :: rest)

def posDneg : List Sign := [.pos, .dneg]

/-- `oldmax.atom.symbol.arguments` -/
def oldmaxArgs : BLit → Except String (List Term)
  | .lit (_, .sym (.fn _ args _)) => .ok args
  | _ => .error "py: AttributeError: oldmax.atom.symbol.arguments"

/-- `_replace_results_in_minimize(stm, minimizes)` -/
def replaceInMinimize (ret : Prog) (stm : Stm) : M (List Stm) :=
  match stm with
  | .minimize _ _ w p ts body => do
    let s ← get
    if s.mm.isEmpty then pure [stm]
    else
      match simpleWeight w with
      | none => pure [stm]
      | some (varname, minimize) =>
        let preds := (bodyPreds posDneg body).map (·.pred)
        match s.mm.find? fun m => preds.contains m.tm.oldpred with
        | none => pure [stm]
        | some mp => do
          if ← liftE (unsafeObjective ret stm (w :: p :: ts)) then pure [stm]
          else
            let (oldmax, restCond) := splitConds (fun b => (BLit.preds [.pos] b).map (·.pred)) mp.tm.oldpred body
            match oldmax with
            | none => throw "assert: oldmax is not None"
            | some om =>
              -- fix (known_findings.json `fixed:`): the weight has to be the min/max result itself
              let args0 ← liftE (oldmaxArgs om)
              match args0[mp.idx]? with
              | none => throw "py: IndexError: oldmax.atom.symbol.arguments[idx]"
              | some ra =>
              if ra != Term.var varname then pure [stm] else
              -- fix (known_findings.json `fixed:`): ... and must not be one of the group's keys as well
              if (args0.filter (· == ra)).length != 1 then pure [stm] else
              let oldVars := (vOfList om.vars).filter (· != varname)
              let termVars := ts.flatMap characteristicVars
              if !vSubset oldVars termVars then pure [stm]
              else do
                let args ← liftE (oldmaxArgs om)
                let reps ← createReplacement (neighbours stm.vars) mp minimize ts args
                pure (reps.map fun (wt, tms, conds) => Stm.minimize 1 1 wt p tms (conds.map BLit.lit ++ restCond))
  | _ => throw "assert: stm.ast_type == ASTType.Minimize"

/-- `_replace_results_in_sum_agg_elem(elem, rest_elems)` -/
def replaceInSumElem (nb : Term × Term) (elem : BAggElem) (restElems : List BAggElem) : M (List BAggElem) :=
  match elem.1 with
  | [] => throw "py: IndexError: term_tuple[0]"
  | w :: restTerms => do
    let s ← get
    let preds := (litsPreds posDneg elem.2).map (·.pred)
    -- `_split_element`
    let mp? ← (match s.mm.find? fun m => preds.contains m.tm.oldpred with
      | none => pure none
      | some mp => do
        let uni ← liftE (restElems.anyM fun x => SumAgg.potUnifySeq x.1 elem.1)
        pure (if uni then none else some mp) : M (Option MMPred))
    match mp? with
    | none => pure [elem]
    | some mp =>
      let (oldmax, restCond) := splitConds (fun l => (litPreds [.pos] l).map (·.pred)) mp.tm.oldpred elem.2
      match oldmax with
      | none => throw "assert: old_max is not None"
      | some om =>
        match simpleWeight w with
        | none => pure [elem]
        | some (varname, minimize) =>
          -- fix (known_findings.json `fixed:`): the weight has to be the min/max result itself
          let args0 ← liftE (oldmaxArgs (.lit om))
          match args0[mp.idx]? with
          | none => throw "py: IndexError: old_max.atom.symbol.arguments[idx]"
          | some ra =>
          if ra != Term.var varname then pure [elem] else
          -- fix (known_findings.json `fixed:`): ... and must not be one of the group's keys as well
          if (args0.filter (· == ra)).length != 1 then pure [elem] else
          let oldVars := (vOfList (litVars om)).filter (· != varname)
          let termVars := restTerms.flatMap characteristicVars
          if !vSubset oldVars termVars then pure [elem]
          else do
            let args ← liftE (oldmaxArgs (.lit om))
            let reps ← createReplacement nb mp minimize restTerms args
            pure (reps.map fun (wt, tms, conds) => (wt :: tms, conds ++ restCond))

def replaceInSumElems (nb : Term × Term) (all : List BAggElem) : List BAggElem → M (List BAggElem)
  | [] => pure []
  | e :: es => do
    let r ← replaceInSumElem nb e (all.filter fun x => !SumAgg.elemEq x e)
    let rs ← replaceInSumElems nb all es
    pure (r ++ rs)

def isSumAggLit : BLit → Bool
  | .lit (_, .bagg _ _ _ f _ _) => f == .sum || f == .sump
  | _ => false

/-- the body loop of `_replace_results_in_sum` -/
def replaceInSumBody (nb : Term × Term) : List BLit → M (List BLit)
  | [] => pure []
  | b :: bs => do
    let b' ← (match b with
      | .lit (s, .bagg _ _ lg f elems rg) =>
        if f == .sum || f == .sump then do
          let es ← replaceInSumElems nb elems elems
          pure (BLit.lit (s, .bagg 1 1 lg f es rg))
        else pure b
      | _ => pure b : M BLit)
    let bs' ← replaceInSumBody nb bs
    pure (b' :: bs')

/-- `_replace_results_in_x(prg, minimizes)`; `minimizes` are the objectives of `prg` grouped by tuple -/
def replaceResultsInX (ret : Prog) : List Stm → M (List Stm)
  | [] => pure []
  | s :: rest => do
    let r ← (match s with
      | .minimize .. => replaceInMinimize ret s
      | .rule _ _ h body =>
        if body.any isSumAggLit then do
          let b ← replaceInSumBody (neighbours s.vars) body
          pure [Stm.rule 1 1 h b]
        else pure [s]
      | _ => pure [s] : M (List Stm))
    let rs ← replaceResultsInX ret rest
    pure (r ++ rs)

/-- `MinMaxAggregator(prg, inputs).execute(prg)` -/
def execute (prg : Prog) : M (List Stm) := do
  let ret ← firstLoop prg prg
  replaceResultsInX ret ret

end MinMax
end NgoVerif
