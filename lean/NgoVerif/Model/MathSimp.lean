import NgoVerif.Model.Binding
import NgoVerif.Model.Normalize
import NgoVerif.Model.MathSimpPoly
/-!
# Model of `ngo/math_simplification.py` (`MathSimplification.execute`, class `Goebner`)

sympy is an EXTERNAL function of the model: `groebner`, `solve`, `Goebner.combine` (whose body is `collect`,
`lcm` and sympy arithmetic on expressions) and `sorted(…, key=default_sort_key)` on relations are requests
(`Req`) answered from a list of recorded answers (`Ans`), in call order.  Everything else is modelled:

* stage 1a – which literals are converted (`to_sympy`, `_to_sympy_term`, `_to_sympy_comparison`,
  `_to_sympy_bodyaggregate`), the symbol tables `_fo_vars`, `help_neq_vars`, `_sym2agg`, `_constants` (insertion
  ordered dicts), the dict `equalities` (keyed by the literal, AST equality ignores locations), the equation
  system and the variable list handed to `groebner`;
* stage 1b – `simplify_equalities` (`remove_unneeded_formulas`, the solve loop, `compress_relations`, the final
  sort), `sympy2ast` / `new_sum` / `new_mul` / `new_pow` / `new_abs`, `relation2ast`, `double_relation2ast`;
* `execute`: `exline_arithmetic`, binding information, the sign of the new literals, the binding check, `cost`.

Fragment: the model follows polynomial arithmetic.  `/`, `\`, `|x|` on non-constants, `**` with a non-constant,
negative or large (> 8) exponent make an equation `bad` (sympy evaluates such expressions while it builds them,
e.g. `Y/1` is `Y`): it is sent to `groebner` as the opaque equation `none`, everything else goes on as usual
(in practice `groebner` then raises and the statement is kept).

Python exceptions: inside the `try` of `execute` every exception means "keep the statement" (`Err.py`, caught by
`tryPy`); outside it leaves `execute` (`Err.py` at top level).
-/
namespace NgoVerif.MathSimp
open NgoVerif

/-! ## the interface to sympy -/

abbrev Rel3 := Tree × CmpOp × Tree
abbrev Rel5 := Tree × CmpOp × Tree × CmpOp × Tree

inductive Rel where
  | r3 (r : Rel3)
  | r5 (r : Rel5)
  deriving Repr, BEq, Inhabited

inductive Req where
  /-- `none`: an equation the model does not follow (non-polynomial arithmetic) -/
  | groebner (eqs : List (Option Poly)) (vars : List String)
  | solve (p : Poly) (v : String)
  | combine (a b : Rel3)
  | sort (rels : List Rel)
  deriving Repr, Inhabited

inductive Ans where
  /-- `groebner` / `solve` returned these expressions -/
  | trees (kind : String) (ts : List Tree)
  /-- the call raised -/
  | exc (kind : String)
  /-- `combine` returned `None` / a 5-tuple; `a`, `b` are the two relations after the call (it mutates them) -/
  | comb (res : Option Rel5) (a b : Rel3)
  | perm (p : List Nat)
  deriving Repr, Inhabited

inductive Err where
  /-- a Python exception -/
  | py (m : String)
  /-- outside the modelled fragment -/
  | unsup (m : String)
  /-- the recorded answers do not fit the requests of the model (always a mismatch) -/
  | oracle (m : String)
  deriving Repr, Inhabited

structure OSt where
  answers : List Ans
  /-- the requests so far, most recent first -/
  requests : List Req
  /-- number of `combine` answers that the model computed itself (`predictCombine`) and found confirmed -/
  predicted : Nat := 0

abbrev M := ExceptT Err (StateM OSt)

def ask (req : Req) : M Ans := do
  let s ← get
  match s.answers with
  | [] =>
    set ({ s with requests := req :: s.requests } : OSt)
    throw (.oracle "no recorded answer left")
  | a :: as =>
    set ({ s with answers := as, requests := req :: s.requests } : OSt)
    pure a

/-- `try: x  except Exception: …` – only Python exceptions are caught; the sympy requests made so far stay made -/
def tryPy {α : Type} (x : M α) : M (Option α) :=
  ExceptT.mk do
    let r ← x.run
    match r with
    | .ok a => pure (.ok (some a))
    | .error (.py _) => pure (.ok none)
    | .error e => pure (.error e)

def liftBinding {α : Type} (x : Except String α) : M α :=
  match x with
  | .ok a => pure a
  | .error m => if m.startsWith "fuel" then throw (.oracle m) else throw (.py m)

/-! ## stage 1a: clingo AST → polynomials -/

/-- a sympy expression as far as the model follows it: a polynomial, or something sympy evaluates itself -/
inductive PR where
  | poly (p : Poly)
  | bad
  deriving Repr, BEq, Inhabited

def PR.lift2 (f : Poly → Poly → Poly) : PR → PR → PR
  | .poly a, .poly b => .poly (f a b)
  | _, _ => .bad

/-- the object `Goebner` -/
structure GB where
  /-- `_fo_vars`: symbol name = variable name, in insertion order -/
  foVars : List String := []
  /-- `help_neq_vars`: dummy ↦ operator -/
  helpNeq : List (Nat × CmpOp) := []
  /-- `_sym2agg`: dummy ↦ aggregate without guards -/
  sym2agg : List (Nat × Atom) := []
  /-- `_constants`: symbol name ↦ the `SymbolicTerm` -/
  constants : List (String × Term) := []
  /-- `equalities` -/
  equalities : List (BLit × List PR) := []
  /-- number of `Dummy` objects created so far (`dummy_index` is increasing) -/
  counter : Nat := 0
  deriving Inhabited

/-- the name of the `k`-th dummy in the polynomials -/
def dummyName (k : Nat) : String := "$" ++ toString k

/-- the state is the object `gb`; `throw ()` is a Python exception raised by sympy while an expression is built
(`execute` catches it and treats the literal as not convertible; what was entered into the tables stays) -/
abbrev G := ExceptT Unit (StateM GB)

def regVar (n : String) : G Unit :=
  modify fun g => if g.foVars.contains n then g else { g with foVars := g.foVars ++ [n] }

def regConst (n : String) (t : Term) : G Unit :=
  modify fun g =>
    if g.constants.any (·.1 == n) then { g with constants := g.constants.map fun (k, v) => if k == n then (k, t) else (k, v) }
    else { g with constants := g.constants ++ [(n, t)] }

def newDummy : G Nat := do
  let g ← get
  set { g with counter := g.counter + 1 }
  pure g.counter

/-- `str(t)` of a `SymbolicTerm` whose symbol is a function symbol without arguments -/
def constStr (name : String) (pos : Bool) : String :=
  (if pos then "" else "-") ++ (if name == "" then "()" else name)

/-- `lhs ** rhs` -/
def powPR : PR → PR → PR
  | .poly a, .poly b =>
    match b.const? with
    | some n => if n < 0 || n > 8 then .bad else .poly (a.pow n.toNat)
    | none => .bad
  | _, _ => .bad

/-- `lhs / rhs`: followed for integer constants only (fix recorded as `fixed:` in known_findings.json: clingo's division
rounds towards zero, sympy's `floor(lhs / rhs)` rounds down) -/
def divPR : PR → PR → PR
  | .poly a, .poly b =>
    match a.const?, b.const? with
    | some x, some y => if y == 0 then .bad else .poly (Poly.const (Int.tdiv x y))  -- fix: clingo rounds towards zero (was `floor`)
    | _, _ => .bad
  | _, _ => .bad

/-- `lhs % rhs`: followed for integer constants (non-zero modulus) only -/
def modPR : PR → PR → PR
  | .poly a, .poly b =>
    match a.const?, b.const? with
    | some x, some y => if y == 0 then .bad else .poly (Poly.const (Int.tmod x y))  -- fix: sign of the dividend (was sympy's `Mod`)
    | _, _ => .bad
  | _, _ => .bad

def absPR : PR → PR
  | .poly a =>
    match a.const? with
    | some x => .poly (Poly.const (if x < 0 then -x else x))
    | none => .bad
  | .bad => .bad

/-- `_to_sympy_term` -/
def toTerm : Term → G (Option PR)
  | .var n => do
    regVar n
    pure (some (.poly (Poly.sym n)))
  | .sym (.num n) => pure (some (.poly (Poly.const n)))
  | .sym (.str _) => pure none
  | .sym .inf => pure none
  | .sym .sup => pure none
  | .sym (.fn name args pos) =>
    if args.isEmpty then do
      regConst (constStr name pos) (.sym (.fn name args pos))
      pure (some (.poly (Poly.sym (constStr name pos))))
    else pure none
  | .un op a => do
    let r ← toTerm a
    match r with
    | none => pure none
    | some x =>
      match op with
      | .minus => pure (some (PR.lift2 Poly.sub (.poly []) x))
      | .neg => pure none
      | .abs => pure (some (absPR x))
  | .bin op l r =>
    if op == .and || op == .or || op == .xor then pure none
    else do
      let a ← toTerm l
      let b ← toTerm r
      match a, b with
      | some x, some y =>
        match op with
        | .div => pure (some (divPR x y))
        | .minus => pure (some (PR.lift2 Poly.sub x y))
        | .mod =>
          -- `Mod(x, 0)`: ZeroDivisionError
          if y == .poly [] then throw () else pure (some (modPR x y))
        | .mul => pure (some (PR.lift2 Poly.mul x y))
        | .plus => pure (some (PR.lift2 Poly.add x y))
        | .pow => pure (some (powPR x y))
        | _ => pure none
      | _, _ => pure none
  | .fn name args ext =>
    -- `Symbol(str(t))`, NOT entered into `_constants`
    if args.isEmpty then pure (some (.poly (Poly.sym ((if ext then "@" else "") ++ (if name == "" then "()" else name)))))
    else pure none
  | .ival _ _ => pure none
  | .pool _ => pure none

/-- `negate_comparison` -/
def negateCmp : CmpOp → CmpOp
  | .eq => .ne | .ne => .eq | .ge => .lt | .le => .gt | .gt => .le | .lt => .ge

/-- `_to_equality` -/
def toEquality (lhs : PR) (op : CmpOp) (rhs : PR) : G PR :=
  if op == .eq then pure (PR.lift2 Poly.sub rhs lhs)
  else do
    let aux ← newDummy
    modify fun g => { g with helpNeq := g.helpNeq ++ [(aux, op)] }
    pure (PR.lift2 Poly.sub (PR.lift2 Poly.sub lhs rhs) (.poly (Poly.sym (dummyName aux))))

/-- `_to_sympy_comparison` -/
def toComparison (l : Term) (op : CmpOp) (r : Term) (neg : Bool) : G (Option PR) := do
  let lhs ← toTerm l
  match lhs with
  | none => pure none
  | some x =>
    let rhs ← toTerm r
    match rhs with
    | none => pure none
    | some y =>
      let e ← toEquality x (if neg then negateCmp op else op) y
      pure (some e)

/-- `_to_sympy_bodyaggregate` -/
def toBodyAgg (line col : Nat) (lg : Option Guard) (f : AggFun) (elems : List BAggElem) (rg : Option Guard)
    (neg : Bool) : G (Option (List PR)) :=
  match lg with
  | none => pure none
  | some lg =>
    if neg && rg.isSome then pure none
    else do
      let d ← newDummy
      let dummy := PR.poly (Poly.sym (dummyName d))
      let lhs ← toTerm lg.term
      match lhs with
      | none => pure none
      | some x =>
        let e1 ← toEquality x (if neg then negateCmp lg.op else lg.op) dummy
        let rest ← (match rg with
          | none => pure (some [])
          | some rg => do
            let rhs ← toTerm rg.term
            match rhs with
            | none => pure none
            | some y =>
              let e2 ← toEquality dummy (if neg then negateCmp rg.op else rg.op) y
              pure (some [e2]) : G (Option (List PR)))
        match rest with
        | none => pure none
        | some es =>
          modify fun g => { g with sym2agg := g.sym2agg ++ [(d, Atom.bagg line col none f elems none)] }
          pure (some (e1 :: es))

/-- `to_sympy`.  `atom.guards[0]` of a comparison without guards is an `IndexError`, which `execute` turns into
`None`; further guards are ignored. -/
def toSympy : BLit → G (Option (List PR))
  | .lit (s, .cmp t gs) =>
    match gs with
    | [] => pure none
    | g :: _ => do
      let r ← toComparison t g.op g.term (s == .neg)
      pure (r.map fun e => [e])
  | .lit (s, .bagg line col lg f elems rg) => toBodyAgg line col lg f elems rg (s == .neg)
  | _ => pure none

/-- clingo's AST equality ignores locations: the dict key of a body literal -/
def blitKey : BLit → BLit
  | .lit (s, .bagg _ _ lg f elems rg) => .lit (s, .bagg 0 0 lg f elems rg)
  | b => b

/-- `conditions_of_body_agg` -/
def conditionsOfBodyAgg : Atom → List Lit
  | .bagg _ _ _ _ elems _ => elems.flatMap (·.2)
  | .agg _ elems _ => elems.flatMap (·.2)
  | _ => []

structure AggConds where
  pos : List Lit := []
  neg : List Lit := []
  dneg : List Lit := []

def AggConds.get (a : AggConds) : Sign → List Lit
  | .pos => a.pos | .neg => a.neg | .dneg => a.dneg

def AggConds.add (a : AggConds) (s : Sign) (l : List Lit) : AggConds :=
  match s with
  | .pos => { a with pos := a.pos ++ l }
  | .neg => { a with neg := a.neg ++ l }
  | .dneg => { a with dneg := a.dneg ++ l }

/-- the first loop of `execute` over the body: (newbody, agg_conditions), the object `gb` is the state -/
def convertBody : List BLit → List BLit → AggConds → StateM GB (List BLit × AggConds)
  | [], newbody, ac => pure (newbody, ac)
  | blit :: rest, newbody, ac => do
    let r ← (toSympy blit).run
    match r with
    | .error _ => convertBody rest (newbody ++ [blit]) ac
    | .ok none => convertBody rest (newbody ++ [blit]) ac
    | .ok (some es) =>
      let ac := match blit with
        | .lit (s, a) => ac.add s (conditionsOfBodyAgg a)
        | _ => ac
      modify fun g =>
        if g.equalities.any (fun e => blitKey e.1 == blitKey blit) then
          { g with equalities := g.equalities.map fun e => if blitKey e.1 == blitKey blit then (e.1, es) else e }
        else { g with equalities := g.equalities ++ [(blit, es)] }
      convertBody rest newbody ac

/-- the dummies of the variable list in creation order; the harness calls the k-th one `$k` -/
def GB.dummies (g : GB) : List Nat :=
  let ds := g.helpNeq.map (·.1) ++ g.sym2agg.map (·.1)
  (List.range g.counter).filter fun k => ds.contains k

def indexOf? (x : Nat) : List Nat → Option Nat
  | [] => none
  | y :: ys => if x == y then some 0 else (indexOf? x ys).map (· + 1)

/-- rename the dummies by their rank among the registered ones (the naming of the wire format) -/
def GB.canon (g : GB) : GB :=
  let ds := g.dummies
  let rk (k : Nat) : Nat := (indexOf? k ds).getD k
  let ren (n : String) : String :=
    match (List.range g.counter).find? (fun k => dummyName k == n) with
    | some k => dummyName (rk k)
    | none => n
  { g with
    helpNeq := g.helpNeq.map fun (k, op) => (rk k, op)
    sym2agg := g.sym2agg.map fun (k, a) => (rk k, a)
    equalities := g.equalities.map fun (b, es) => (b, es.map fun e => match e with
      | .poly p => .poly (p.rename ren)
      | .bad => .bad) }

/-! ## stage 1b: sympy expression trees → clingo AST -/

/-- what `sympy2ast` returns: a term, or a `BodyAggregate` (for an aggregate dummy) -/
inductive R where
  | term (t : Term)
  | agg (a : Atom)
  deriving Repr, BEq, Inhabited

def R.isAgg : R → Bool
  | .agg _ => true
  | .term _ => false

def aggFun? : Atom → Option AggFun
  | .bagg _ _ _ f _ _ => some f
  | _ => none

def aggElems : Atom → List BAggElem
  | .bagg _ _ _ _ es _ => es
  | _ => []

def isMinMax (a : Atom) : Bool := aggFun? a == some .min || aggFun? a == some .max

/-- `AGG_STR` -/
def AGG_STR : String := "__agg"

/-- `agg_ident(i)` -/
def aggIdent (i : Nat) : Term := .fn AGG_STR [.sym (.num i)] false

def leftAssoc (op : BinOp) : Term → List Term → Term
  | acc, [] => acc
  | acc, t :: ts => leftAssoc op (.bin op acc t) ts

def termsOf (asts : List R) : List Term := asts.filterMap fun r => match r with | .term t => some t | .agg _ => none
def aggsOf (asts : List R) : List Atom := asts.filterMap fun r => match r with | .agg a => some a | .term _ => none

/-- the elements of the `index`-th aggregate, tagged -/
def tagElems (index : Nat) (a : Atom) : List BAggElem := (aggElems a).map fun (ts, c) => (ts ++ [aggIdent index], c)

def tagAggs : Nat → List Atom → Except String (List BAggElem)
  | _, [] => pure []
  | i, a :: as => do
    if isMinMax a then throw "SympyApi: Cannot express addition with min/max aggregate"
    let rest ← tagAggs (i + 1) as
    pure (tagElems i a ++ rest)

def enumFrom {α : Type} : Nat → List α → List (Nat × α)
  | _, [] => []
  | i, x :: xs => (i, x) :: enumFrom (i + 1) xs

/-- `new_sum` -/
def newSum (asts : List R) : Except String R :=
  if asts.length < 2 then throw "assert: len(asts) >= 2" else
  match aggsOf asts with
  | collector :: moreAggs => do
    let rest := termsOf asts
    if isMinMax collector then throw "SympyApi: Cannot express addition with min/max aggregate"
    -- fix (known_findings.json `fixed:`): the result is a #sum; a #sum+ can only join it if its weights are non-negative numbers
    let sumPlusBad : Atom → Bool := fun a => match a with
      | .bagg _ _ _ .sump es _ => !(es.all fun e => match e.1 with | .sym (.num n) :: _ => n ≥ 0 | _ => false)
      | _ => false
    if (collector :: moreAggs).any sumPlusBad then
      throw "SympyApi: Cannot express addition with a #sum+ whose weights may be negative"
    let more ← tagAggs 1 moreAggs
    let n := (collector :: moreAggs).length
    let restElems : List BAggElem := (enumFrom 0 rest).map fun (i, t) => ([t, aggIdent (n + i)], [])
    match collector with
    | .bagg l c lg _ _ rg => pure (.agg (.bagg l c lg .sum (tagElems 0 collector ++ more ++ restElems) rg))
    | _ => throw "unreachable: aggregate expected"
  | [] =>
    match termsOf asts with
    | t :: ts => pure (.term (leftAssoc .plus t ts))
    | [] => throw "unreachable"

/-- `new_mul` -/
def newMul (asts : List R) : Except String R :=
  if asts.length < 2 then throw "assert: len(asts) >= 2" else
  match aggsOf asts with
  | collector :: moreAggs => do
    if !moreAggs.isEmpty then throw "SympyApi: Cannot express multiplication of aggregates"
    if isMinMax collector then throw "SympyApi: Cannot express multiplication with min/max aggregate"
    match termsOf asts with
    | [] => throw "IndexError: rest[0]"
    | f :: fs =>
      let factor := leftAssoc .mul f fs
      match collector with
      | .bagg l c lg fn0 es rg =>
        -- fix (known_findings.json `fixed:`): #sum+ ignores negative weights; a factor that may not be positive can only be
        -- moved into weights that are non-negative numbers, and the result is a #sum
        let posNum : Term → Bool := fun t => match t with | .sym (.num n) => n > 0 | _ => false
        let nonnegW : BAggElem → Bool := fun e => match e.1 with | .sym (.num n) :: _ => n ≥ 0 | _ => false
        if fn0 == .sump && !(f :: fs).all posNum && !es.all nonnegW then
          throw "SympyApi: Cannot move a factor that may not be positive into the weights of #sum+"
        let fn := if fn0 == .sump && !(f :: fs).all posNum then AggFun.sum else fn0
        let es' : List BAggElem := es.map fun (ts, cond) =>
          match ts with
          | [] => ([Term.bin .mul (.sym (.num 1)) factor], cond)
          | t :: rest => (Term.bin .mul t factor :: rest, cond)
        pure (.agg (.bagg l c lg fn es' rg))
      | _ => throw "unreachable: aggregate expected"
  | [] =>
    match termsOf asts with
    | t :: ts => pure (.term (leftAssoc .mul t ts))
    | [] => throw "unreachable"

/-- `new_pow` -/
def newPow (asts : List R) : Except String R :=
  match asts with
  | [.term a, .term b] => pure (.term (.bin .pow a b))
  | [_, _] => throw "SympyApi: Cannot express exponentiation of aggregates"
  | _ => throw "SympyApi: Missing Sympy specification for more than one power argument"

/-- `new_abs` -/
def newAbs (asts : List R) : Except String R :=
  match asts with
  | [.term a] => pure (.term (.un .abs a))
  | [_] => throw "SympyApi: Cannot express absolute of aggregates"
  | _ => throw "SympyApi: Missing Sympy specification for more than one absolute argument"

/-- the symbol lookup of `sympy2ast`: `_fo_vars`, then `_sym2agg`, then `_constants` -/
def lookupSym (g : GB) (s : String) : Except String R :=
  if g.foVars.contains s then pure (.term (.var s))
  else match g.sym2agg.find? (fun e => dummyName e.1 == s) with
    | some (_, a) => pure (.agg a)
    | none =>
      match g.constants.find? (fun e => e.1 == s) with
      | some (_, t) => pure (.term t)
      | none => throw "assert: Solve for t first ?"

mutual
/-- `sympy2ast`; every error is a Python exception (`SympyApi`, `AssertionError`, `OverflowError`…) -/
def sympy2ast (g : GB) : Tree → Except String R
  | .int n =>
    -- `clingo.Number` takes 32 bit integers
    if n < -2147483648 || n > 2147483647 then throw "OverflowError: clingo.Number" else pure (.term (.sym (.num n)))
  | .rat _ _ => throw "SympyApi: Not Implemented conversion Rational"
  | .sym s => lookupSym g s
  | .add args => do
    let asts ← sympy2astList g args
    newSum asts
  | .mul args => do
    let asts ← sympy2astList g args
    newMul asts
  | .pow b e pos => do
    let b' ← sympy2ast g b
    let e' ← sympy2ast g e
    let asts := [b', e']
    if pos then newPow asts else throw "SympyApi: Division by negative pow not supported"
  | .other f args => do
    let asts ← sympy2astList g args
    if f == "Abs" then newAbs asts
    else if f == "Mod" then throw "SympyApi: Modulo not supported"
    else throw ("SympyApi: Not Implemented conversion " ++ f)
def sympy2astList (g : GB) : List Tree → Except String (List R)
  | [] => pure []
  | t :: ts => do
    let r ← sympy2ast g t
    let rs ← sympy2astList g ts
    pure (r :: rs)
end

/-- `compare` -/
def compareInt (l : Int) (op : CmpOp) (r : Int) : Bool :=
  match op with
  | .eq => l == r | .ne => l != r | .ge => l ≥ r | .le => l ≤ r | .gt => l > r | .lt => l < r

def liftPy {α : Type} (x : Except String α) : M α :=
  match x with
  | .ok a => pure a
  | .error m => throw (.py m)

/-- `int(expr)` of a number -/
def intOf (t : Tree) : M Int :=
  match t.toInt? with
  | some n => pure n
  | none => throw (.unsup "int() of a sympy number that is neither Integer nor Rational")

def termOf (r : R) : M Term :=
  match r with
  | .term t => pure t
  | .agg _ => throw (.unsup "an aggregate where clingo expects a term")

/-- `relation2ast` -/
def relation2ast (g : GB) (lhs : Tree) (op : CmpOp) (rhs : Tree) : M Atom := do
  if lhs.isNumber && rhs.isNumber then
    let l ← intOf lhs
    let r ← intOf rhs
    pure (.bool (compareInt l op r))
  else
    let rhsAst ← liftPy (sympy2ast g rhs)
    match rhsAst with
    | .agg (.bagg l c _ f es rg) =>
      let lt ← termOf (← liftPy (sympy2ast g lhs))
      pure (.bagg l c (some ⟨op, lt⟩) f es rg)
    | .agg _ => throw (.oracle "unreachable: aggregate expected")
    | .term rt =>
      let lt ← termOf (← liftPy (sympy2ast g lhs))
      pure (.cmp lt [⟨op, rt⟩])

/-- `double_relation2ast` -/
def doubleRelation2ast (g : GB) (lhs : Tree) (opl : CmpOp) (mid : Tree) (opr : CmpOp) (rhs : Tree) : M Atom := do
  let general : M Atom := do
    let midAst ← liftPy (sympy2ast g mid)
    match midAst with
    | .agg (.bagg l c _ f es _) =>
      let lt ← termOf (← liftPy (sympy2ast g lhs))
      let rt ← termOf (← liftPy (sympy2ast g rhs))
      pure (.bagg l c (some ⟨opl, lt⟩) f es (some ⟨opr, rt⟩))
    | .agg _ => throw (.oracle "unreachable: aggregate expected")
    | .term mt =>
      let lt ← termOf (← liftPy (sympy2ast g lhs))
      let rt ← termOf (← liftPy (sympy2ast g rhs))
      pure (.cmp lt [⟨opl, mt⟩, ⟨opr, rt⟩])
  if mid.isNumber then
    if lhs.isNumber then
      if compareInt (← intOf lhs) opl (← intOf mid) then relation2ast g mid opr rhs else pure (.bool false)
    else if rhs.isNumber then
      if compareInt (← intOf mid) opr (← intOf rhs) then relation2ast g lhs opl mid else pure (.bool false)
    else general
  else general

/-! ## `simplify_equalities` -/

/-- `remove_unneeded_formulas`: a formula is dropped if it is the only one mentioning some first-order variable
that is not needed.  `ret.remove(f)` of a formula already removed (two such variables in the same formula) is a
`ValueError`. -/
def removeUnneeded (g : GB) (formulas : List Tree) (needed : List String) : Except String (List Tree) :=
  let occ (v : String) : List Tree := formulas.filter fun f => f.syms.contains v
  let cands := g.foVars.filter fun v => !needed.contains v && (occ v).length == 1
  cands.foldlM (fun ret v =>
    match occ v with
    | f :: _ => if ret.contains f then pure (ret.erase f) else throw "ValueError: list.remove(x): x not in list"
    | [] => pure ret) formulas

structure LoopSt where
  ret : List Lit := []
  relations : List Rel3 := []
  solvedFor : List String := []

def treesOf (kind : String) (a : Ans) : M (List Tree) :=
  match a with
  | .trees k ts => if k == kind then pure ts else throw (.oracle ("answer of " ++ k ++ " for a " ++ kind ++ " request"))
  | .exc k => if k == kind then throw (.py (kind ++ " raised")) else throw (.oracle ("answer of " ++ k ++ " for a " ++ kind ++ " request"))
  | _ => throw (.oracle ("wrong kind of answer for a " ++ kind ++ " request"))

def polyOf (t : Tree) : M Poly :=
  match t.toPoly? with
  | some p => pure p
  | none => throw (.unsup "groebner returned a non-polynomial expression")

/-- the `for solve_for in chain(…)` loop: `some st'` if a candidate was solved for -/
def solveCandidates (g : GB) (expr : Tree) (st : LoopSt) : List String → M (Option LoopSt)
  | [] => pure none
  | v :: vs =>
    if st.solvedFor.contains v then solveCandidates g expr st vs
    else do
      let r ← tryPy (do
        let lexpr ← treesOf "solve" (← ask (.solve (← polyOf expr) v))
        match lexpr with
        | [e] =>
          let a ← relation2ast g (.sym v) .eq e
          pure (some a)
        | _ => pure none)
      match r with
      | some (some a) => pure (some { st with ret := st.ret ++ [(Sign.pos, a)], solvedFor := st.solvedFor ++ [v] })
      | _ => solveCandidates g expr st vs

/-- the body of `for expr in reversed(simplified_expressions)`; `none` = `return nothing` -/
def processExpr (g : GB) (neededSyms cands : List String) (expr : Tree) (st : LoopSt) : M (Option LoopSt) := do
  let free := expr.syms
  let neq := g.helpNeq.filter fun e => free.contains (dummyName e.1)
  match neq with
  | _ :: _ :: _ => pure none
  | [(v, op)] =>
    let lexpr ← treesOf "solve" (← ask (.solve (← polyOf expr) (dummyName v)))
    match lexpr with
    | [e] => pure (some { st with relations := st.relations ++ [(Tree.int 0, rhs2lhs op, e)] })
    | _ => pure none
  | [] =>
    let common := free.filter fun x => neededSyms.contains x
    let solved ← (if common.isEmpty then pure none else solveCandidates g expr st cands : M (Option LoopSt))
    match solved with
    | some st' => pure (some st')
    | none =>
      if !common.isEmpty || !(free.any fun x => g.foVars.contains x) then
        pure (some { st with relations := st.relations ++ [(Tree.int 0, CmpOp.eq, expr)] })
      else pure (some st)

def processAll (g : GB) (neededSyms cands : List String) : List Tree → LoopSt → M (Option LoopSt)
  | [], st => pure (some st)
  | e :: es, st => do
    match ← processExpr g neededSyms cands e st with
    | none => pure none
    | some st' => processAll g neededSyms cands es st'

/-! ### `combine` on integer-linear relations over one aggregate

`combine` is sympy from top to bottom (`collect`, `lcm`, arithmetic on expressions) and in general an external
function.  For the shapes it is made for – both right-hand sides are `c + k·a` for ONE aggregate symbol `a`
(or integer constants), the left-hand sides are integers – the model computes the answer itself and checks it
against the recorded one (a difference is an `oracle` error, i.e. a mismatch).  What is used of sympy there:
`collect(c + k·a, [aggregate symbols])` is `{a: k, 1: c}` without the zero entries, `x * f` distributes an integer
over a sum, the number comes first in the arguments of an `Add`, `1·a` is `a`. -/

/-- `c + k·a` as sympy prints it -/
def mkLin (c : Int) (a : String) (k : Int) : Tree :=
  let t := if k == 1 then Tree.sym a else .mul [.int k, .sym a]
  if c == 0 then t else .add [.int c, t]

/-- `(c, none)` for the integer `c`, `(c, some (a, k))` for `c + k·a` (`k ≠ 0`) -/
def linForm (t : Tree) : Option (Int × Option (String × Int)) :=
  let r : Option (Int × Option (String × Int)) := match t with
    | .int c => some (c, none)
    | .sym a => some (0, some (a, 1))
    | .mul [.int k, .sym a] => some (0, some (a, k))
    | .add [.int c, .sym a] => some (c, some (a, 1))
    | .add [.int c, .mul [.int k, .sym a]] => some (c, some (a, k))
    | _ => none
  match r with
  | some (c, some (a, k)) => if k != 0 && mkLin c a k == t then r else none
  | r => r

def flipIf (b : Bool) (op : CmpOp) : CmpOp := if b then rhs2lhs op else op

/-- the answer of `combine(relations, first, second)` where the model can compute it: the returned tuple and the
two relations afterwards -/
def predictCombine (g : GB) (r1 r2 : Rel3) : Option (Option Rel5 × Rel3 × Rel3) :=
  let isAgg (a : String) : Bool := g.sym2agg.any fun e => dummyName e.1 == a
  match r1, r2 with
  | (.int l1, op1, t1), (.int l2, op2, t2) =>
    match linForm t1, linForm t2 with
    | some (c1, none), some (c2, none) =>
      -- `collect` of a number: `{1: c}`, of zero: `{}`
      if c1 == 0 || c2 == 0 then some (none, r1, r2) else
      let lc : Int := Nat.lcm c1.natAbs c2.natAbs
      let f1 := lc / c1
      let f2 := lc / c2
      some (some (.int (l1 * f1), flipIf (f1 ≤ 0) op1, .int (c1 * f1), flipIf (f2 ≥ 0) op2, .int (l2 * f2)), r1, r2)
    | some (c1, some (a, k1)), some (c2, some (b, k2)) =>
      if !isAgg a || !isAgg b then none
      else if a != b then some (none, r1, r2)   -- an aggregate symbol outside the common keys
      else
        let lc : Int := Nat.lcm k1.natAbs k2.natAbs
        let f1 := lc / k1
        let f2 := lc / k2
        -- the constant is moved to the left whenever the scaled constants differ; a relation without a constant
        -- counts as constant 0 (fix 1e8b107 "math combines two bounds … only one of them has a constant term")
        let move := c1 * f1 != c2 * f2
        let (l1', c1') := if move then (l1 - c1, 0) else (l1, c1)
        let (l2', c2') := if move then (l2 - c2, 0) else (l2, c2)
        let n1 : Rel3 := (.int l1', op1, mkLin c1' a k1)
        let n2 : Rel3 := (.int l2', op2, mkLin c2' a k2)
        some (some (.int (l1' * f1), flipIf (f1 ≤ 0) op1, mkLin (c1' * f1) a (k1 * f1), flipIf (f2 ≥ 0) op2,
                    .int (l2' * f2)), n1, n2)
    | some (_, some (a, _)), some (_, none) => if isAgg a then some (none, r1, r2) else none
    | some (_, none), some (_, some (b, _)) => if isAgg b then some (none, r1, r2) else none
    | _, _ => none
  | _, _ => none

/-- the `for second …` loop of `compress_relations`: the relations (mutated by `combine`) and the combination -/
def tryCombine (g : GB) (first : Nat) : List Nat → List Rel3 → M (List Rel3 × Option Rel5)
  | [], rels => pure (rels, none)
  | second :: more, rels =>
    match rels[first]?, rels[second]? with
    | some a, some b => do
      match ← ask (.combine a b) with
      | .comb res a' b' =>
        match predictCombine g a b with
        | some (pres, pa, pb) =>
          if pres == res && pa == a' && pb == b' then modify fun s => { s with predicted := s.predicted + 1 }
          else throw (.oracle "combine: the answer the model computes differs from the recorded one")
        | none => pure ()
        let rels := (rels.set first a').set second b'
        match res with
        | some r5 => pure ((rels.eraseIdx second).eraseIdx first, some r5)
        | none => tryCombine g first more rels
      | .exc "combine" => throw (.py "combine raised")
      | _ => throw (.oracle "wrong kind of answer for a combine request")
    | _, _ => throw (.oracle "unreachable: index")

/-- `compress_relations`.  Fuel: `len(relations) - first` decreases in every round, `len + 1` rounds suffice. -/
def compressLoop (g : GB) : Nat → Nat → List Rel3 → List Rel → M (List Rel)
  | 0, _, _, _ => throw (.oracle "fuel: compress_relations")
  | fuel + 1, first, rels, acc =>
    if first < rels.length then do
      let seconds := (List.range rels.length).filter fun k => k > first
      let (rels', comb) ← tryCombine g first seconds rels
      match comb with
      | some r5 => compressLoop g fuel first rels' (acc ++ [.r5 r5])
      | none =>
        match rels'[first]? with
        | some r => compressLoop g fuel (first + 1) rels' (acc ++ [.r3 r])
        | none => throw (.oracle "unreachable: index")
    else pure acc

def isPerm (p : List Nat) (n : Nat) : Bool :=
  p.length == n && (List.range n).all fun k => p.contains k

/-- `sorted(rels, key=default_sort_key)` -/
def sortRels (rels : List Rel) : M (List Rel) :=
  if rels.length < 2 then pure rels
  else do
    match ← ask (.sort rels) with
    | .perm p =>
      if isPerm p rels.length then pure (p.filterMap fun k => rels[k]?)
      else throw (.oracle "sort: no permutation")
    | .exc "sort" => throw (.py "sorted raised")
    | _ => throw (.oracle "wrong kind of answer for a sort request")

def relToLit (g : GB) : Rel → M Lit
  | .r3 (l, op, r) => do
    let a ← relation2ast g l op r
    pure (Sign.pos, a)
  | .r5 (l, opl, m, opr, r) => do
    let a ← doubleRelation2ast g l opl m opr r
    pure (Sign.pos, a)

/-- the literals of `nothing = list(self.equalities.keys())`; non-literals cannot be keys -/
def nothingOf (g : GB) : List Lit :=
  g.equalities.filterMap fun e => match e.1 with | .lit l => some l | .clit _ => none

/-- `simplify_equalities(needed_vars, need_bound)`: the new body literals (the caller only reads `.atom`) -/
def simplifyEqualities (g : GB) (neededVars needBound : VSet) : M (List Lit) := do
  if !vSubset needBound neededVars then throw (.py "assert: need_bound.issubset(needed_vars)")
  if !(vDiff needBound g.foVars).isEmpty then throw (.py "SympyApi: variables seem to be unbound")
  let nothing := nothingOf g
  let neededSyms := sortNames (g.foVars.filter fun v => neededVars.contains v)
  let neededBound := sortNames (vOfList needBound)
  let varlist := (g.foVars.filter fun v => !neededSyms.contains v) ++ g.helpNeq.map (dummyName ·.1)
    ++ g.sym2agg.map (dummyName ·.1) ++ neededSyms
  let eqsR := g.equalities.flatMap (·.2)
  if varlist.isEmpty || eqsR.isEmpty then return nothing
  let eqs : List (Option Poly) := eqsR.map fun e => match e with
    | .poly p => some p
    | .bad => none
  if eqs.any fun p => match p with | some p => p.degree > 64 | none => false then throw (.unsup "degree > 64")
  let base ← treesOf "groebner" (← ask (.groebner eqs varlist))
  let simplified ← liftPy (removeUnneeded g base neededSyms)
  match ← processAll g neededSyms (neededBound ++ neededSyms) simplified.reverse {} with
  | none => pure nothing
  | some st =>
    if !vSubset neededBound st.solvedFor then return nothing
    let rels ← compressLoop g (st.relations.length + 1) 0 st.relations []
    let sorted ← sortRels rels
    let lits ← sorted.mapM (relToLit g)
    pure (st.ret ++ lits)

/-! ## `MathSimplification.execute` -/

/-- `negate_agg` -/
def negateAgg : Atom → Except String Atom
  | .bagg l c lg f es rg => pure (.bagg l c (lg.map fun g => ⟨negateCmp g.op, g.term⟩) f es (rg.map fun g => ⟨negateCmp g.op, g.term⟩))
  | .agg lg es rg => pure (.agg (lg.map fun g => ⟨negateCmp g.op, g.term⟩) es (rg.map fun g => ⟨negateCmp g.op, g.term⟩))
  | _ => throw "assert: agg.ast_type in (BodyAggregate, Aggregate)"

/-- `cost` -/
def cost (body : List BLit) : Nat × Nat :=
  ((body.filter fun b => match b with | .lit (_, .bagg ..) => true | _ => false).length,
   (body.filter fun b => match b with | .lit (_, .cmp ..) => true | _ => false).length)

def costGe (a b : Nat × Nat) : Bool := a.1 > b.1 || (a.1 == b.1 && a.2 ≥ b.2)

def subsetLits (a b : List Lit) : Bool := a.all fun x => b.contains x

/-- the sign the new literal gets so that the dependency graph is preserved -/
def placeCond (isRule isConstraint : Bool) (keys : List BLit) (ac : AggConds) (cond : Lit) : M BLit := do
  -- fix a8d8a21: `if cond in gb.equalities`: a literal handed back as it came in keeps its sign
  if keys.any (fun k => blitKey k == blitKey (.lit cond)) then return .lit cond
  let atom := cond.2
  let conds := conditionsOfBodyAgg atom
  if !isRule || isConstraint || conds.isEmpty || subsetLits conds ac.pos then pure (.lit (.pos, atom))
  else if subsetLits conds ac.dneg then pure (.lit (.dneg, atom))
  else if subsetLits conds ac.neg then do
    let a ← liftPy (negateAgg atom)
    pure (.lit (.neg, a))
  else throw (.py "SympyApi: Couldn't preserve dependency graph")

/-- one round of the loop of `execute` on an (already exlined) rule or objective -/
def executeBody (optimize : Bool) (stm : Stm) (body : List BLit) : M Stm := do
  let ((newbody, ac), gb0) := (convertBody body [] {}).run {}
  let gb := gb0.canon
  let isRule := match stm with | .rule .. => true | _ => false
  let isConstraint := match stm with | .rule _ _ (.lit (.pos, .bool false)) _ => true | _ => false
  let (needBound, noBound) ← (match stm with
    | .rule _ _ h _ => liftBinding (bindingHead h newbody)
    | .minimize _ _ w p ts _ => pure (vOfList (w.vars ++ p.vars ++ ts.flatMap Term.vars), [])
    | _ => pure ([], []) : M (VSet × VSet))
  let (boundBody, unboundBody) ← liftBinding (bindingBody newbody)
  let needed := vUnion (vUnion (vUnion boundBody unboundBody) needBound) noBound
  let unbound := vDiff (vUnion needBound unboundBody) boundBody
  let allvars := vOfList (newbody.flatMap BLit.vars)
  let gv1 ← liftBinding (globalVarsInsideBody body)
  let gv2 ← liftBinding (globalVarsInsideBody newbody)
  let needed := vUnion needed (vInter (vDiff gv1 gv2) allvars)
  -- fix (known_findings.json `fixed:`): a global variable used inside the elements of an aggregate handed to sympy is needed
  let aggElemVars := (gb.equalities.map (·.1)).flatMap fun k =>
    match k with
    | .lit (_, .bagg _ _ _ _ es _) => es.flatMap fun e => e.1.flatMap Term.vars ++ (litsTerms e.2).flatMap Term.vars
    | _ => []
  let needed := vUnion needed (vInter (vOfList aggElemVars) gv1)
  let r ← tryPy (do
    let newConds ← simplifyEqualities gb needed unbound
    newConds.mapM (placeCond isRule isConstraint (gb.equalities.map (·.1)) ac))
  match r with
  | none => pure stm
  | some extra =>
    let newbody := newbody ++ extra
    let (_, unb) ← liftBinding (bindingBody newbody)
    if !unb.isEmpty then pure stm
    else
      let newbody := if optimize && costGe (cost newbody) (cost body) then body else newbody
      pure (stm.setBody newbody)

def executeStm (optimize : Bool) (stm : Stm) : M Stm :=
  match stm with
  | .rule _ _ _ b => executeBody optimize stm b
  | .minimize _ _ _ _ _ b => executeBody optimize stm b
  | s => pure s

/-- `MathSimplification(prg).execute(prg, optimize)` -/
def execute (optimize : Bool) (prg : Prog) : M Prog := do
  let prg ← (match exlineArithmetic prg with
    | .ok p => pure p
    | .error m => throw (.oracle m) : M Prog)
  prg.mapM (executeStm optimize)

/-- run the model on the recorded answers: result and the requests in call order -/
def run (optimize : Bool) (prg : Prog) (answers : List Ans) : Except Err Prog × List Req × Nat :=
  let (r, st) := ((execute optimize prg).run).run { answers := answers, requests := [] }
  (r, st.requests.reverse, st.predicted)

end NgoVerif.MathSimp
