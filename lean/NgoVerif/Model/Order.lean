import NgoVerif.Meta.Cover
/-!
# The executable specification of the auxiliary order predicates (C20)

From the integer values of a domain (one group) compute its least element, greatest element and covering relation.
`sortInts` is insertion sort with duplicate removal; `Cover.consecutive` on its result *is* the covering relation
(`Props/C20.lean`).  Core Lean only, so the driver can run it on the extensions clingo reports.
-/
namespace NgoVerif

def insertInt (x : Int) : List Int → List Int
  | [] => [x]
  | y :: ys => if x < y then x :: y :: ys else if x = y then y :: ys else y :: insertInt x ys

def sortInts (l : List Int) : List Int := l.foldr insertInt []

/-- (least, greatest, covering pairs) of the value set -/
def orderSpec (l : List Int) : Option Int × Option Int × List (Int × Int) :=
  let s := sortInts l
  (s.head?, s.getLast?, Cover.consecutive s)

theorem mem_insertInt (a x : Int) : ∀ l : List Int, a ∈ insertInt x l ↔ a = x ∨ a ∈ l
  | [] => by simp [insertInt]
  | y :: ys => by
    unfold insertInt
    by_cases h1 : x < y
    · simp [h1]
    · by_cases h2 : x = y
      · subst h2; simp [h1]
      · simp only [h1, h2, if_false, List.mem_cons, mem_insertInt a x ys]
        constructor
        · rintro (h | h | h)
          · exact Or.inr (Or.inl h)
          · exact Or.inl h
          · exact Or.inr (Or.inr h)
        · rintro (h | h | h)
          · exact Or.inr (Or.inl h)
          · exact Or.inl h
          · exact Or.inr (Or.inr h)

theorem mem_sortInts (a : Int) : ∀ l : List Int, a ∈ sortInts l ↔ a ∈ l
  | [] => by simp [sortInts]
  | x :: xs => by
    have ih := mem_sortInts a xs
    simp only [sortInts, List.foldr_cons] at ih ⊢
    rw [mem_insertInt, ih]; simp

theorem sorted_insertInt (x : Int) : ∀ l : List Int, l.Pairwise (· < ·) → (insertInt x l).Pairwise (· < ·)
  | [], _ => by simp [insertInt]
  | y :: ys, h => by
    have hy := List.pairwise_cons.mp h
    unfold insertInt
    by_cases h1 : x < y
    · simp only [h1, if_true]
      refine List.pairwise_cons.mpr ⟨?_, h⟩
      intro a ha
      rcases List.mem_cons.mp ha with rfl | ha
      · exact h1
      · have := hy.1 a ha; omega
    · by_cases h2 : x = y
      · subst h2
        have : ¬ x < x := by omega
        simp only [this, if_false, if_true]; exact h
      · simp only [h1, h2, if_false]
        refine List.pairwise_cons.mpr ⟨?_, sorted_insertInt x ys hy.2⟩
        intro a ha
        rcases (mem_insertInt a x ys).mp ha with rfl | ha
        · omega
        · exact hy.1 a ha

theorem sorted_sortInts : ∀ l : List Int, (sortInts l).Pairwise (· < ·)
  | [] => by simp [sortInts]
  | x :: xs => by
    have ih := sorted_sortInts xs
    simp only [sortInts, List.foldr_cons] at ih ⊢
    exact sorted_insertInt x _ ih

end NgoVerif
