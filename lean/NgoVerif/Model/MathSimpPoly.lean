import NgoVerif.Syntax
/-!
# Data of the model of `ngo/math_simplification.py`: integer polynomials and sympy expression trees

sympy is external to the model.  What the model hands to sympy is an integer polynomial in expanded normal form
(`Poly`); what it gets back is a sympy expression tree (`Tree`: `expr.func` / `expr.args`), because the conversion
back to clingo AST (`Goebner.sympy2ast`) walks that tree.

* `Poly`: list of `(monomial, coefficient)`, coefficients non-zero, monomials sorted by `monoKey` (the string
  `name^exp*name^exp…`, compared by code points), a monomial is a list of `(symbol name, exponent > 0)` sorted by
  name.  The harness prints `sympy.expand` of the real expression in exactly this form.
* `Tree`: `int`, `rat`, `sym`, `add`, `mul`, `pow` (with the recorded value of `exp.is_positive is True`),
  `other` (any other sympy class, by name).
-/
namespace NgoVerif.MathSimp

/-! ## polynomials -/

abbrev Mono := List (String × Nat)
abbrev Poly := List (Mono × Int)

def monoKey (m : Mono) : String := "*".intercalate (m.map fun (n, k) => n ++ "^" ++ toString k)

/-- product of two monomials (merge of the two name-sorted lists) -/
def Mono.mul : Mono → Mono → Mono
  | [], b => b
  | a, [] => a
  | (x, i) :: as, (y, j) :: bs =>
    if x == y then (x, i + j) :: Mono.mul as bs
    else if x < y then (x, i) :: Mono.mul as ((y, j) :: bs)
    else (y, j) :: Mono.mul ((x, i) :: as) bs
termination_by a b => a.length + b.length

def Mono.degree (m : Mono) : Nat := (m.map (·.2)).sum

/-- add `c * m` to a polynomial in normal form -/
def addTerm (m : Mono) (c : Int) : Poly → Poly
  | [] => if c == 0 then [] else [(m, c)]
  | (m', c') :: rest =>
    if m == m' then (if c + c' == 0 then rest else (m', c + c') :: rest)
    else if monoKey m < monoKey m' then (if c == 0 then (m', c') :: rest else (m, c) :: (m', c') :: rest)
    else (m', c') :: addTerm m c rest

def Poly.add (p q : Poly) : Poly := q.foldl (fun acc (t : Mono × Int) => addTerm t.1 t.2 acc) p
def Poly.neg (p : Poly) : Poly := p.map fun (m, c) => (m, -c)
def Poly.sub (p q : Poly) : Poly := p.add q.neg
def Poly.mul (p q : Poly) : Poly :=
  p.foldl (fun acc (t : Mono × Int) =>
    q.foldl (fun acc2 (u : Mono × Int) => addTerm (Mono.mul t.1 u.1) (t.2 * u.2) acc2) acc) []
def Poly.const (n : Int) : Poly := if n == 0 then [] else [([], n)]
def Poly.sym (s : String) : Poly := [([(s, 1)], 1)]
def Poly.pow (p : Poly) : Nat → Poly
  | 0 => Poly.const 1
  | n + 1 => (Poly.pow p n).mul p

/-- the value of a polynomial without symbols -/
def Poly.const? : Poly → Option Int
  | [] => some 0
  | [([], c)] => some c
  | _ => none

def Poly.degree (p : Poly) : Nat := (p.map fun t => t.1.degree).foldl max 0

def dedup : List String → List String
  | [] => []
  | x :: xs => let r := dedup xs; if r.contains x then r else x :: r

/-- the symbols of a polynomial (duplicate free) -/
def Poly.syms (p : Poly) : List String := dedup (p.flatMap fun t => t.1.map (·.1))

/-! ## sympy expression trees -/

inductive Tree where
  | int (n : Int)
  | rat (p q : Int)
  | sym (s : String)
  | add (args : List Tree)
  | mul (args : List Tree)
  | pow (b e : Tree) (pos : Bool)
  | other (f : String) (args : List Tree)
  deriving Repr, BEq, Inhabited

mutual
/-- symbols occurring in a tree, with duplicates -/
def Tree.symsDup : Tree → List String
  | .int _ => []
  | .rat _ _ => []
  | .sym s => [s]
  | .add args => Tree.symsDupList args
  | .mul args => Tree.symsDupList args
  | .pow b e _ => b.symsDup ++ e.symsDup
  | .other _ args => Tree.symsDupList args
def Tree.symsDupList : List Tree → List String
  | [] => []
  | t :: ts => t.symsDup ++ Tree.symsDupList ts
end

/-- `expr.free_symbols` (as a duplicate-free list) -/
def Tree.syms (t : Tree) : List String := dedup t.symsDup

/-- `expr.is_number is True`: no symbol below -/
def Tree.isNumber (t : Tree) : Bool := t.symsDup.isEmpty

/-- `int(expr)` for a number: integers, and rationals truncated towards zero; anything else is outside the model -/
def Tree.toInt? : Tree → Option Int
  | .int n => some n
  | .rat p q => if q == 0 then none else some (Int.tdiv p q)
  | _ => none

mutual
/-- the polynomial a (polynomial) tree denotes -/
def Tree.toPoly? : Tree → Option Poly
  | .int n => some (Poly.const n)
  | .rat _ _ => none
  | .sym s => some (Poly.sym s)
  | .add args => Tree.sumPoly? args
  | .mul args => Tree.prodPoly? args
  | .pow b e _ =>
    match e with
    | .int n => if n < 0 || n > 64 then none else (b.toPoly?).map fun p => p.pow n.toNat
    | _ => none
  | .other _ _ => none
def Tree.sumPoly? : List Tree → Option Poly
  | [] => some []
  | t :: ts => do
    let p ← t.toPoly?
    let q ← Tree.sumPoly? ts
    pure (p.add q)
def Tree.prodPoly? : List Tree → Option Poly
  | [] => some (Poly.const 1)
  | t :: ts => do
    let p ← t.toPoly?
    let q ← Tree.prodPoly? ts
    pure (p.mul q)
end

/-- rename the symbols (injectively) and restore the normal form -/
def Poly.rename (f : String → String) (p : Poly) : Poly :=
  p.foldl (fun acc (t : Mono × Int) =>
    addTerm (t.1.foldl (fun m (x : String × Nat) => Mono.mul m [(f x.1, x.2)]) []) t.2 acc) []

end NgoVerif.MathSimp
