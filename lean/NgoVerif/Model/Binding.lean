import NgoVerif.Model.Collect
/-!
# Model of the variable-binding analysis of `ngo/utils/ast.py` (lines ~413-682)

`has_interval`, `has_unsafe_operation`, `_collect_binding_information_simple_literal`,
`_collect_binding_information_conditions`, `_collect_binding_information_from_equal`,
`comparison2comparisonlist`, `_collect_binding_information_from_comparison`,
`_collect_binding_information_from_comparisons`, `collect_binding_information_head`,
`collect_binding_information_body`, `collect_bound_variables`, `global_vars_inside_body`,
`global_vars_inside_head`, `largest_subset`.

Python sets of `Variable` ASTs are duplicate-free lists of variable NAMES (clingo AST equality ignores
locations, so a Variable is its name).  No result of these functions depends on set iteration order, the
driver sorts before answering.

Python exceptions (`assert stm.atom.ast_type != ASTType.Aggregate`) are `Except.error "assert: …"`;
an exhausted fuel is `Except.error "fuel: …"` (never expected, the harness counts it as a mismatch).
-/
namespace NgoVerif

/-! ## finite sets of variable names as duplicate-free lists -/

abbrev VSet := List String

/-- `a.update(b)` / `a | b` (keeps `a`'s order, appends the new members of `b`) -/
def vUnion (a : VSet) (b : List String) : VSet :=
  b.foldl (fun acc x => if acc.contains x then acc else acc ++ [x]) a

/-- `set(l)` -/
def vOfList (l : List String) : VSet := vUnion [] l

/-- `a - b` -/
def vDiff (a b : VSet) : VSet := a.filter (fun x => !b.contains x)

/-- `a & b` -/
def vInter (a b : VSet) : VSet := a.filter (fun x => b.contains x)

/-- `a <= b` -/
def vSubset (a b : VSet) : Bool := a.all (fun x => b.contains x)

/-- `set(filter(lambda var: var.name != "_", s))` -/
def vNoAnon (a : VSet) : VSet := a.filter (fun x => x != "_")

/-- insertion sort on names: the order of `sorted(<set of Variable>)` (clingo compares Variables by name) -/
def insertName (x : String) : List String → List String
  | [] => [x]
  | y :: ys => if x ≤ y then x :: y :: ys else y :: insertName x ys

def sortNames (l : List String) : List String := l.foldr insertName []

/-! ## `has_interval`, `has_unsafe_operation` (on terms, the only kind of argument they ever get here) -/

/-- `has_interval(t)` -/
def Term.hasInterval (t : Term) : Bool := !(t.collect Term.isIval).isEmpty

/-- the operator of a collected `UnaryOperation` is `Absolute` -/
def Term.isAbs : Term → Bool
  | .un .abs _ => true
  | _ => false

/-- the operator of a collected `BinaryOperation` is one of XOr, Power, Modulo, Division, Multiplication -/
def Term.isInvalidBin : Term → Bool
  | .bin op _ _ => op == .xor || op == .pow || op == .mod || op == .div || op == .mul
  | _ => false

/-- `has_unsafe_operation(t)`.  NB `collect_ast` does not descend below a match, so only the OUTERMOST unary /
binary operations are inspected: `(X*2)+1` and `-|X|` are "safe". -/
def Term.hasUnsafe (t : Term) : Bool :=
  if !(t.collect Term.isIval).isEmpty then true
  else if (t.collect Term.isUn).any Term.isAbs then true
  else (t.collect Term.isBin).any Term.isInvalidBin

/-! ## `_collect_binding_information_from_equal` -/

/-- the non-tuple branch of `_collect_binding_information_from_equal` (given the already computed
`unbound_variables`) -/
def fromEqualLeaf (lhs rhs : Term) (bound unb : VSet) : VSet × VSet :=
  let lv := vOfList lhs.vars
  let rv := vOfList rhs.vars
  let b1 := if lv.length == 1 && !lhs.hasUnsafe && vSubset rv bound then vUnion bound lv else bound
  let b2 := if rv.length == 1 && !rhs.hasUnsafe && vSubset lv b1 then vUnion b1 rv else b1
  (b2, vDiff unb b2)

/-- the arguments of a non-empty tuple `Function(name="", arguments≠[])` -/
def Term.tupleArgs? : Term → Option (List Term)
  | .fn name args _ => if name == "" && !args.isEmpty then some args else none
  | _ => none

mutual
/-- `_collect_binding_information_from_equal(lhs, rhs, bound)`.  The Python function aliases and mutates the
caller's set; every caller `update`s its set with the returned one anyway, so threading `bound` through is the
same thing.  Structural recursion on `lhs`. -/
def fromEqual (lhs rhs : Term) (bound : VSet) : VSet × VSet :=
  let unb := vUnion (vOfList lhs.vars) rhs.vars
  match lhs with
  | .fn ln largs _ =>
    if ln == "" && !largs.isEmpty then
      match rhs.tupleArgs? with
      | some rargs =>
        if largs.length == rargs.length then
          let (b, u) := fromEqualList largs rargs bound unb
          (b, vDiff u b)
        else fromEqualLeaf lhs rhs bound unb
      | none => fromEqualLeaf lhs rhs bound unb
    else fromEqualLeaf lhs rhs bound unb
  | _ => fromEqualLeaf lhs rhs bound unb
/-- the `for left, right in zip(lhs.arguments, rhs.arguments)` loop -/
def fromEqualList (ls rs : List Term) (bound unb : VSet) : VSet × VSet :=
  match ls, rs with
  | l :: ls', r :: rs' =>
    let (b, u) := fromEqual l r bound
    fromEqualList ls' rs' b (vUnion unb u)
  | _, _ => (bound, unb)
end

/-! ## comparisons -/

/-- `comparison2comparisonlist` -/
def comparisonList : Term → List Guard → List (Term × CmpOp × Term)
  | _, [] => []
  | lhs, g :: gs => (lhs, g.op, g.term) :: comparisonList g.term gs

/-- `_collect_binding_information_from_comparison` on the literal `(s, Comparison(t, gs))` -/
def fromComparison (s : Sign) (t : Term) (gs : List Guard) (inBound : VSet) : VSet × VSet :=
  let vars := vOfList ((t :: gs.map (·.term)).flatMap Term.vars)
  if s != .pos then ([], vars)
  else
    let (b, u) := (comparisonList t gs).foldl
      (fun (acc : VSet × VSet) (c : Term × CmpOp × Term) =>
        if c.2.1 == .eq then
          let (b', u') := fromEqual c.1 c.2.2 acc.1
          (b', vUnion acc.2 u')
        else acc)
      (inBound, vars)
    (b, vDiff u b)

/-! ## `_collect_binding_information_simple_literal` -/

/-- one argument of a positive symbolic literal -/
def simpleArg (acc : VSet × VSet) (arg : Term) : VSet × VSet :=
  let variables := arg.vars  -- a list: `p(X+X)` has two
  if (variables.length == 1 && !arg.hasUnsafe)
      -- fix (known_findings.json `fixed:`): `p(1..D)` does not bind `D`
      || ((arg.collect Term.isBin).length + (arg.collect Term.isUn).length == 0 && !arg.hasInterval) then
    (vUnion acc.1 variables, acc.2)
  else (acc.1, vUnion acc.2 variables)

/-- `_collect_binding_information_simple_literal(lit, in_bound, in_unbound)`; the result contains the inputs -/
def simpleLiteral (l : Lit) (inB inU : VSet) : VSet × VSet :=
  match l with
  | (s, .sym t) =>
    match s, t with
    | .pos, .fn _ args _ => args.foldl simpleArg (inB, inU)
    | _, _ => (inB, vUnion inU (litVars l))
  | (s, .cmp t gs) =>
    let (b, u) := fromComparison s t gs inB
    (vUnion inB b, vUnion inU u)
  | _ => (inB, inU)

/-! ## `_collect_binding_information_conditions` -/

/-- one `for condition in conditions` pass -/
def condPass (conds : List Lit) (b u : VSet) : VSet × VSet :=
  conds.foldl (fun (acc : VSet × VSet) c => simpleLiteral c acc.1 acc.2) (b, u)

/-- `while len(bound_variables) != size`: a pass, then stop iff the pass did not add a bound variable. -/
def condLoop (conds : List Lit) : Nat → VSet → VSet → Except String (VSet × VSet)
  | 0, _, _ => .error "fuel: _collect_binding_information_conditions"
  | fuel + 1, b, u =>
    let (b', u') := condPass conds b u
    if b'.length == b.length then .ok (b', u') else condLoop conds fuel b' u'

/-- `_collect_binding_information_conditions(conditions, already_bound)`.
Fuel: every pass but the last adds a variable occurring in `conds`, so `#occurrences + 1` passes suffice. -/
def conditions (conds : List Lit) (already : VSet) : Except String (VSet × VSet) := do
  let (b, u) ← condLoop conds ((litsTerms conds).flatMap Term.vars).length.succ already []
  pure (b, vDiff u b)

/-! ## `_collect_binding_information_from_comparisons` -/

def comparisonsPass (stmlist : List BLit) (b u : VSet) : VSet × VSet :=
  stmlist.foldl (fun (acc : VSet × VSet) stm =>
    match stm with
    | .lit (s, .cmp t gs) =>
      let (b', u') := fromComparison s t gs acc.1
      (vUnion acc.1 b', vUnion acc.2 u')
    | _ => acc) (b, u)

/-- `while True: orig = copy; pass; if orig == bound: break` (the set only grows, so equality is equality of
sizes) -/
def comparisonsLoop (stmlist : List BLit) : Nat → VSet → VSet → Except String (VSet × VSet)
  | 0, _, _ => .error "fuel: _collect_binding_information_from_comparisons"
  | fuel + 1, b, u =>
    let (b', u') := comparisonsPass stmlist b u
    if b'.length == b.length then .ok (b', u') else comparisonsLoop stmlist fuel b' u'

/-- `_collect_binding_information_from_comparisons(stmlist, bound)`; NB the returned `unbound` is NOT reduced
by the final `bound`.  Fuel as for `conditions`. -/
def fromComparisons (stmlist : List BLit) (inBound : VSet) : Except String (VSet × VSet) :=
  comparisonsLoop stmlist ((bodyTerms stmlist).flatMap Term.vars).length.succ inBound []

/-! ## `collect_binding_information_body` -/

/-- left/right guard of a body aggregate -/
def guardStep (s : Sign) (g : Option Guard) (acc : VSet × VSet) : VSet × VSet :=
  match g with
  | none => acc
  | some g =>
    if s == .pos && g.op == .eq then (vUnion acc.1 g.term.vars, acc.2)
    else (acc.1, vUnion acc.2 g.term.vars)

/-- `for element in stm.atom.elements` of a `BodyAggregate`; `bound_variables` is not changed by it -/
def baggElems (b : VSet) : List BAggElem → VSet → Except String VSet
  | [], u => pure u
  | (terms, conds) :: es, u => do
    let tv := vOfList (terms.flatMap Term.vars)
    let (bl, ul) ← conditions conds b
    let tv := vDiff (vDiff tv bl) b
    let u := vUnion u tv
    let u := vUnion u (vDiff ul b)
    baggElems b es u

/-- the body of `for stm in stmlist` -/
def bodyStm (stm : BLit) (b u : VSet) : Except String (VSet × VSet) :=
  match stm with
  | .lit (s, a) =>
    let (b, u) := simpleLiteral (s, a) b u
    match a with
    | .bagg _ _ lg _ elems rg => do
      let (b, u) := guardStep s rg (guardStep s lg (b, u))
      let u ← baggElems b elems u
      pure (b, u)
    | .agg lg elems rg =>
      let (b, u) := guardStep s rg (guardStep s lg (b, u))
      -- the assert sits inside the element loop: an element-free `{ }` passes
      if elems.isEmpty then pure (b, u)
      else .error "assert: stm.atom.ast_type != ASTType.Aggregate"
    | _ => pure (b, u)
  | .clit (l, conds) => do
    let tv := vOfList (litVars l)
    let (bl, ul) ← conditions conds b
    pure (b, vUnion (vUnion u ul) (vDiff tv bl))

def bodyStms : List BLit → VSet → VSet → Except String (VSet × VSet)
  | [], b, u => pure (b, u)
  | stm :: rest, b, u => do
    let (b, u) ← bodyStm stm b u
    bodyStms rest b u

/-- one iteration of the outer `while` -/
def bodyIter (stmlist : List BLit) (b u : VSet) : Except String (VSet × VSet) := do
  let (b, u) ← bodyStms stmlist b u
  let u := vDiff u b
  let (b', u') ← fromComparisons stmlist b
  let b := vUnion b b'
  let u := vUnion u u'
  pure (b, vDiff u b)

/-- `size_before = -1; while len(bound_variables) > size_before: …; size_before = len(bound_variables)`.
`size_before` is assigned at the END of the iteration from the set it is then compared with, so the condition is
false after the first iteration: the "fixpoint computation" always runs exactly once, and fuel 2 is enough
(one iteration, one failing test). -/
def bodyLoop (stmlist : List BLit) : Nat → Int → VSet → VSet → Except String (VSet × VSet)
  | 0, _, _, _ => .error "fuel: collect_binding_information_body"
  | fuel + 1, sizeBefore, b, u =>
    if (b.length : Int) > sizeBefore then do
      let (b, u) ← bodyIter stmlist b u
      bodyLoop stmlist fuel b.length b u
    else pure (b, u)

/-- `collect_binding_information_body(stmlist, prebound)` -/
def bindingBody (stmlist : List BLit) (prebound : Option VSet := none) : Except String (VSet × VSet) := do
  let b0 : VSet := match prebound with
    | none => []
    | some p => vOfList p
  let (b, u) ← bodyLoop stmlist 2 (-1) b0 []
  pure (vNoAnon b, vNoAnon u)

/-- `collect_bound_variables` -/
def collectBoundVariables (stmlist : List BLit) : Except String VSet := do
  let (b, _) ← bindingBody stmlist
  pure b

/-! ## `collect_binding_information_head` -/

def optGuardVars (g : Option Guard) : List String := (optGuardTerms g).flatMap Term.vars

/-- `collect_binding_information_head(head, body)` = (need_bound, no_bound_needed) -/
def bindingHead (head : Head) (body : List BLit) : Except String (VSet × VSet) := do
  let (boundInBody, _) ← bindingBody body
  let (need, nob) ← (match head with
    | .lit l => pure (vOfList (litVars l), [])
    | .hagg lg _ elems rg =>
      let need := vUnion (vOfList (optGuardVars lg)) (optGuardVars rg)
      elems.foldlM (fun (acc : VSet × VSet) (e : List Term × CondLit) => do
        let tv := vUnion (vOfList (e.1.flatMap Term.vars)) (litVars e.2.1)
        let (bl, ul) ← conditions e.2.2 boundInBody
        let tv := vDiff tv bl
        pure (vUnion (vUnion acc.1 tv) ul, vUnion acc.2 bl)) (need, [])
    | .agg lg elems rg =>
      let need := vUnion (vOfList (optGuardVars lg)) (optGuardVars rg)
      elems.foldlM (fun (acc : VSet × VSet) (e : CondLit) => do
        let (bl, ul) ← conditions e.2 boundInBody
        let needL := vOfList (litVars e.1)
        pure (vUnion (vUnion acc.1 (vDiff needL bl)) ul, vUnion acc.2 bl)) (need, [])
    | .disj elems =>
      -- fix (known_findings.json `fixed:`): the `unbound` of the conditions is kept, as for choice heads
      elems.foldlM (fun (acc : VSet × VSet) (e : CondLit) => do
        let (bl, ul) ← conditions e.2 boundInBody
        let needL := vOfList (litVars e.1)
        pure (vUnion (vUnion acc.1 (vDiff needL bl)) ul, vUnion acc.2 bl)) ([], [])
    | .theory _ => pure ([], []) : Except String (VSet × VSet))
  let need := vNoAnon need
  let nob := vNoAnon nob
  pure (vDiff need boundInBody, vUnion nob boundInBody)

/-- `global_vars_inside_body` -/
def globalVarsInsideBody (lits : List BLit) : Except String VSet := do
  let (b, u) ← bindingBody lits
  pure (vUnion b u)

/-- `global_vars_inside_head` -/
def globalVarsInsideHead (head : Head) : Except String VSet := do
  let (a, b) ← bindingHead head []
  pure (vUnion a b)

/-! ## `largest_subset` -/

/-- `itertools.combinations(l, r)` (lexicographic in positions) -/
def combinations : List α → Nat → List (List α)
  | _, 0 => [[]]
  | [], _ + 1 => []
  | x :: xs, r + 1 => (combinations xs r).map (x :: ·) ++ combinations xs (r + 1)

/-- `largest_subset(l)`: all sub-lists by positions, largest first -/
def largestSubset (l : List α) : List (List α) :=
  ((List.range (l.length + 1)).flatMap (combinations l)).reverse

/-! ## the fragment: theory atoms are outside (their variables are not mirrored) -/

mutual
def Atom.hasTheory : Atom → Bool
  | .theory _ => true
  | .bagg _ _ _ _ elems _ => bElemsHasTheory elems
  | .agg _ elems _ => cElemsHasTheory elems
  | _ => false
def litHasTheory : Sign × Atom → Bool
  | (_, a) => a.hasTheory
def litsHasTheory : List (Sign × Atom) → Bool
  | [] => false
  | l :: ls => litHasTheory l || litsHasTheory ls
def bElemsHasTheory : List (List Term × List (Sign × Atom)) → Bool
  | [] => false
  | (_, c) :: es => litsHasTheory c || bElemsHasTheory es
def cElemsHasTheory : List ((Sign × Atom) × List (Sign × Atom)) → Bool
  | [] => false
  | (l, c) :: es => litHasTheory l || litsHasTheory c || cElemsHasTheory es
end

def BLit.hasTheory : BLit → Bool
  | .lit l => litHasTheory l
  | .clit c => litHasTheory c.1 || litsHasTheory c.2

def Head.hasTheory : Head → Bool
  | .lit l => litHasTheory l
  | .disj es => es.any fun c => litHasTheory c.1 || litsHasTheory c.2
  | .agg _ es _ => es.any fun c => litHasTheory c.1 || litsHasTheory c.2
  | .hagg _ _ es _ => es.any fun e => litHasTheory e.2.1 || litsHasTheory e.2.2
  | .theory _ => true

end NgoVerif
