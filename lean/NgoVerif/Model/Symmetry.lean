import NgoVerif.Model.Dependency
/-!
# Model of `ngo/symmetry.py` (class `SymmetryTranslator`, `Symmetry`, `SymmetryBundle`) and of
`replace_simple_assignments` / `replace_simple_assignments_aggregate` (`ngo/utils/ast.py`)

Contents

* `symCmp`, `termCmp`, `atomCmp`, `litCmp`, `blitCmp`: clingo's `<` on `Symbol`s and on AST nodes (what Python's
  `sorted(<ASTs>)` uses).  Measured on clingo 5.8.2: nodes of different `ASTType` are ordered by the integer value
  of the type, nodes of the same type lexicographically by their attributes in constructor order with the
  location skipped; strings by `strcmp`, enumerations by value, sequences lexicographically (a proper prefix is
  smaller), an absent optional child before a present one.  `cmp = .eq` iff the ASTs are `==` (locations ignored).
* `replaceSimpleAssignments`: the `networkx` connected components of the variable equalities; every variable of a
  component is replaced by the smallest name of the component.
* `largestSymmetricGroup` (`_all_equal_symbols`, `_inequalities`, `_unequal`, `_crosscheck`), `mkBundle`
  (`SymmetryBundle.__init__`, `init_complex`, `init_simple`, `_create_count`), `processAggregates`, `processStm`,
  `execute`.

The object state (`unique_names`, `domain_predicates`; `rule_dependency` is never read) is the `Dep.DomState` of
`Model/Dependency.lean`, whose field `names` is the shared `UniqueNames` object.

Python sets and how they are modelled
* `potential_equalities[i]` (a set of literals): only used for membership, `lits.remove` of every member (order
  irrelevant) and `sorted(·)`; here the sorted duplicate-free list.
* `_remove_lits`, `_add_lits`: only read through `sorted(·)`; here sorted duplicate-free lists.
* `used_variables`, `used_uneq_variables[i]`, `global_vars`: only intersected / tested for emptiness.
* a connected component `cc` of `nx.connected_components(g)` is a Python `set` of indices (small ints) and
  `[Symmetry(...) for index in cc]` iterates it in CPython's set order.  That order decides which symmetry is
  `symmetries[0]` in `init_simple` (the one whose `!=` is replaced by `<`).  For indices `< 8` the order is
  ascending (an int hashes to itself and the table has 8 or 32 slots), which is what the model uses; with more
  than 8 candidate groups the model answers `unsupported` instead of guessing.
  The components themselves are yielded in the order of their smallest index (see `components`).

Errors: `Except.error "py: …"` / `"assert: …"` is a Python exception, `"fuel: …"` an exhausted fuel (never
expected), `"unsupported: …"` a request outside the modelled domain.
-/
namespace NgoVerif
namespace Symmetry
open Dep

/-! ## clingo's order on symbols and AST nodes -/

/-- the rank of the internal symbol type: `#inf < numbers < constants < -constants < strings < functions < #sup` -/
def symRank : Sym → Nat
  | .inf => 0
  | .num _ => 1
  | .fn _ [] true => 2
  | .fn _ [] false => 3
  | .str _ => 4
  | .fn _ (_ :: _) _ => 5
  | .sup => 7

mutual
/-- `Symbol.__lt__`: type rank, then numbers by value, strings by `strcmp`, functions by (sign, arity, name,
arguments) -/
def symCmp : Sym → Sym → Ordering
  | .num a, .num b => compare a b
  | .str a, .str b => compare a b
  | .fn n1 a1 p1, .fn n2 a2 p2 =>
    (compare (symRank (.fn n1 a1 p1)) (symRank (.fn n2 a2 p2))).then
      ((compare (!p1) (!p2)).then
        ((compare a1.length a2.length).then ((compare n1 n2).then (symCmpList a1 a2))))
  | a, b => compare (symRank a) (symRank b)
def symCmpList : List Sym → List Sym → Ordering
  | [], [] => .eq
  | [], _ :: _ => .lt
  | _ :: _, [] => .gt
  | x :: xs, y :: ys => (symCmp x y).then (symCmpList xs ys)
end

/-- `ASTType` values of the term kinds -/
def termRank : Term → Nat
  | .var _ => 1
  | .sym _ => 2
  | .un .. => 3
  | .bin .. => 4
  | .ival .. => 5
  | .fn .. => 6
  | .pool _ => 7

mutual
def termCmp : Term → Term → Ordering
  | .var a, .var b => compare a b
  | .sym a, .sym b => symCmp a b
  | .un o1 a1, .un o2 a2 => (compare o1 o2).then (termCmp a1 a2)
  | .bin o1 l1 r1, .bin o2 l2 r2 => (compare o1 o2).then ((termCmp l1 l2).then (termCmp r1 r2))
  | .ival l1 r1, .ival l2 r2 => (termCmp l1 l2).then (termCmp r1 r2)
  | .fn n1 a1 e1, .fn n2 a2 e2 => (compare n1 n2).then ((termCmpList a1 a2).then (compare e1 e2))
  | .pool a1, .pool a2 => termCmpList a1 a2
  | a, b => compare (termRank a) (termRank b)
def termCmpList : List Term → List Term → Ordering
  | [], [] => .eq
  | [], _ :: _ => .lt
  | _ :: _, [] => .gt
  | x :: xs, y :: ys => (termCmp x y).then (termCmpList xs ys)
end

def guardCmp (a b : Guard) : Ordering := (compare a.op b.op).then (termCmp a.term b.term)

def guardsCmp : List Guard → List Guard → Ordering
  | [], [] => .eq
  | [], _ :: _ => .lt
  | _ :: _, [] => .gt
  | x :: xs, y :: ys => (guardCmp x y).then (guardsCmp xs ys)

def optGuardCmp : Option Guard → Option Guard → Ordering
  | none, none => .eq
  | none, some _ => .lt
  | some _, none => .gt
  | some a, some b => guardCmp a b

/-- `ASTType` values of the atom kinds -/
def atomRank : Atom → Nat
  | .bool _ => 8
  | .sym _ => 9
  | .cmp .. => 10
  | .agg .. => 13
  | .bagg .. => 15
  | .theory _ => 25

mutual
/-- theory atoms are kept as text by the AST mirror: their order is NOT modelled (the driver rejects them) -/
def atomCmp : Atom → Atom → Ordering
  | .sym a, .sym b => termCmp a b
  | .cmp t1 g1, .cmp t2 g2 => (termCmp t1 t2).then (guardsCmp g1 g2)
  | .bool a, .bool b => compare a b
  | .bagg _ _ lg1 f1 e1 rg1, .bagg _ _ lg2 f2 e2 rg2 =>
    (optGuardCmp lg1 lg2).then ((compare f1 f2).then ((bElemsCmp e1 e2).then (optGuardCmp rg1 rg2)))
  | .agg lg1 e1 rg1, .agg lg2 e2 rg2 =>
    (optGuardCmp lg1 lg2).then ((cElemsCmp e1 e2).then (optGuardCmp rg1 rg2))
  | .theory a, .theory b => compare a b
  | a, b => compare (atomRank a) (atomRank b)
def litCmp : Sign × Atom → Sign × Atom → Ordering
  | (s1, a1), (s2, a2) => (compare s1 s2).then (atomCmp a1 a2)
def litsCmp : List (Sign × Atom) → List (Sign × Atom) → Ordering
  | [], [] => .eq
  | [], _ :: _ => .lt
  | _ :: _, [] => .gt
  | x :: xs, y :: ys => (litCmp x y).then (litsCmp xs ys)
def bElemsCmp : List (List Term × List (Sign × Atom)) → List (List Term × List (Sign × Atom)) → Ordering
  | [], [] => .eq
  | [], _ :: _ => .lt
  | _ :: _, [] => .gt
  | (t1, c1) :: es1, (t2, c2) :: es2 => ((termCmpList t1 t2).then (litsCmp c1 c2)).then (bElemsCmp es1 es2)
def cElemsCmp : List ((Sign × Atom) × List (Sign × Atom)) → List ((Sign × Atom) × List (Sign × Atom)) → Ordering
  | [], [] => .eq
  | [], _ :: _ => .lt
  | _ :: _, [] => .gt
  | (l1, c1) :: es1, (l2, c2) :: es2 => ((litCmp l1 l2).then (litsCmp c1 c2)).then (cElemsCmp es1 es2)
end

/-- body literals: `ConditionalLiteral` (12) is before `Literal` (26) -/
def blitCmp : BLit → BLit → Ordering
  | .lit a, .lit b => litCmp a b
  | .clit a, .clit b => (litCmp a.1 b.1).then (litsCmp a.2 b.2)
  | .clit _, .lit _ => .lt
  | .lit _, .clit _ => .gt

/-- AST `==` (locations ignored) -/
def litEq (a b : Lit) : Bool := litCmp a b == .eq
def blitEq (a b : BLit) : Bool := blitCmp a b == .eq

/-- insertion into a sorted list, after the elements that are not greater: `sortBy` is stable like `sorted` -/
def insertBy {α : Type} (cmp : α → α → Ordering) (x : α) : List α → List α
  | [] => [x]
  | y :: ys => if cmp x y == .gt then y :: insertBy cmp x ys else x :: y :: ys

def sortBy {α : Type} (cmp : α → α → Ordering) (l : List α) : List α := l.foldr (insertBy cmp) []

/-- `set(l)` as a duplicate-free list (first occurrences) -/
def dedupLits (l : List Lit) : List Lit :=
  l.foldl (fun acc x => if acc.any (litEq x) then acc else acc ++ [x]) []

/-- `sorted(set(l))` -/
def sortedSet (l : List Lit) : List Lit := sortBy litCmp (dedupLits l)

def litMem (x : Lit) (l : List Lit) : Bool := l.any (litEq x)

/-! ## `transform_ast(·, "Variable", f)` -/

mutual
def mapVarsTerm (f : String → String) : Term → Term
  | .var n => .var (f n)
  | .sym s => .sym s
  | .un o a => .un o (mapVarsTerm f a)
  | .bin o l r => .bin o (mapVarsTerm f l) (mapVarsTerm f r)
  | .ival l r => .ival (mapVarsTerm f l) (mapVarsTerm f r)
  | .fn n args e => .fn n (mapVarsTerms f args) e
  | .pool args => .pool (mapVarsTerms f args)
def mapVarsTerms (f : String → String) : List Term → List Term
  | [] => []
  | t :: ts => mapVarsTerm f t :: mapVarsTerms f ts
end

def mapVarsGuard (f : String → String) (g : Guard) : Guard := ⟨g.op, mapVarsTerm f g.term⟩
def mapVarsOptGuard (f : String → String) : Option Guard → Option Guard
  | none => none
  | some g => some (mapVarsGuard f g)

mutual
def mapVarsAtom (f : String → String) : Atom → Atom
  | .sym t => .sym (mapVarsTerm f t)
  | .cmp t gs => .cmp (mapVarsTerm f t) (gs.map (mapVarsGuard f))
  | .bool b => .bool b
  | .bagg l c lg fn elems rg => .bagg l c (mapVarsOptGuard f lg) fn (mapVarsBElems f elems) (mapVarsOptGuard f rg)
  | .agg lg elems rg => .agg (mapVarsOptGuard f lg) (mapVarsCElems f elems) (mapVarsOptGuard f rg)
  | .theory t => .theory t
def mapVarsLit (f : String → String) : Sign × Atom → Sign × Atom
  | (s, a) => (s, mapVarsAtom f a)
def mapVarsLits (f : String → String) : List (Sign × Atom) → List (Sign × Atom)
  | [] => []
  | l :: ls => mapVarsLit f l :: mapVarsLits f ls
def mapVarsBElems (f : String → String) :
    List (List Term × List (Sign × Atom)) → List (List Term × List (Sign × Atom))
  | [] => []
  | (ts, c) :: es => (mapVarsTerms f ts, mapVarsLits f c) :: mapVarsBElems f es
def mapVarsCElems (f : String → String) :
    List ((Sign × Atom) × List (Sign × Atom)) → List ((Sign × Atom) × List (Sign × Atom))
  | [] => []
  | (l, c) :: es => (mapVarsLit f l, mapVarsLits f c) :: mapVarsCElems f es
end

def mapVarsCondLit (f : String → String) (c : CondLit) : CondLit := (mapVarsLit f c.1, mapVarsLits f c.2)

def mapVarsBLit (f : String → String) : BLit → BLit
  | .lit l => .lit (mapVarsLit f l)
  | .clit c => .clit (mapVarsCondLit f c)

def mapVarsHead (f : String → String) : Head → Head
  | .lit l => .lit (mapVarsLit f l)
  | .disj es => .disj (es.map (mapVarsCondLit f))
  | .agg lg es rg => .agg (mapVarsOptGuard f lg) (es.map (mapVarsCondLit f)) (mapVarsOptGuard f rg)
  | .hagg lg fn es rg =>
    .hagg (mapVarsOptGuard f lg) fn (es.map fun e => (mapVarsTerms f e.1, mapVarsCondLit f e.2)) (mapVarsOptGuard f rg)
  | .theory t => .theory t

/-! ## `replace_simple_assignments` -/

/-- `_get_simple_equalities` on one literal: `V1 = V2` or `not V1 != V2`; only `guards[0]` is inspected (so
`X = Y = Z` counts as the simple equality `X = Y`, and the whole literal is dropped by the caller) -/
def simpleEq? : Lit → Option (String × String)
  | (s, .cmp (.var a) (g :: _)) =>
    match g.term with
    -- fix (known_findings.json `fixed:`): an equality with the anonymous variable is no assignment (every `_` is a
    -- variable of its own)
    | .var b => if ((s == .pos && g.op == .eq) || (s == .neg && g.op == .ne)) && a != "_" && b != "_" then some (a, b) else none
    | _ => none
  | _ => none

abbrev VEdges := List (String × String)

def vNeighbours (es : VEdges) (v : String) : List String :=
  es.flatMap fun e => (if e.1 == v then [e.2] else []) ++ (if e.2 == v then [e.1] else [])

/-- grow a set of nodes by their neighbours until it is stable -/
def growVars (es : VEdges) : Nat → VSet → Except String VSet
  | 0, _ => .error "fuel: connected component of the variable equalities"
  | fuel + 1, s =>
    let s' := vUnion s (s.flatMap (vNeighbours es))
    if s'.length == s.length then .ok s else growVars es fuel s'

/-- `uniques` as a map node ↦ `sorted(cc)[0]` of its component.  The components are disjoint, so the order in which
`_replace` tries them is irrelevant.  Fuel: a graph with `n` edges has at most `2n` nodes, every round but the last
adds one. -/
def uniques (es : VEdges) : Except String (List (String × String)) :=
  (vOfList (es.flatMap fun e => [e.1, e.2])).mapM fun v => do
    let cc ← growVars es (2 * es.length + 1) [v]
    match sortNames cc with
    | m :: _ => pure (v, m)
    | [] => throw "fuel: empty component"

/-- `partial(_replace, uniques)` on the name of a Variable.  NB the anonymous variable `_` is a node like any
other: `X = _, Y = _` puts `X`, `Y` and `_` into one component -/
def replaceFn (u : List (String × String)) (v : String) : String := (u.lookup v).getD v

/-- `replace_simple_assignments_aggregate(lit)` (the caller checked that the atom is a `BodyAggregate`) -/
def replaceAggregate : Lit → Except String Lit
  | (s, .bagg l c lg fn elems rg) => do
    let elems' ← elems.mapM fun (e : BAggElem) => do
      let eqs := e.2.filter fun x => (simpleEq? x).isSome
      let u ← uniques (e.2.filterMap simpleEq?)
      let cond := e.2.filter fun x => !litMem x eqs
      pure (mapVarsTerms (replaceFn u) e.1, mapVarsLits (replaceFn u) cond)
    pure (s, .bagg l c lg fn elems' rg)
  | l => pure l

def blitSimpleEq? : BLit → Option (String × String)
  | .lit l => simpleEq? l
  | .clit _ => none

/-- the body part of `replace_simple_assignments`: (`aux_body` after the variable replacement, the replacement) -/
def replaceBody (body : List BLit) : Except String (List BLit × (String → String)) := do
  let eqs := body.filter fun x => (blitSimpleEq? x).isSome
  let aux ← (body.filter fun x => !eqs.any (blitEq x)).mapM fun (x : BLit) =>
    match x with
    | .lit (s, .bagg l c lg fn elems rg) => do
      let r ← replaceAggregate (s, .bagg l c lg fn elems rg)
      pure (BLit.lit r)
    | x => pure x
  let u ← uniques (body.filterMap blitSimpleEq?)
  pure (aux.map (mapVarsBLit (replaceFn u)), replaceFn u)

/-- `replace_simple_assignments(stm)` -/
def replaceSimpleAssignments : Stm → Except String Stm
  | .rule l c h b => do
    let (b', f) ← replaceBody b
    pure (.rule l c (mapVarsHead f h) b')
  | .minimize l c w p ts b => do
    let (b', f) ← replaceBody b
    pure (.minimize l c (mapVarsTerm f w) (mapVarsTerm f p) (mapVarsTerms f ts) b')
  | s => pure s

/-! ## `_inequalities`, `_unequal` -/

/-- `(original_literal, variable1, variable2)` -/
abbrev Ineq := Lit × String × String
/-- the `defaultdict(list)`: keys (`.ne`, `.lt`) in insertion order -/
abbrev Ineqs := List (CmpOp × List Ineq)

def ineqAdd (op : CmpOp) (x : Ineq) : Ineqs → Ineqs
  | [] => [(op, [x])]
  | (o, l) :: rest => if o == op then (o, l ++ [x]) :: rest else (o, l) :: ineqAdd op x rest

/-- `_inequalities(body)`: `not X >= Y` is filed under `<` with `(X, Y)` and `not X <= Y` under `<` with `(Y, X)`
(the negated STRICT comparisons were filed there before the repair recorded as `fixed:` in known_findings.json). -/
def inequalities : List BLit → Ineqs → Except String Ineqs
  | [], d => pure d
  | .lit (s, .cmp t gs) :: rest, d =>
    match gs with
    | [g] =>
      match t, g.term with
      | .var a, .var b =>
        let l : Lit := (s, .cmp t gs)
        if (s == .pos && g.op == .ne) || (s == .neg && g.op == .eq) then inequalities rest (ineqAdd .ne (l, a, b) d)
        else if (s == .pos && g.op == .lt) || (s == .neg && g.op == .ge) then
          inequalities rest (ineqAdd .lt (l, a, b) d)
        else if (s == .pos && g.op == .gt) || (s == .neg && g.op == .le) then
          inequalities rest (ineqAdd .lt (l, b, a) d)
        else inequalities rest d
      | _, _ => inequalities rest d
    | _ => .error "py: AssertionError: len(lit.atom.guards) == 1"
  | _ :: rest, d => inequalities rest d

/-- `_unequal(lhs, rhs, inequalities)`: the first hit in (operator insertion order, literal order) -/
def unequal (lhs rhs : Term) (d : Ineqs) : Option (CmpOp × Lit) :=
  match lhs, rhs with
  | .var a, .var b =>
    d.findSome? fun (e : CmpOp × List Ineq) =>
      (e.2.find? fun (x : Ineq) => (a == x.2.1 && b == x.2.2) || (a == x.2.2 && b == x.2.1)).map fun x => (e.1, x.1)
  | _, _ => none

/-! ## `_all_equal_symbols` -/

/-- `is_predicate(lit)`: ANY sign -/
def predLit? : BLit → Option Lit
  | .lit (s, .sym (.fn n args e)) => some (s, .sym (.fn n args e))
  | _ => none

def litPred? : Lit → Option Pred
  | (_, .sym (.fn n args _)) => some ⟨n, args.length⟩
  | _ => none

def litArgs : Lit → List Term
  | (_, .sym (.fn _ args _)) => args
  | _ => []

/-- the yielded tuples, in order: subsets of the predicate literals (by positions, duplicates kept) of size ≥ 2
over one predicate, largest first, each `sorted` -/
def allEqualSymbols (body : List BLit) : List (List Lit) :=
  (largestSubset (body.filterMap predLit?)).filterMap fun subset =>
    match subset with
    | [] => none
    | [_] => none
    | x :: rest =>
      -- fix b1ed274: same predicate AND same sign
      if rest.all fun y => litPred? y == litPred? x && y.1 == x.1 then some (sortBy litCmp subset) else none

/-! ## `largest_symmetric_group` -/

/-- one candidate group: `potential_equalities[i]` (as `sorted(set)`), `potential_strict_inequalities[i]`,
`potential_nstrict_inequalities[i]` (dicts position ↦ literals, insertion order) -/
structure PE where
  lits : List Lit
  strict : List (Nat × List Lit)
  nstrict : List (Nat × List Lit)

/-- `itertools.combinations(l, 2)` -/
def pairs2 {α : Type} : List α → List (α × α)
  | [] => []
  | x :: xs => xs.map (fun y => (x, y)) ++ pairs2 xs

def allSame : List Term → Bool
  | [] => true
  | x :: xs => xs.all (· == x)

/-- the `for lhs, rhs in combinations(sides, 2)` loop: `none` = `fine = False` -/
def pairsUsed (d : Ineqs) (pos : Nat) : List (Term × Term) → Option (List (CmpOp × Lit × Nat))
  | [] => some []
  | (l, r) :: rest =>
    match unequal l r d with
    | none => none
    | some (op, lit) => (pairsUsed d pos rest).map fun u => (op, lit, pos) :: u

/-- the `for pos, sides in enumerate(zip(*…))` loop -/
def usedInequalities (d : Ineqs) (eq : List Lit) : List Nat → Option (List (CmpOp × Lit × Nat))
  | [] => some []
  | pos :: rest =>
    let sides := eq.filterMap fun l => (litArgs l)[pos]?
    if allSame sides then usedInequalities d eq rest
    else match pairsUsed d pos (pairs2 sides) with
      | none => none
      | some u => (usedInequalities d eq rest).map fun u' => u ++ u'

/-- `d[pos].append(lit)` on a `defaultdict(list)` -/
def posAppend (pos : Nat) (l : Lit) : List (Nat × List Lit) → List (Nat × List Lit)
  | [] => [(pos, [l])]
  | (p, ls) :: rest => if p == pos then (p, ls ++ [l]) :: rest else (p, ls) :: posAppend pos l rest

/-- the `for equality in _all_equal_symbols(body)` loop body -/
def addCandidate (d : Ineqs) (pes : List PE) (eq : List Lit) : List PE :=
  if pes.any fun pe => eq.any fun l => litMem l pe.lits then pes
  else
    let arity := match eq with
      | l :: _ => (litArgs l).length
      | [] => 0
    match usedInequalities d eq (List.range arity) with
    | none => pes
    | some [] => pes
    | some used =>
      let strict := used.foldl (fun acc (u : CmpOp × Lit × Nat) => if u.1 == .ne then posAppend u.2.2 u.2.1 acc else acc) []
      let nstrict := used.foldl (fun acc (u : CmpOp × Lit × Nat) => if u.1 == .ne then acc else posAppend u.2.2 u.2.1 acc) []
      pes ++ [{ lits := sortedSet eq, strict := strict, nstrict := nstrict }]

/-! ## `_crosscheck` -/

/-- `list.remove(x)` with AST `==` -/
def removeFirst (x : BLit) : List BLit → Option (List BLit)
  | [] => none
  | y :: ys => if blitEq x y then some ys else (removeFirst x ys).map (y :: ·)

def removeAll : List Lit → List BLit → Except String (List BLit)
  | [], lits => pure lits
  | l :: ls, lits =>
    match removeFirst (.lit l) lits with
    | none => .error "py: ValueError: list.remove(x): x not in list"
    | some lits' => removeAll ls lits'

def notInLits (neq : List Lit) (x : BLit) : Bool :=
  match x with
  | .lit l => !litMem l neq
  | .clit _ => true

/-- the variables of the arguments at position `pos` of all literals of the group -/
def posVars (pe : PE) (pos : Nat) : List String :=
  pe.lits.flatMap fun l => match (litArgs l)[pos]? with
    | some t => t.vars
    | none => []

/-- the `for index in index_subset` loop: (`lits`, `used_variables`, `used_uneq_variables`) -/
def subsetInfo (pes : List PE) : List Nat → List BLit → VSet → List (Nat × VSet) →
    Except String (List BLit × VSet × List (Nat × VSet))
  | [], lits, used, uneq => pure (lits, used, uneq)
  | index :: rest, lits, used, uneq =>
    match pes[index]? with
    | none => .error "fuel: index out of range"
    | some pe => do
      let lits ← removeAll pe.lits lits
      let dicts := pe.strict ++ pe.nstrict
      let lits := dicts.foldl (fun ls (kv : Nat × List Lit) => ls.filter (notInLits kv.2)) lits
      let vs := vOfList (dicts.flatMap fun kv => posVars pe kv.1)
      subsetInfo pes rest lits (vUnion used vs) (uneq ++ [(index, vs)])

def uneqOf (uneq : List (Nat × VSet)) (i : Nat) : VSet := (uneq.lookup i).getD []

/-- grow a set of indices by the adjacent ones until it is stable -/
def growIdx (subset : List Nat) (uneq : List (Nat × VSet)) : Nat → List Nat → Except String (List Nat)
  | 0, _ => .error "fuel: connected component of the groups"
  | fuel + 1, s =>
    let s' := subset.filter fun j =>
      s.contains j || s.any fun i => !(vInter (uneqOf uneq i) (uneqOf uneq j)).isEmpty
    if s'.length == s.length then .ok s' else growIdx subset uneq fuel s'

/-- `nx.connected_components(g)`: `g` has the nodes `index_subset` (every node gets a self loop) and an edge between
two groups that share an unequal variable.  networkx yields the component of the first not yet seen node in the
graph's node order; a node enters the graph at its own turn of the outer loop or earlier as the neighbour of a
SMALLER node of its own component, so the first unseen node is always the smallest unseen index: the components
come in the order of their smallest member.  Each component is returned ascending (see the header for the set
order).  Fuel: every round but the last adds an index. -/
def components (subset : List Nat) (uneq : List (Nat × VSet)) : Except String (List (List Nat)) :=
  subset.foldlM (fun (acc : List (List Nat)) i =>
    if acc.any (·.contains i) then pure acc
    else do
      let cc ← growIdx subset uneq (subset.length + 1) [i]
      pure (acc ++ [cc])) []

/-! ## `SymmetryBundle` -/

structure Bundle where
  /-- `remove_lits()` -/
  remove : List Lit
  /-- `add_lits()` -/
  add : List Lit
  /-- `aux_rules()` -/
  aux : List Stm

def Bundle.empty (b : Bundle) : Bool := b.add.length + b.aux.length + b.remove.length == 0

/-- `_create_count(symmetry, rules)`: (`[projected literal, count literal]`, the rules appended to `rules`) -/
def createCount (st : DomState) (sym : PE) : Except String ((Lit × Lit) × List Stm × DomState) :=
  let uneq := (sym.strict ++ sym.nstrict).map (·.1)
  match sym.lits with
  | (s, .sym (.fn name args ext)) :: _ =>
    let iargs := (List.range args.length).zip args
    let same := iargs.map fun (ix : Nat × Term) => if uneq.contains ix.1 then Term.var "_" else ix.2
    let nsame := iargs.filterMap fun (ix : Nat × Term) => if uneq.contains ix.1 then some ix.2 else none
    let pred : Pred := ⟨name, same.length⟩
    let firstSym : Lit := (s, .sym (.fn name args ext))
    let agg : Lit := (.pos, .bagg 1 1 (some ⟨.le, .sym (.num sym.lits.length)⟩) .count [(nsame, [firstSym])] none)
    if st.hasDomain pred then
      match createDomain st pred with
      | (.error e, _) => .error e
      | (.ok rules, st) => do
        let d ← st.domainPredicate pred
        pure (((s, .sym (.fn d.name same ext)), agg), rules, st)
    else pure (((s, .sym (.fn name same ext)), agg), [], st)
  | _ => .error "py: IndexError: symmetry.literals[0]"

/-- `[x for x in arguments if not (x.ast_type == Variable and x.name == "_")]` (before the repair recorded as `fixed:` in
known_findings.json: `x.name != "_"`, an AttributeError for a number or another term without a name) -/
def namedArgs : List Term → Except String (List Term)
  | [] => pure []
  | .var n :: rest => do
    let r ← namedArgs rest
    pure (if n != "_" then .var n :: r else r)
  | t :: rest => do
    let r ← namedArgs rest
    pure (t :: r)

/-- `init_complex` (always called with exactly one symmetry) -/
def initComplex (st : DomState) (inAgg : Bool) (sym : PE) : Except String (Bundle × DomState) := do
  let remove := sym.lits ++ (sym.strict ++ sym.nstrict).flatMap (·.2)
  let ((dom, agg), rules, st) ← createCount st sym
  if inAgg then
    let args ← namedArgs (litArgs dom)
    match st.names.newAux args.length with
    | none => throw "fuel: new_auxpredicate"
    | some (p, names) =>
      let headLit : Lit := (.pos, .sym (.fn p.name args false))
      let rule : Stm := .rule 1 1 (.lit headLit) [.lit dom, .lit agg]
      pure ({ remove := sortedSet remove, add := [headLit], aux := rules ++ [rule] }, { st with names := names })
  else pure ({ remove := sortedSet remove, add := sortedSet [dom, agg], aux := rules }, st)

/-- the two compared terms of an inequality literal (`lit.atom.term`, `lit.atom.guards[0].term`) -/
def cmpSides : Lit → Except String (Term × Term)
  | (_, .cmp t (g :: _)) => pure (t, g.term)
  | _ => .error "py: AttributeError: lit.atom.term"

/-- `sorted(set of terms)` -/
def sortedTerms (l : List Term) : List Term :=
  sortBy termCmp (l.foldl (fun acc x => if acc.any (fun y => termCmp x y == .eq) then acc else acc ++ [x]) [])

/-- `itertools.pairwise` -/
def pairwise {α : Type} : List α → List (α × α)
  | x :: y :: rest => (x, y) :: pairwise (y :: rest)
  | _ => []

/-- `init_simple` -/
def initSimple (syms : List PE) : Except String Bundle :=
  if syms.any fun s => !s.nstrict.isEmpty then pure { remove := [], add := [], aux := [] }
  else
    match syms with
    | [] => .error "py: IndexError: symmetries[0]"
    | sym :: _ =>
      match sym.strict with
      | [] => .error "py: StopIteration: next(iter(sym.strict_neq))"
      | (_, lits) :: _ => do
        let sides ← lits.mapM cmpSides
        let collect := sortedTerms (sides.flatMap fun p => [p.1, p.2])
        let add := (pairwise collect).map fun (p : Term × Term) => ((Sign.pos, Atom.cmp p.1 [⟨.lt, p.2⟩]) : Lit)
        pure { remove := sortedSet lits, add := sortedSet add, aux := [] }

/-- `SymmetryBundle(domain_predicates, unique_names, in_aggregate, symmetries)` -/
def mkBundle (st : DomState) (inAgg : Bool) (syms : List PE) : Except String (Bundle × DomState) :=
  match syms with
  | [sym] =>
    if sym.nstrict.length + sym.strict.length == 1 then initComplex st inAgg sym
    else do
      let b ← initSimple syms
      pure (b, st)
  | _ => do
    let b ← initSimple syms
    pure (b, st)

def mkBundles (pes : List PE) (inAgg : Bool) : List (List Nat) → DomState → Except String (List Bundle × DomState)
  | [], st => pure ([], st)
  | cc :: rest, st => do
    let (b, st) ← mkBundle st inAgg (cc.filterMap fun i => pes[i]?)
    let (bs, st) ← mkBundles pes inAgg rest st
    pure (b :: bs, st)

/-- the `for index_subset in largest_subset(range(n))` loop: the first subset whose unequal variables are invisible
outside yields its bundles and ends the generator; the empty subset always qualifies -/
def crosscheckLoop (pes : List PE) (litsParam : List BLit) (gv : VSet) (inAgg : Bool) (st : DomState) :
    List (List Nat) → Except String (List Bundle × DomState)
  | [] => pure ([], st)
  | subset :: rest => do
    let (lits, used, uneq) ← subsetInfo pes subset litsParam [] []
    let inside ← globalVarsInsideBody lits
    if (vInter (vUnion inside gv) used).isEmpty then do
      let ccs ← components subset uneq
      mkBundles pes inAgg ccs st
    else crosscheckLoop pes litsParam gv inAgg st rest

/-- `list(self.largest_symmetric_group(body, global_vars, rest, in_aggregate))`.  `rest` may contain terms (the
tuple of an aggregate element) in Python; `global_vars_inside_body` skips everything that is not a `Literal` or a
`ConditionalLiteral` and nothing else reads them, so they are simply not passed here. -/
def largestSymmetricGroup (st : DomState) (body : List BLit) (gv : VSet) (rest : List BLit) (inAgg : Bool) :
    Except String (List Bundle × DomState) := do
  let d ← inequalities body []
  let pes := (allEqualSymbols body).foldl (addCandidate d) []
  if pes.length > 8 then
    throw "unsupported: more than 8 candidate groups (iteration order of a CPython set of indices)"
  crosscheckLoop pes (body ++ rest) gv inAgg st (largestSubset (List.range pes.length))

/-! ## `_process_aggregates`, `_process_stm`, `_process`, `execute` -/

/-- `for lit in remove_lits(): body.remove(lit)` then `for lit in add_lits(): body.append(lit)` -/
def applyBundle (body : List BLit) (b : Bundle) : Except String (List BLit) := do
  let body ← removeAll b.remove body
  pure (body ++ b.add.map BLit.lit)

/-- `global_vars` of a statement -/
def stmGlobalVars : Stm → Except String VSet
  | .rule _ _ h _ => globalVarsInsideHead h
  | .minimize _ _ w p ts _ => pure (vOfList ((w :: p :: ts).flatMap Term.vars))
  | _ => pure []

def stmBody : Stm → List BLit
  | .rule _ _ _ b => b
  | .minimize _ _ _ _ _ b => b
  | _ => []

def stmWithBody (b : List BLit) : Stm → Stm
  | .rule l c h _ => .rule l c h b
  | .minimize l c w p ts _ => .minimize l c w p ts b
  | s => s

def unlift (b : List BLit) : List Lit := b.filterMap fun x => match x with
  | .lit l => some l
  | .clit _ => none

/-- the `for elem in blit.atom.elements` loop: (new elements, aux rules) -/
def processElems (stm : Stm) : List BAggElem → DomState → Except String (List BAggElem × List Stm × DomState)
  | [], st => pure ([], [], st)
  | (terms, cond) :: rest, st => do
    let gv ← stmGlobalVars stm
    -- fix (known_findings.json `fixed:`): the variables of the element's tuple are used outside of the condition
    let gv := vUnion gv (vOfList (terms.flatMap Term.vars))
    let (bundles, st) ← largestSymmetricGroup st (cond.map BLit.lit) gv (stmBody stm) true
    let cond' ← bundles.foldlM applyBundle (cond.map BLit.lit)
    let aux := bundles.flatMap (·.aux)
    let (es, aux', st) ← processElems stm rest st
    pure ((terms, unlift cond') :: es, aux ++ aux', st)

/-- the `for blit in stm.body` loop of `_process_aggregates`: (new body, aux rules) -/
def processAggBody (stm : Stm) : List BLit → DomState → Except String (List BLit × List Stm × DomState)
  | [], st => pure ([], [], st)
  | .lit (s, .bagg l c lg fn elems rg) :: rest, st => do
    let (elems', aux, st) ← processElems stm elems st
    let (body, aux', st) ← processAggBody stm rest st
    pure (.lit (s, .bagg l c lg fn elems' rg) :: body, aux ++ aux', st)
  | x :: rest, st => do
    let (body, aux, st) ← processAggBody stm rest st
    pure (x :: body, aux, st)

/-- `_process_aggregates(stm)` -/
def processAggregates (stm : Stm) (st : DomState) : Except String (List Stm × DomState) := do
  let (body, aux, st) ← processAggBody stm (stmBody stm) st
  pure (aux ++ [stmWithBody body stm], st)

/-- `_process_stm(stm)` -/
def processStm (stm : Stm) (st : DomState) : Except String (List Stm × DomState) := do
  let gv ← stmGlobalVars stm
  let (bundles, st) ← largestSymmetricGroup st (stmBody stm) gv [] false
  let live := bundles.filter fun b => !b.empty
  let body ← live.foldlM applyBundle (stmBody stm)
  pure (live.flatMap (·.aux) ++ [stmWithBody body stm], st)

def processStms : List Stm → DomState → Except String (List Stm × DomState)
  | [], st => pure ([], st)
  | r :: rest, st => do
    let (a, st) ← processStm r st
    let (b, st) ← processStms rest st
    pure (a ++ b, st)

/-- `_process(stm)`: the aux rules of the aggregates (incl. the domain rules) go through `_process_stm` too -/
def process (stm : Stm) (st : DomState) : Except String (List Stm × DomState) := do
  let (stms, st) ← processAggregates stm st
  processStms stms st

def isRuleOrMin : Stm → Bool
  | .rule .. => true
  | .minimize .. => true
  | _ => false

def executeLoop : List Stm → DomState → Except String (List Stm)
  | [], _ => pure []
  | s :: rest, st =>
    if isRuleOrMin s then do
      let (a, st) ← process s st
      let b ← executeLoop rest st
      pure (a ++ b)
    else do
      let b ← executeLoop rest st
      pure (s :: b)

/-- `SymmetryTranslator(prg, inputs).execute(prg)` -/
def execute (prg : Prog) (inputs : List Pred) : Except String Prog := do
  let names := UniqueNames.init prg inputs
  let st ← DomState.init names prg
  let prg' ← prg.mapM replaceSimpleAssignments
  executeLoop prg' st

end Symmetry
end NgoVerif
