import NgoVerif.Model.Binding
import NgoVerif.Model.Normalize
import NgoVerif.Model.Dependency
/-!
# Model of `ngo/literal_duplication.py` (`LiteralCollector`, `LiteralDuplicationTranslator`)
and of `replace_assignments` (`ngo/utils/ast.py`)

* `astCmp…` – clingo's `AST.__lt__` / `__eq__` on the node kinds that can occur in a rule body (type tag first, then
  the attributes in constructor order, locations skipped, strings by `strcmp`, `None < Some`, sequences
  lexicographically), including clingo's order of `Symbol`s.  `sorted(…)` is the stable insertion sort `astSort`.
* `replaceAssignments` – `replace_assignments(stm)`.
* `anonymize` – `anonymize_variables` (canonical names `__AUX_i` in `child_keys` traversal order, then `sorted`).
* `collect` / `filterOccs` / `processOccs` – `LiteralCollector.__init__`, `_filter_occurences`, `process` + `rebuild`.
  The `occurences` dict is an association list in insertion order whose keys are compared with `astCmp … == .eq`
  (clingo's AST equality, which ignores locations).
* `execute` – `LiteralDuplicationTranslator(prg, inputs).execute(prg)`.

Python exceptions are `Except.error`.  Sets of `Variable`s are duplicate-free lists of names (`VSet`).
-/
namespace NgoVerif
namespace Duplication

/-! ## clingo's order on symbols and ASTs -/

/-- `strcmp` on the UTF-8 encodings = comparison of the code point sequences -/
def strCmp (a b : String) : Ordering := compare a b

/-- gringo's internal symbol kinds: `#inf` < numbers < positive constants < negative constants < strings <
functions with arguments < `#sup` -/
def symRank : Sym → Nat
  | .inf => 0
  | .num _ => 1
  | .fn _ [] true => 2
  | .fn _ [] false => 3
  | .str _ => 4
  | .fn _ (_ :: _) _ => 5
  | .sup => 7

mutual
/-- `clingo.Symbol.__lt__` as a three-way comparison (gringo `Symbol::less`): kind; numbers by value; constants
and strings by `strcmp`; functions by sign (positive first), arity, name, arguments -/
def symCmp : Sym → Sym → Ordering
  | .num a, .num b => compare a b
  | .str a, .str b => strCmp a b
  | .fn n [] p, .fn m [] q =>
      if p != q then compare (symRank (.fn n [] p)) (symRank (.fn m [] q)) else strCmp n m
  | .fn n (a :: as) p, .fn m (b :: bs) q =>
      (compare (if p then 0 else 1 : Nat) (if q then 0 else 1)).then <|
      (compare (a :: as).length (b :: bs).length).then <|
      (strCmp n m).then (symsCmp (a :: as) (b :: bs))
  | a, b => compare (symRank a) (symRank b)
def symsCmp : List Sym → List Sym → Ordering
  | [], [] => .eq
  | [], _ :: _ => .lt
  | _ :: _, [] => .gt
  | a :: as, b :: bs => (symCmp a b).then (symsCmp as bs)
end

/-- `ASTType` values of the term kinds -/
def termRank : Term → Nat
  | .var _ => 1 | .sym _ => 2 | .un .. => 3 | .bin .. => 4 | .ival .. => 5 | .fn .. => 6 | .pool _ => 7

def boolCmp (a b : Bool) : Ordering := compare (if a then 1 else 0 : Nat) (if b then 1 else 0)

mutual
def termCmp : Term → Term → Ordering
  | .var a, .var b => strCmp a b
  | .sym a, .sym b => symCmp a b
  | .un o a, .un p b => (compare o p).then (termCmp a b)
  | .bin o a1 a2, .bin p b1 b2 => (compare o p).then <| (termCmp a1 b1).then (termCmp a2 b2)
  | .ival a1 a2, .ival b1 b2 => (termCmp a1 b1).then (termCmp a2 b2)
  | .fn n as e, .fn m bs f => (strCmp n m).then <| (termsCmp as bs).then (boolCmp e f)
  | .pool as, .pool bs => termsCmp as bs
  | a, b => compare (termRank a) (termRank b)
def termsCmp : List Term → List Term → Ordering
  | [], [] => .eq
  | [], _ :: _ => .lt
  | _ :: _, [] => .gt
  | a :: as, b :: bs => (termCmp a b).then (termsCmp as bs)
end

/-- `Guard`: comparison, term -/
def guardCmp (a b : Guard) : Ordering := (compare a.op b.op).then (termCmp a.term b.term)

def guardsCmp : List Guard → List Guard → Ordering
  | [], [] => .eq
  | [], _ :: _ => .lt
  | _ :: _, [] => .gt
  | a :: as, b :: bs => (guardCmp a b).then (guardsCmp as bs)

/-- optional child: `None` before any node -/
def optGuardCmp : Option Guard → Option Guard → Ordering
  | none, none => .eq
  | none, some _ => .lt
  | some _, none => .gt
  | some a, some b => guardCmp a b

/-- `ASTType` values of the atom kinds -/
def atomRank : Atom → Nat
  | .bool _ => 8 | .sym _ => 9 | .cmp .. => 10 | .agg .. => 13 | .bagg .. => 15 | .theory _ => 25

mutual
def atomCmp : Atom → Atom → Ordering
  | .sym a, .sym b => termCmp a b
  | .cmp a gs, .cmp b hs => (termCmp a b).then (guardsCmp gs hs)
  | .bool a, .bool b => boolCmp a b
  | .bagg _ _ lg f es rg, .bagg _ _ lh g fs rh =>
      (optGuardCmp lg lh).then <| (compare f g).then <| (bElemsCmp es fs).then (optGuardCmp rg rh)
  | .agg lg es rg, .agg lh fs rh => (optGuardCmp lg lh).then <| (cElemsCmp es fs).then (optGuardCmp rg rh)
  | .theory a, .theory b => strCmp a b   -- outside the fragment, never used (see `outside`)
  | a, b => compare (atomRank a) (atomRank b)
/-- `Literal`: sign, atom -/
def litCmp : Sign × Atom → Sign × Atom → Ordering
  | (s, a), (t, b) => (compare s t).then (atomCmp a b)
def litsCmp : List (Sign × Atom) → List (Sign × Atom) → Ordering
  | [], [] => .eq
  | [], _ :: _ => .lt
  | _ :: _, [] => .gt
  | a :: as, b :: bs => (litCmp a b).then (litsCmp as bs)
/-- `BodyAggregateElement`: terms, condition -/
def bElemsCmp : List (List Term × List (Sign × Atom)) → List (List Term × List (Sign × Atom)) → Ordering
  | [], [] => .eq
  | [], _ :: _ => .lt
  | _ :: _, [] => .gt
  | (ts, c) :: as, (us, d) :: bs => (termsCmp ts us).then <| (litsCmp c d).then (bElemsCmp as bs)
/-- `ConditionalLiteral`: literal, condition -/
def cElemsCmp : List ((Sign × Atom) × List (Sign × Atom)) → List ((Sign × Atom) × List (Sign × Atom)) → Ordering
  | [], [] => .eq
  | [], _ :: _ => .lt
  | _ :: _, [] => .gt
  | (l, c) :: as, (m, d) :: bs => (litCmp l m).then <| (litsCmp c d).then (cElemsCmp as bs)
end

/-- body literals: `ConditionalLiteral` (12) before `Literal` (26) -/
def blitCmp : BLit → BLit → Ordering
  | .lit a, .lit b => litCmp a b
  | .clit a, .clit b => (litCmp a.1 b.1).then (litsCmp a.2 b.2)
  | .clit _, .lit _ => .lt
  | .lit _, .clit _ => .gt

def blitsCmp : List BLit → List BLit → Ordering
  | [], [] => .eq
  | [], _ :: _ => .lt
  | _ :: _, [] => .gt
  | a :: as, b :: bs => (blitCmp a b).then (blitsCmp as bs)

/-- clingo AST `==` (locations ignored) -/
def blitEq (a b : BLit) : Bool := blitCmp a b == .eq
def keyEq (a b : List BLit) : Bool := blitsCmp a b == .eq
def bElemEq (a b : BAggElem) : Bool := bElemsCmp [a] [b] == .eq

/-- `lit in lits` -/
def blitIn (a : BLit) (l : List BLit) : Bool := l.any (blitEq a)

/-- insert behind everything that is not greater: the result of a stable sort that only uses `<` -/
def astInsert (x : BLit) : List BLit → List BLit
  | [] => [x]
  | y :: ys => if blitCmp x y == .lt then x :: y :: ys else y :: astInsert x ys

/-- `sorted(l)` on body literals -/
def astSort (l : List BLit) : List BLit := l.foldl (fun acc x => astInsert x acc) []

/-! ## `replace_assignments` -/

/-- `replace_var_name(orig, replace, ·)` mapped over all `Variable` nodes -/
def substVar (v : String) (t : Term) : Term → Term :=
  Term.subst (fun n => if n == v then t else .var n)

/-- the test of `replace_assignments` on one body literal: `some (v, t)` for `v = t` / `not v != t`.
`guards[0]` of a guard-free comparison is an `IndexError`. -/
def assignment? : BLit → Except String (Option (String × Term))
  | .lit (s, .cmp (.var v) gs) =>
    match gs with
    | [] => .error "IndexError: guards[0]"
    | g :: _ =>
      if !g.term.hasInterval && ((s == .pos && g.op == .eq) || (s == .neg && g.op == .ne)) then .ok (some (v, g.term))
      else .ok none
  | _ => .ok none

/-- the `for index, lit in enumerate(new_body)` loop; `new_body` is updated in place, so the literal inspected
at `index` is the one produced by the earlier substitutions.  State: body, heads (as terms functions), removal. -/
def assignLoop (mapHead : (Term → Term) → α → α) :
    List Nat → List BLit → α → List Nat → Except String (List BLit × α × List Nat)
  | [], body, heads, removal => .ok (body, heads, removal)
  | i :: is, body, heads, removal =>
    match body[i]? with
    | none => .ok (body, heads, removal)
    | some lit => do
      match ← assignment? lit with
      | none => assignLoop mapHead is body heads removal
      | some (v, t) =>
        let body' := body.mapIdx fun j b => if j == i then b else b.mapTerms (substVar v t)
        assignLoop mapHead is body' (mapHead (substVar v t) heads) (removal ++ [i])

def removeIdx (l : List α) (removal : List Nat) : List α :=
  (l.zipIdx.filter fun p => !removal.contains p.2).map (·.1)

/-- `replace_assignments(stm)` -/
def replaceAssignments : Stm → Except String Stm
  | .rule l c h b => do
    let (b', h', rm) ← assignLoop (fun g (h : Head) => h.mapTerms g) (List.range b.length) b h []
    pure (.rule l c h' (removeIdx b' rm))
  | .minimize l c w p ts b => do
    let (b', (w', p', ts'), rm) ← assignLoop
      (fun g (x : Term × Term × List Term) => (g x.1, g x.2.1, x.2.2.map g)) (List.range b.length) b (w, p, ts) []
    pure (.minimize l c w' p' ts' (removeIdx b' rm))
  | s => pure s

/-! ## `anonymize_variables` / `unanonymize_variables` -/

def AUX_VAR : String := "__AUX_"

/-- counter and `old2new` (insertion order) -/
abbrev AnonState := Nat × List (String × String)

/-- the closure `replace` -/
def anonVar : Term → TM AnonState Term
  | .var n => do
    let (counter, old2new) ← get
    match old2new.lookup n with
    | some new => pure (.var new)
    | none =>
      if n != "_" then do
        let new := AUX_VAR ++ toString counter
        set ((counter + 1, old2new ++ [(n, new)]) : AnonState)
        pure (.var new)
      else pure (.var n)
  | t => pure t

def blitTransM {σ : Type} (g : Term → TM σ Term) : BLit → TM σ BLit
  | .lit l => do
    let l' ← litMapTermsM g l
    pure (.lit l')
  | .clit (l, c) => do
    let l' ← litMapTermsM g l
    let c' ← litsMapTermsM g c
    pure (.clit (l', c'))

def blitsTransM {σ : Type} (g : Term → TM σ Term) : List BLit → TM σ (List BLit)
  | [] => pure []
  | b :: bs => do
    let b' ← blitTransM g b
    let bs' ← blitsTransM g bs
    pure (b' :: bs')

/-- `anonymize_variables(literals)` = (sorted renamed literals, old2new) -/
def anonymize (lits : List BLit) : Except String (List BLit × List (String × String)) := do
  let (ret, st) ← (blitsTransM (Term.transM Term.isVar anonVar) lits).run (0, [])
  pure (astSort ret, st.2)

/-- `unanonymize_variables(variables, mapping)` on names -/
def unanonymize (vars : List String) (mapping : List (String × String)) : List String :=
  vars.filterMap fun v => mapping.lookup v

/-! ## `LiteralCollector` -/

/-- `RuleRebuilder` (`new_literals` is the key it is filed under; only `newvars2oldvars` is ever read) -/
structure RB where
  ruleid : Nat
  sub : Option BLit
  subsub : Option BAggElem
  original : List BLit
  new2old : List (String × String)

/-- `occurences`: keys in insertion order -/
abbrev Occs := List (List BLit × List RB)

def occAdd (k : List BLit) (rb : RB) : Occs → Occs
  | [] => [(k, [rb])]
  | (k', rbs) :: rest => if keyEq k k' then (k', rbs ++ [rb]) :: rest else (k', rbs) :: occAdd k rb rest

/-- the common body of the three `_add_occurences_from_…` loops for one sequence of literals -/
def addCombos (size : Nat) (lits : List BLit) (index : Nat) (sub : Option BLit) (subsub : Option BAggElem)
    (occ : Occs) : Except String Occs :=
  (combinations lits size).foldlM (fun occ subset => do
    let (_, unbound) ← bindingBody subset
    if unbound.isEmpty then do
      let (newSubset, old2new) ← anonymize subset
      pure (occAdd newSubset ⟨index, sub, subsub, subset, old2new.map fun p => (p.2, p.1)⟩ occ)
    else pure occ) occ

def liftLits (c : List Lit) : List BLit := c.map BLit.lit

/-- `_add_occurences_from_conditionals` -/
def addConditionals (size : Nat) (body : List BLit) (index : Nat) (occ : Occs) : Except String Occs :=
  body.foldlM (fun occ lit =>
    match lit with
    | .clit (_, cond) => addCombos size (liftLits cond) index (some lit) none occ
    | _ => pure occ) occ

/-- `_add_occurences_from_body_aggregate` -/
def addBodyAggregates (size : Nat) (body : List BLit) (index : Nat) (occ : Occs) : Except String Occs :=
  body.foldlM (fun occ lit =>
    match lit with
    | .lit (_, .bagg _ _ _ _ elems _) =>
      elems.foldlM (fun occ el => addCombos size (liftLits el.2) index (some lit) (some el) occ) occ
    | _ => pure occ) occ

/-- the loop of `LiteralCollector.__init__` -/
def collectOccs (size : Nat) : List Stm → Nat → Occs → Except String Occs
  | [], _, occ => pure occ
  | stm :: rest, index, occ => do
    let occ ← (match stm with
      | .rule _ _ _ body => do
        let occ ← addCombos size body index none none occ
        let occ ← addConditionals size body index occ
        addBodyAggregates size body index occ
      | .minimize _ _ _ _ _ body => addCombos size body index none none occ
      | _ => pure occ : Except String Occs)
    collectOccs size rest (index + 1) occ

/-! ### `_filter_occurences`: connectivity of the literals of a subset through shared global variables -/

/-- all pairs of a list (`combinations(vars_, 2)`, undirected edges) -/
def pairs : List String → List (String × String)
  | [] => []
  | x :: xs => xs.map (fun y => (x, y)) ++ pairs xs

/-- one round of neighbour closure -/
def growComp (edges : List (String × String)) (comp : VSet) : VSet :=
  edges.foldl (fun c e =>
    if c.contains e.1 then vUnion c [e.2] else if c.contains e.2 then vUnion c [e.1] else c) comp

/-- connected component of `v`.  Fuel: a round that adds nothing ends the loop and there are at most
`#nodes ≤ 2·#edges` additions, so `2·#edges + 1` rounds suffice. -/
def component (edges : List (String × String)) : Nat → VSet → VSet
  | 0, comp => comp
  | fuel + 1, comp =>
    let comp' := growComp edges comp
    if comp'.length == comp.length then comp else component edges fuel comp'

/-- does the subset stay in `occurences`?  Python removes it if the variable graph (nodes only come with edges)
has more than one component, or no component but more than one variable, or one component that misses a
variable. -/
def keepSubset (subset : List BLit) : Except String Bool := do
  let varsPerLit ← subset.mapM fun lit => globalVarsInsideBody [lit]
  let allVars := varsPerLit.foldl vUnion []
  let edges := varsPerLit.flatMap pairs
  match edges with
  | [] => pure (allVars.length ≤ 1)
  | e :: _ =>
    let nodes := vOfList (edges.flatMap fun e => [e.1, e.2])
    let comp := component edges (2 * edges.length + 1) [e.1]
    -- one component iff the component of some node has all nodes; then it must not be a proper subset of all_vars
    pure (vSubset nodes comp && vSubset allVars comp)

def filterOccs : Occs → Except String Occs
  | [] => pure []
  | (k, rbs) :: rest => do
    let keep ← keepSubset k
    let rest' ← filterOccs rest
    pure (if keep then (k, rbs) :: rest' else rest')

/-! ### `rebuild` and `process` -/

def stmBody? : Stm → Option (List BLit)
  | .rule _ _ _ b => some b
  | .minimize _ _ _ _ _ b => some b
  | _ => none

def stmSetBody (s : Stm) (b : List BLit) : Stm :=
  match s with
  | .rule l c h _ => .rule l c h b
  | .minimize l c w p ts _ => .minimize l c w p ts b
  | s => s

def auxLit (name : String) (vars : List String) : Lit := (.pos, .sym (.fn name (vars.map Term.var) false))

def unlift (l : List BLit) : List Lit := l.filterMap fun b => match b with | .lit x => some x | .clit _ => none

/-- `rebuild(rule_builder, predicate_name, variables)` on the body of the rule -/
def rebuild (body : List BLit) (rb : RB) (name : String) (vars : List String) : Except String (List BLit) :=
  let aux := auxLit name vars
  match rb.sub with
  | none => pure ((body.filter fun lit => !blitIn lit rb.original) ++ [.lit aux])
  | some (.clit (l, cond)) =>
    let newBody := body.filter fun lit => !blitEq lit (.clit (l, cond))
    let newCond := (cond.filter fun lit => !blitIn (.lit lit) rb.original) ++ [aux]
    pure (newBody ++ [.clit (l, newCond)])
  | some (.lit (s, .bagg line col lg f elems rg)) =>
    match rb.subsub with
    | none => .error "assert: rule_builder.sub_sub_ast is not None"
    | some el =>
      let newBody := body.filter fun lit => !blitEq lit (.lit (s, .bagg line col lg f elems rg))
      let newCond := (el.2.filter fun lit => !blitIn (.lit lit) rb.original) ++ [aux]
      let newElems := (elems.filter fun e => !bElemEq e el) ++ [(el.1, newCond)]
      pure (newBody ++ [.lit (s, .bagg line col lg f newElems rg)])
  | some _ => .error "rebuild: unexpected sub_ast"   -- never constructed by the collector

/-- distinct `(ruleid, sub_ast, sub_sub_ast)` triples -/
def rbSame (a b : RB) : Bool :=
  a.ruleid == b.ruleid
  && (match a.sub, b.sub with
      | none, none => true
      | some x, some y => blitEq x y
      | _, _ => false)
  && (match a.subsub, b.subsub with
      | none, none => true
      | some x, some y => bElemEq x y
      | _, _ => false)

def distinctCount : List RB → List RB → Nat
  | [], seen => seen.length
  | rb :: rest, seen => if seen.any (rbSame rb) then distinctCount rest seen else distinctCount rest (rb :: seen)

structure ProcState where
  prg : List Stm
  names : UniqueNames
  changed : List Nat
  /-- `additional_rules` (index ↦ rules) -/
  additional : List (Nat × List Stm)

def addAdditional (idx : Nat) (r : Stm) : List (Nat × List Stm) → List (Nat × List Stm)
  | [] => [(idx, [r])]
  | (i, rs) :: rest => if i == idx then (i, rs ++ [r]) :: rest else (i, rs) :: addAdditional idx r rest

def listMin : List Nat → Nat
  | [] => 0
  | x :: xs => xs.foldl min x

/-- the inner `for rule_builder in rulebuilding` loop -/
def applyBuilders (name : String) (bound : List String) : List RB → ProcState → Except String ProcState
  | [], st => pure st
  | rb :: rest, st =>
    if st.changed.contains rb.ruleid then applyBuilders name bound rest st
    else
      match st.prg[rb.ruleid]? with
      | none => .error "IndexError: prg[ruleid]"
      | some rule =>
        match stmBody? rule with
        | none => .error "AttributeError: body"
        | some body => do
          let reverted := unanonymize bound rb.new2old
          let newBody ← rebuild body rb name reverted
          -- `if new_body:` always holds, the new literal has just been appended
          let prg' := st.prg.set rb.ruleid (stmSetBody rule newBody)
          applyBuilders name bound rest { st with prg := prg', changed := st.changed ++ [rb.ruleid] }

/-- `process(unique_names)` -/
def processOccs : Occs → ProcState → Except String ProcState
  | [], st => pure st
  | (literalSet, rbs) :: rest, st =>
    if rbs.length > 1 then
      if rbs.any (fun rb => st.changed.contains rb.ruleid) then processOccs rest st
      else if distinctCount rbs [] ≤ 1 then processOccs rest st
      else do
        let minIndex := listMin (rbs.map (·.ruleid))
        let (b, _) ← bindingBody literalSet
        let bound := sortNames b
        match st.names.newAux bound.length with
        | none => .error "new_auxpredicate does not terminate"
        | some (aux, names') =>
          let newRule : Stm := .rule 1 1 (.lit (auxLit aux.name bound)) literalSet
          let st := { st with names := names', additional := addAdditional minIndex newRule st.additional }
          let st ← applyBuilders aux.name bound rbs st
          processOccs rest st
    else processOccs rest st

/-! ## `LiteralDuplicationTranslator.execute` -/

def listMax (l : List Nat) : Nat := l.foldl max 0

/-- the contribution of one statement to `maxsize` -/
def stmMaxSize : Stm → Nat
  | .rule _ _ _ body =>
    let conds := body.filterMap fun lit => match lit with
      | .clit (_, c) => some c.length
      | _ => none
    let aggs := body.flatMap fun lit => match lit with
      | .lit (_, .bagg _ _ _ _ elems _) => elems.map fun e => e.2.length
      | _ => []
    max (max body.length (listMax conds)) (listMax aggs)
  | .minimize _ _ _ _ _ body => body.length
  | _ => 0

/-- `l[index:index] = xs` -/
def insertAt (l : List α) (index : Nat) (xs : List α) : List α := l.take index ++ xs ++ l.drop index

def insertNat (x : Nat) : List Nat → List Nat
  | [] => [x]
  | y :: ys => if x ≥ y then x :: y :: ys else y :: insertNat x ys

/-- `sorted(keys, reverse=True)` -/
def sortDesc (l : List Nat) : List Nat := l.foldr insertNat []

structure ExecState where
  /-- the copy of the input (plus the inserted rules) that `restore` reads from -/
  prg : List Stm
  newprogram : List Stm
  restore : List Bool
  names : UniqueNames

/-- one iteration of `while size > 1` (without the `size -= 1`); returns whether `changed_rules` is non-empty -/
def step (size : Nat) (st : ExecState) : Except String (Bool × ExecState) := do
  let occ ← collectOccs size st.newprogram 0 []
  let occ ← filterOccs occ
  let ps ← processOccs occ ⟨st.newprogram, st.names, [], []⟩
  let restore := st.restore.mapIdx fun i r => if ps.changed.contains i then false else r
  let keys := sortDesc (ps.additional.map (·.1))
  let st' := keys.foldl (fun (st : ExecState) index =>
    let rules := (ps.additional.lookup index).getD []
    { st with newprogram := insertAt st.newprogram index rules, prg := insertAt st.prg index rules,
              restore := insertAt st.restore index (rules.map fun _ => false) })
    { st with newprogram := ps.prg, restore := restore, names := ps.names }
  pure (!ps.changed.isEmpty, st')

def choose : Nat → Nat → Nat
  | _, 0 => 1
  | 0, _ + 1 => 0
  | n + 1, k + 1 => choose n k + choose n (k + 1)

/-- number of `size`-subsets of all literal sequences ("places") of a statement: body, conditions of its
conditional literals, conditions of its body aggregate elements -/
def stmMass (size : Nat) (s : Stm) : Nat :=
  match stmBody? s with
  | none => 0
  | some body =>
    choose body.length size
    + (body.map fun lit => match lit with
        | .clit (_, c) => choose c.length size
        | .lit (_, .bagg _ _ _ _ elems _) => (elems.map fun e => choose e.2.length size).sum
        | _ => 0).sum

/-- the potential `Ψ_size(prg) = Σ_statements mass²` -/
def potential (size : Nat) (prg : List Stm) : Nat := (prg.map fun s => stmMass size s * stmMass size s).sum

/-- the iterations of `while size > 1` during which `size` keeps its value: repeat `step` until nothing changed.

Fuel.  Call *mass* `W(r)` of a statement the number of `size`-subsets of its places (`stmMass`) and let
`Ψ = Σ_r W(r)²`.  Every key that `process` factors out (a) adds one rule with body `K`, whose mass is `1 + m`
(`m` = mass of the places inside the literals of `K`), and (b) rewrites at least the place of its first
occurrence, in rule `r₁`: that place loses at least `size` literals and gets one, so it loses at least one
`size`-subset, and if it is the body the `m` sub-places of `K` leave `r₁` too; nothing else in `r₁` grows.  So
`W(r₁)` drops by some `d ≥ 1 + m` while `1 + m` is added elsewhere: `(W-d)² + (1+m)² ≤ (W-d)² + d² < W²` unless
`W = d`, i.e. unless `r₁` has no other `size`-subset at all.  In that case the second distinct
`(ruleid, sub_ast, sub_sub_ast)` triple which `process` demands lives in another rule, whose mass also drops by at
least 1 (it cannot be in `changed_rules`, or the key would have been skipped), so `Ψ` drops by at least 1 as well.
Different keys of one iteration touch different rules, further rewritten occurrences only lower `Ψ`.  Hence
every iteration that changes something lowers `Ψ` by at least 1, and `Ψ + 1` iterations suffice. -/
def sameSizeLoop (size : Nat) : Nat → ExecState → Except String ExecState
  | 0, _ => .error "fuel: execute"
  | fuel + 1, st => do
    let (changed, st') ← step size st
    if changed then sameSizeLoop size fuel st' else pure st'

/-- `while size > 1`: structural in `size` -/
def sizeLoop : Nat → ExecState → Except String ExecState
  | 0, st => pure st
  | size + 1, st =>
    if size + 1 > 1 then do
      let st' ← sameSizeLoop (size + 1) (potential (size + 1) st.newprogram + 1) st
      sizeLoop size st'
    else pure st

/-- `execute(prg)` given the `UniqueNames` object -/
def executeWith (names : UniqueNames) (prg : List Stm) : Except String (List Stm) := do
  let newprogram ← prg.mapM replaceAssignments
  let maxsize := listMax (newprogram.map stmMaxSize)
  let st ← sizeLoop maxsize ⟨prg, newprogram, prg.map fun _ => true, names⟩
  pure ((st.newprogram.zip (st.restore.zip st.prg)).map fun (n, r, o) => if r then o else n)

/-- `LiteralDuplicationTranslator(prg, inputs).execute(prg)`; the constructor builds `UniqueNames` and
`DomainPredicates` (which may raise and may reserve names) -/
def execute (prg : List Stm) (inputs : List Pred) : Except String (List Stm) := do
  let names := UniqueNames.init prg inputs
  let dom ← Dep.DomState.init names prg
  executeWith dom.names prg

/-- outside the modelled fragment: theory atoms (text only in the mirror), pools (`unpool` in the constructor) -/
def outside (prg : List Stm) : Option String := Dep.progOutside prg

end Duplication
end NgoVerif
