import NgoVerif.Syntax
import NgoVerif.Generated.Tables
/-!
# Model of `ngo/api.py`: the fixed pass order and the outer fixpoint loop, parametric in the passes
-/
namespace NgoVerif
open Tables

/-- one pass: may fail (Python exception / assertion) -/
abbrev Pass (σ : Type) := σ → Except String σ

structure Pipeline (σ : Type) where
  pre : Pass σ
  passes : List (String × Pass σ)   -- in the order of `API_ORDER`
  exline : Pass σ
  post : Pass σ

/-- the stages one loop iteration runs for a flag vector, in order (names as reported by the NGO_VERIF trace) -/
def iterationStages (flags : List (String × Bool)) : List String :=
  (API_ORDER.filter fun p => (flags.lookup p.1).getD false).map (·.1) ++ ["exline"]

/-- the whole trace for `n` loop iterations -/
def traceStages (flags : List (String × Bool)) (n : Nat) : List String :=
  "preprocess" :: (List.replicate n (iterationStages flags)).flatten ++ ["postprocess"]

def runPasses {σ : Type} (flags : List (String × Bool)) : List (String × Pass σ) → σ → Except String σ
  | [], s => .ok s
  | (name, p) :: ps, s =>
    if (flags.lookup name).getD false then
      match p s with
      | .error e => .error e
      | .ok s' => runPasses flags ps s'
    else runPasses flags ps s

/-- one iteration of the `while True` loop body (without the exit test) -/
def iteration {σ : Type} (pl : Pipeline σ) (flags : List (String × Bool)) (s : σ) : Except String σ :=
  match runPasses flags pl.passes s with
  | .error e => .error e
  | .ok s' => pl.exline s'

/-- `optimize`: `none` = the loop did not exit within `fuel` iterations -/
def optimizeLoop {σ : Type} [BEq σ] (pl : Pipeline σ) (flags : List (String × Bool)) : Nat → σ → Option (Except String σ)
  | 0, _ => none
  | fuel + 1, s =>
    match iteration pl flags s with
    | .error e => some (.error e)
    | .ok s' => if s' == s then some (pl.post s') else optimizeLoop pl flags fuel s'

def optimizeModel {σ : Type} [BEq σ] (pl : Pipeline σ) (flags : List (String × Bool)) (fuel : Nat) (s : σ) :
    Option (Except String σ) :=
  match pl.pre s with
  | .error e => some (.error e)
  | .ok s0 => optimizeLoop pl flags fuel s0

end NgoVerif
