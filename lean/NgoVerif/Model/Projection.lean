import NgoVerif.Model.Binding
import NgoVerif.Model.Globals
/-!
# Model of `ngo/projection.py`: `good_split`, `project_rule`, `execute` (without its first step
`inline_arithmetic`, which is modelled elsewhere: the program handed to `executeRest` is the inlined one)
-/
namespace NgoVerif

/-! ## clingo AST equality ignores locations: erase the ones the mirror keeps before comparing -/

mutual
def Atom.eraseLoc : Atom → Atom
  | .bagg _ _ lg f elems rg => .bagg 0 0 lg f (bElemsEraseLoc elems) rg
  | .agg lg elems rg => .agg lg (cElemsEraseLoc elems) rg
  | a => a
def litEraseLoc : Sign × Atom → Sign × Atom
  | (s, a) => (s, a.eraseLoc)
def litsEraseLoc : List (Sign × Atom) → List (Sign × Atom)
  | [] => []
  | l :: ls => litEraseLoc l :: litsEraseLoc ls
def bElemsEraseLoc : List (List Term × List (Sign × Atom)) → List (List Term × List (Sign × Atom))
  | [] => []
  | (ts, c) :: es => (ts, litsEraseLoc c) :: bElemsEraseLoc es
def cElemsEraseLoc : List ((Sign × Atom) × List (Sign × Atom)) → List ((Sign × Atom) × List (Sign × Atom))
  | [] => []
  | (l, c) :: es => (litEraseLoc l, litsEraseLoc c) :: cElemsEraseLoc es
end

def BLit.eraseLoc : BLit → BLit
  | .lit l => .lit (litEraseLoc l)
  | .clit c => .clit (litEraseLoc c.1, litsEraseLoc c.2)

/-- Python `x == y` on body literals -/
def BLit.astEq (x y : BLit) : Bool := x.eraseLoc == y.eraseLoc

/-- Python `x in l` -/
def BLit.memAst (x : BLit) (l : List BLit) : Bool := l.any (fun y => x.astEq y)

/-! ## `good_split` -/

/-- all variables of the literals of `l`, without `_` (`vars.discard(Variable(LOC, "_"))`) -/
def varsOfNoAnon (l : List BLit) : VSet := vNoAnon (vOfList (l.flatMap BLit.vars))

/-- `is_predicate(lit) and lit.sign == Sign.NoSign` -/
def BLit.isTruePredicate : BLit → Bool
  | .lit (.pos, .sym (.fn ..)) => true
  | _ => false

/-- `len(collect_ast(x, "BodyAggregate")) > 0` for a body literal: body aggregates do not nest -/
def BLit.hasBodyAgg : BLit → Bool
  | .lit (_, .bagg ..) => true
  | _ => false

/-- `good_split(new, rest, stm)` with `stm = head :- body`; `none` is Python's `None`, an error is an exception -/
def goodSplit (new rest : List BLit) (head : Head) (body : List BLit) : Except String (Option (List String)) := do
  -- `if not (1 < len(new) < len(stm.body)) and len(rest)`: NB `not` binds tighter than `and`
  if !(1 < new.length && new.length < body.length) && rest.length != 0 then return none
  let (_, unbound) ← bindingBody new
  if !unbound.isEmpty then return none
  let varsInRest := varsOfNoAnon rest
  let gNew ← globalVarsInsideBody new
  let gHead ← globalVarsInsideHead head
  let t := vInter gNew (vUnion varsInRest gHead)
  let (_, unboundRest) ← bindingBody rest (some t)
  if !unboundRest.isEmpty then return none
  let varsInNew := varsOfNoAnon new
  let gNew2 ← globalVarsInsideBody new
  let localNew := vDiff varsInNew gNew2
  let globalOld ← globalVarsInsideBody body
  if !(vInter localNew globalOld).isEmpty then return none
  let gNew3 ← globalVarsInsideBody new
  if (vUnion t varsInRest).length ≥ globalOld.length || t.length ≥ gNew3.length then return none
  if rest.any (fun r => vSubset (vNoAnon (vOfList r.vars)) varsInNew) then return none
  if !rest.any BLit.isTruePredicate then return none
  if new.any BLit.hasBodyAgg && rest.any BLit.hasBodyAgg then return none
  let gHead2 ← globalVarsInsideHead head
  if t.length ≥ gHead2.length then return none
  return some (sortNames t)

/-! ## `project_rule` -/

/-- the `for new_list in largest_subset(stm.body)` loop over the remaining candidates -/
def projectLoop (un : UniqueNames) (line col : Nat) (head : Head) (body : List BLit) :
    List (List BLit) → Except String (List Stm × UniqueNames)
  | [] => pure ([.rule line col head body], un)
  | new :: cands => do
    let rest := body.filter (fun x => !x.memAst new)
    match ← goodSplit new rest head body with
    | none => projectLoop un line col head body cands
    | some splitVars =>
      match un.newAux splitVars.length with
      | none => .error "fuel: new_auxpredicate"
      | some (aux, un') =>
        let auxLit : Lit := (.pos, .sym (.fn aux.name (splitVars.map Term.var) false))
        -- `Rule(LOC, Literal(LOC, …), new)`: LOC is line 1, column 1
        let newRule : Stm := .rule 1 1 (.lit auxLit) new
        let updated : Stm := .rule line col head (rest ++ [.lit auxLit])
        pure ([newRule, updated], un')

/-- `project_rule(stm)` for a rule -/
def projectRule (un : UniqueNames) (line col : Nat) (head : Head) (body : List BLit) :
    Except String (List Stm × UniqueNames) :=
  projectLoop un line col head body (largestSubset body)

/-- `execute` after its `inline_arithmetic` line -/
def executeRest (un : UniqueNames) : Prog → Except String Prog
  | [] => pure []
  | .rule l c h b :: rest => do
    let (stms, un') ← projectRule un l c h b
    let tail ← executeRest un' rest
    pure (stms ++ tail)
  | stm :: rest => do
    let tail ← executeRest un rest
    pure (stm :: tail)

/-- `ProjectionTranslator(prg, inputs).execute(prg)` minus `inline_arithmetic` -/
def projection (prg : Prog) (inputs : List Pred) : Except String Prog :=
  executeRest (UniqueNames.init prg inputs) prg

/-- rules whose theory atoms hide variables from the mirror are outside the fragment -/
def Stm.ruleHasTheory : Stm → Bool
  | .rule _ _ h b => h.hasTheory || b.any BLit.hasTheory
  | _ => false

end NgoVerif
