import NgoVerif.Model.Collect
import NgoVerif.Model.Binding
import NgoVerif.Model.Globals
/-!
# Model of the decision part of `ngo/sum_aggregates.py` (class `SumAggregator`) and of `AggAnalytics`,
`_potentially_unifying`, `potentially_unifying`, `potentially_unifying_sequence` of `ngo/utils/ast.py`

What is modelled (the code that exists, bugs included):

* A. `AggAnalytics(node)`: `equal_variable_bound`, `bounds`, `guaranteed_leq`, `guaranteed_geq`;
* B. `_calc_at_most_on_rule`, `_calc_at_most` (with the `RuleDependency.get_rules_that_derive` lookup it uses:
  `head2rules[p]` holds a rule once per YIELD of `headderivable_predicates`, so `{a(X); a(Y)} 1.` defines `a`
  "twice");
* C. `_element_passes`, `_get_trigger`, `_get_var`, the guard of `_replace_optimize`, and which elements /
  objectives `execute` rewrites, in two readings:
  - `direct`: the methods called on the elements of the untouched program;
  - `seq`: what `execute` really does.  `_replace_elements` mutates the element it rewrites IN PLACE
    (`old_condition = elem.condition; old_condition.remove(trigger_lit); old_condition.append(new_lit)` works on
    a view of the stored AST), so a later element of the same aggregate no longer `==` it; and `execute` hands
    `_replace_optimize` the statement with the ALREADY rewritten body, which then differs from the statement
    stored in `self.objectives`, so `_get_var` finds it "not globally unique".

The rewriting itself (`_replace_elements`' new elements, `_replace_optimize`'s new statements, the rules of
`DomainPredicates`) is not modelled; neither are the exceptions of `DomainPredicates.__init__`.

Python sets are duplicate-free lists; Python `assert`/exceptions are `Except.error "assert: …"`.
Terms are assumed pool free where `potentially_unifying` is involved (`t.unpool() == [t]`); the driver answers
`unsupported` otherwise.
-/
namespace NgoVerif
namespace SumAgg

/-! ## equality of clingo ASTs ignores locations: strip the few locations the mirror keeps -/

mutual
def stripAtom : Atom → Atom
  | .bagg _ _ lg f elems rg => .bagg 0 0 lg f (stripBElems elems) rg
  | .agg lg elems rg => .agg lg (stripCElems elems) rg
  | a => a
def stripLit : Sign × Atom → Sign × Atom
  | (s, a) => (s, stripAtom a)
def stripLits : List (Sign × Atom) → List (Sign × Atom)
  | [] => []
  | l :: ls => stripLit l :: stripLits ls
def stripBElems : List (List Term × List (Sign × Atom)) → List (List Term × List (Sign × Atom))
  | [] => []
  | (ts, c) :: es => (ts, stripLits c) :: stripBElems es
def stripCElems : List ((Sign × Atom) × List (Sign × Atom)) → List ((Sign × Atom) × List (Sign × Atom))
  | [] => []
  | (l, c) :: es => (stripLit l, stripLits c) :: stripCElems es
end

def stripBLit : BLit → BLit
  | .lit l => .lit (stripLit l)
  | .clit (l, c) => .clit (stripLit l, stripLits c)

/-- `a == b` for two `BodyAggregateElement`s -/
def elemEq (a b : BAggElem) : Bool :=
  a.1 == b.1 && stripLits a.2 == stripLits b.2

/-- `a == b` for two lists of body literals -/
def bodyEq (a b : List BLit) : Bool := a.map stripBLit == b.map stripBLit

/-! ## A. `AggAnalytics` -/

structure Analytics where
  /-- `equal_variable_bound` -/
  equalVars : List String
  /-- `bounds`: everything else, written as right guards -/
  bounds : List Guard
  deriving Repr, Inhabited

/-- `rhs2lhs_comparison` -/
def rhs2lhs : CmpOp → CmpOp
  | .eq => .eq | .ne => .ne | .ge => .le | .le => .ge | .gt => .lt | .lt => .gt

def isEqVar (g : Guard) : Bool := g.op == .eq && g.term.isVar

def varName? : Term → Option String
  | .var n => some n
  | _ => none

/-- the body of `AggAnalytics.__init__` after its assert -/
def analyticsOfGuards (lg rg : Option Guard) : Analytics :=
  let a : Analytics := ⟨[], []⟩
  let a := match lg with
    | none => a
    | some g =>
      match g.op, g.term with
      | .eq, .var n => { a with equalVars := a.equalVars ++ [n] }
      | _, _ => { a with bounds := a.bounds ++ [⟨rhs2lhs g.op, g.term⟩] }
  match rg with
  | none => a
  | some g =>
    match g.op, g.term with
    | .eq, .var n => { a with equalVars := a.equalVars ++ [n] }
    | _, _ => { a with bounds := a.bounds ++ [g] }

def assertNode : String := "assert: node.ast_type in (BodyAggregate, HeadAggregate, Aggregate)"

/-- `AggAnalytics(atom)` for the atom of a body literal -/
def atomAnalytics : Atom → Except String Analytics
  | .bagg _ _ lg _ _ rg => pure (analyticsOfGuards lg rg)
  | .agg lg _ rg => pure (analyticsOfGuards lg rg)
  | _ => .error assertNode

/-- `AggAnalytics(head)` -/
def headAnalytics : Head → Except String Analytics
  | .agg lg _ rg => pure (analyticsOfGuards lg rg)
  | .hagg lg _ _ rg => pure (analyticsOfGuards lg rg)
  | _ => .error assertNode

/-- `guaranteed_leq(number)`: decided by the FIRST numeric bound whose comparison is `<=`, `=` or `<` -/
def guaranteedLeq (n : Int) : List Guard → Bool
  | [] => false
  | b :: bs =>
    match b.term with
    | .sym (.num k) =>
      if b.op == .le || b.op == .eq then k ≤ n
      else if b.op == .lt then k - 1 ≤ n
      else guaranteedLeq n bs
    | _ => guaranteedLeq n bs

/-- `guaranteed_geq(number)` -/
def guaranteedGeq (n : Int) : List Guard → Bool
  | [] => false
  | b :: bs =>
    match b.term with
    | .sym (.num k) =>
      if b.op == .ge || b.op == .eq then k ≥ n
      else if b.op == .gt then k + 1 ≥ n
      else guaranteedGeq n bs
    | _ => guaranteedGeq n bs

/-! ## B. at most one / at least one -/

/-- `AnnotatedPredicate` -/
structure APred where
  pred : Pred
  positions : List Nat
  deriving Repr, BEq, Inhabited

def insertAP (p : APred) (l : List APred) : List APred := if l.contains p then l else l ++ [p]

/-- positions of the arguments that are not built from global variables only.
NB `not global_vars or …`: without any global variable EVERY position is annotated, ground ones included. -/
def unprojected (globalVars : VSet) (args : List Term) : List Nat :=
  (List.range args.length).zip args |>.filterMap fun (i, arg) =>
    let localVars := vOfList arg.vars
    if globalVars.isEmpty || !vSubset localVars globalVars then some i else none

/-- the part of the loop body of `_calc_at_most_on_rule` after `condition` is known; `none` = `alone = False;
continue` -/
def elemPred (globalVars : VSet) (lit : Lit) : Except String (Option APred) :=
  match lit with
  | (.pos, .sym t) =>
    match t with
    | .fn name args _ => pure (some ⟨⟨name, args.length⟩, unprojected globalVars args⟩)
    | _ => .error "assert: condition.literal.atom.symbol.ast_type == ASTType.Function"
  | _ => pure none

/-- the weight test on a `HeadAggregateElement`: a positive number as first term -/
def positiveWeight : List Term → Bool
  | .sym (.num k) :: _ => k > 0
  | _ => false

/-- the `for elem in head.elements` loop: the literals (with the weight test already applied) in order -/
def elemsLoop (globalVars : VSet) : List (Option Lit) → List APred → Bool → Except String (List APred × Bool)
  | [], preds, alone => pure (preds, alone)
  | none :: rest, preds, _ => elemsLoop globalVars rest preds false
  | some lit :: rest, preds, alone => do
    match ← elemPred globalVars lit with
    | none => elemsLoop globalVars rest preds false
    | some p => elemsLoop globalVars rest (insertAP p preds) alone

/-- `_calc_at_most_on_rule(rule)` for a rule with the given head and body -/
def calcAtMostOnRule (head : Head) (body : List BLit) : Except String (List APred × List APred) := do
  let cands : Option (Analytics × List (Option Lit)) :=
    match head with
    | .hagg lg f elems rg =>
      if f == .count || f == .sum then
        some (analyticsOfGuards lg rg, elems.map fun e => if positiveWeight e.1 then some e.2.1 else none)
      else none
    | .agg lg elems rg => some (analyticsOfGuards lg rg, elems.map fun e => some e.1)
    | _ => none
  match cands with
  | none => pure ([], [])
  | some (an, lits) =>
    if !guaranteedLeq 1 an.bounds then pure ([], [])
    else
      let (globalVars, _) ← bindingBody body
      let (preds, alone) ← elemsLoop globalVars lits [] true
      match preds with
      | [p] => pure ([p], if guaranteedGeq 1 an.bounds && alone then [p] else [])
      | _ => pure ([], [])

/-- `_calc_at_most_on_rule(stm)`: `assert rule.ast_type == ASTType.Rule` -/
def calcAtMostOnStm : Stm → Except String (List APred × List APred)
  | .rule _ _ h b => calcAtMostOnRule h b
  | _ => .error "assert: rule.ast_type == ASTType.Rule"

def dedupPreds (ps : List Pred) : List Pred :=
  ps.foldl (fun acc p => if acc.contains p then acc else acc ++ [p]) []

/-- `rule_dependency.get_rules_that_derive(pred)`: one entry per yield of `headderivable_predicates` -/
def rulesThatDerive (prg : Prog) (p : Pred) : List Stm :=
  prg.flatMap fun s => (s.headDerivable.filter fun sp => sp.pred == p).map fun _ => s

/-- the `for pred in global_preds` loop (the Python set is iterated in hash order; the result is a list used as
a set, and an exception in any iteration ends everything, so the order is immaterial) -/
def atMostLoop (prg : Prog) : List Pred → List APred → List APred → Except String (List APred × List APred)
  | [], am, al => pure (am, al)
  | p :: ps, am, al =>
    match rulesThatDerive prg p with
    | [r] => do
      let (m, l) ← calcAtMostOnStm r
      -- fix d2294ea: the rule bounds `p`, not another predicate of its head
      atMostLoop prg ps (am ++ m.filter (·.pred == p)) (al ++ l.filter (·.pred == p))
    | _ => atMostLoop prg ps am al

/-- `_calc_at_most(prg)` with `self.input_predicates = inputs` -/
def calcAtMost (prg : Prog) (inputs : List Pred) : Except String (List APred × List APred) :=
  let globalPreds := (dedupPreds prg.allPreds).filter fun p => !inputs.contains p
  atMostLoop prg globalPreds [] []

/-! ## C1. potentially unifying -/

mutual
def termSize : Term → Nat
  | .var _ => 1
  | .sym _ => 1
  | .un _ a => termSize a + 1
  | .bin _ l r => termSize l + termSize r + 1
  | .ival l r => termSize l + termSize r + 1
  | .fn _ args _ => termSizeList args + 1
  | .pool args => termSizeList args + 1
def termSizeList : List Term → Nat
  | [] => 0
  | t :: ts => termSize t + termSizeList ts
end

/-- member of `nfunc = {SymbolicTerm, UnaryOperation, BinaryOperation, Interval}` -/
def isNFunc : Term → Bool
  | .sym _ | .un .. | .bin .. | .ival .. => true
  | _ => false

mutual
/-- `_potentially_unifying(lhs, rhs)`; `none` = fuel exhausted -/
def puFuel : Nat → Term → Term → Option Bool
  | 0, _, _ => none
  | fuel + 1, lhs, rhs =>
    if lhs == rhs || lhs.isVar || rhs.isVar then some true
    else
      -- `if rhs.ast_type in nfunc: rhs, lhs = lhs, rhs`
      let (lhs, rhs) := if isNFunc rhs then (rhs, lhs) else (lhs, rhs)
      if rhs.isFn && isNFunc lhs then some false
      else
        match lhs, rhs with
        | .sym a, .sym b => some (a == b)
        | .un o1 a1, .un o2 a2 => if o1 == o2 then puFuel fuel a1 a2 else some true
        | .fn n1 as1 _, .fn n2 as2 _ =>
          if n1 == n2 && as1.length == as2.length then puAll fuel as1 as2 else some false
        | _, _ => some true
/-- `all(map(_potentially_unifying, zip(l, r)))` (`all` stops at the first `False`) -/
def puAll : Nat → List Term → List Term → Option Bool
  | _, [], _ => some true
  | _, _, [] => some true
  | fuel, a :: as, b :: bs =>
    match puFuel fuel a b with
    | none => none
    | some false => some false
    | some true => puAll fuel as bs
end

/-- `_potentially_unifying(lhs, rhs)`.  Fuel: a recursive call is made on strict subterms of both arguments
(possibly swapped), so the nesting depth of calls is at most `min(size lhs, size rhs)`; `size lhs + size rhs`
is enough. -/
def potUnify' (lhs rhs : Term) : Except String Bool :=
  match puFuel (termSize lhs + termSize rhs) lhs rhs with
  | some b => pure b
  | none => .error "fuel: _potentially_unifying"

def termHasPool (t : Term) : Bool := !(t.collect Term.isPool).isEmpty

/-- `potentially_unifying(lhs, rhs)` on pool-free terms (`unpool()` is `[t]`; the asserts on the term kinds
always hold for mirrored terms) -/
def potUnify (lhs rhs : Term) : Except String Bool := potUnify' lhs rhs

/-- `potentially_unifying_sequence(lhs, rhs)` -/
def potUnifySeq (lhs rhs : List Term) : Except String Bool :=
  if lhs.length != rhs.length then pure false
  else
    let rec go : List Term → List Term → Except String Bool
      | a :: as, b :: bs => do
        if ← potUnify a b then go as bs else pure false
      | _, _ => pure true
    go lhs rhs

/-! ## C2. `_element_passes` -/

def countName (x : String) (l : List String) : Nat := (l.filter (· == x)).length

/-- an element of the aggregate as `_element_passes` sees it: the element and whether `execute` has already
rewritten (= mutated in place) it, in which case it is `==` to nothing that occurs in the program -/
abbrev Slot := BAggElem × Bool

/-- the `for other in elements` loop -/
def othersLoop (elem : BAggElem) : List Slot → Except String Bool
  | [] => pure true
  | (other, mutated) :: rest => do
    if !mutated && elemEq other elem then othersLoop elem rest
    else if ← potUnifySeq elem.1 other.1 then pure false
    else othersLoop elem rest

/-- `_element_passes(elem, elements)` -/
def elementPasses (elem : BAggElem) (elements : List Slot) : Except String Bool :=
  match elem.1 with
  | [] => .error "IndexError: elem.terms[0]"
  | .var w :: restTerms =>
    let others := restTerms.flatMap Term.vars ++ (litsTerms elem.2).flatMap Term.vars
    if countName w others != 1 then pure false
    else othersLoop elem elements
  | _ :: _ => pure false

/-! ## C3. `_get_trigger` -/

/-- the `for i in next_anon_pred.annotated_positions` loop: (anon_are_anonymous, trigger_index) -/
def positionsLoop (v : Term) (args : List Term) : List Nat → Bool → Option Nat → Except String (Bool × Option Nat)
  | [], anon, ti => pure (anon, ti)
  | i :: is, anon, ti =>
    match args[i]? with
    | none => .error "IndexError: symbol.arguments[i]"
    | some arg =>
      if arg == .var "_" then positionsLoop v args is anon ti
      else if arg == v then positionsLoop v args is anon (some i)
      else positionsLoop v args is false ti

/-- the `for next_anon_pred in self._atmost_preds` loop for one literal; `trigger_index` is NOT reset between
the annotated predicates -/
def predsLoop (v : Term) (name : String) (args : List Term) :
    List APred → Option Nat → Except String (Option (Nat × APred))
  | [], _ => pure none
  | ap :: aps, ti =>
    if ap.pred == ⟨name, args.length⟩ then do
      let (anon, ti) ← positionsLoop v args ap.positions true ti
      match anon, ti with
      | true, some i => pure (some (i, ap))
      | _, _ => predsLoop v name args aps ti
    else predsLoop v name args aps ti

/-- `_get_trigger(minimize_var, body)`: (index of the literal in `body`, trigger_index, annotated predicate).
A conditional literal ends the search; only POSITIVE literals are looked at (fix 49543fa, known_findings.json `fixed:`). -/
def getTrigger (atmost : List APred) (v : Term) : List BLit → Nat → Except String (Option (Nat × Nat × APred))
  | [], _ => pure none
  | .clit _ :: _, _ => pure none
  | .lit (.pos, .sym (.fn name args _)) :: rest, idx => do
    match ← predsLoop v name args atmost none with
    | some (i, ap) => pure (some (idx, i, ap))
    | none => getTrigger atmost v rest (idx + 1)
  | .lit _ :: rest, idx => getTrigger atmost v rest (idx + 1)

/-! ## C4. which elements of a `#sum`/`#sum+` body aggregate are rewritten -/

/-- a decision to rewrite: element index, index of the trigger literal in the condition, trigger_index, predicate -/
structure ElemHit where
  elem : Nat
  lit : Nat
  pos : Nat
  ap : APred
  deriving Repr, Inhabited

/-- the `for elem in elements` loop of `_replace_elements`, decisions only.
`slots` is the current state of the aggregate's elements, `todo` the elements still to visit with their index.
With `inPlace` a rewritten element is marked as mutated for the elements after it (what `execute` does);
without it every element is judged against the untouched aggregate.
Returns the hits and the indices of the elements that are DROPPED (empty tuple: neither branch appends). -/
def elementsLoop (atmost : List APred) (inPlace : Bool) (outside : List String) :
    List (Nat × BAggElem) → List Slot → Except String (List ElemHit × List Nat)
  | [], _ => pure ([], [])
  | (i, elem) :: todo, slots =>
    match elem.1 with
    | [] => do
      -- `if elem.terms and len(elem.terms) > 0` has no else branch
      let (hs, ds) ← elementsLoop atmost inPlace outside todo slots
      pure (hs, i :: ds)
    | w :: _ => do
      let passes ← elementPasses elem slots
      -- fix b5d2d20 (known_findings.json `fixed:`): a weight that is also used outside of the aggregate is left alone
      let glob := match w with
        | .var v => outside.contains v
        | _ => false
      if !passes || glob then elementsLoop atmost inPlace outside todo slots
      else
        let trigger ← getTrigger atmost w (elem.2.map BLit.lit) 0
        match trigger with
        | none => elementsLoop atmost inPlace outside todo slots
        | some (l, p, ap) =>
          let slots' := if inPlace then
              (List.range slots.length).zip slots |>.map fun (j, s) => if j == i then (s.1, true) else s
            else slots
          let (hs, ds) ← elementsLoop atmost inPlace outside todo slots'
          pure (⟨i, l, p, ap⟩ :: hs, ds)

def replaceElements (atmost : List APred) (inPlace : Bool) (outside : List String) (elements : List BAggElem) :
    Except String (List ElemHit × List Nat) :=
  elementsLoop atmost inPlace outside ((List.range elements.length).zip elements) (elements.map fun e => (e, false))

/-- `collect_ast(stm.update(body=[x for x in stm.body if x != blit]), "Variable")` as names -/
def outsideVars (stm : Stm) (blit : BLit) : List String :=
  match stm with
  | .rule l c h b => (Stm.rule l c h (b.filter fun x => stripBLit x != stripBLit blit)).vars
  | .minimize l c w p ts b => (Stm.minimize l c w p ts (b.filter fun x => stripBLit x != stripBLit blit)).vars
  | s => s.vars

/-- the body literals `execute` hands to `_replace_elements`: (index in the body, elements) -/
def sumAggregates (body : List BLit) : List (Nat × List BAggElem) :=
  (List.range body.length).zip body |>.filterMap fun (i, b) =>
    match b with
    -- fix 470d5b6 (known_findings.json `fixed:`): `#sum` only, `#sum+` aggregates are left alone
    | .lit (_, .bagg _ _ _ f elems _) => if f == .sum then some (i, elems) else none
    | _ => none

structure AggDecision where
  bodyIdx : Nat
  hits : List ElemHit
  dropped : List Nat
  deriving Repr, Inhabited

def bodyDecisions (atmost : List APred) (inPlace : Bool) (stm : Stm) (body : List BLit) : Except String (List AggDecision) :=
  (sumAggregates body).mapM fun (i, elems) => do
    let outside := match body[i]? with
      | some blit => outsideVars stm blit
      | none => []
    let (hs, ds) ← replaceElements atmost inPlace outside elems
    pure ⟨i, hs, ds⟩

/-! ## C5. objectives -/

/-- the key of `self.objectives`: `(weight, priority, *terms)` -/
def objectiveKey : Stm → Option (List Term)
  | .minimize _ _ w p ts _ => some (w :: p :: ts)
  | _ => none

/-- `x != minimize` for two statements, `x` a Minimize of the program -/
def minimizeEq : Stm → Stm → Bool
  | .minimize _ _ w1 p1 t1 b1, .minimize _ _ w2 p2 t2 b2 => w1 == w2 && p1 == p2 && t1 == t2 && bodyEq b1 b2
  | _, _ => false

/-- `unsafe` of `_get_var` is non-empty: some objective of the program with a potentially unifying tuple is not
`==` the statement at hand.  (Grouping the objectives by tuple, as `self.objectives` does, does not change
whether the list is empty.) -/
def unsafeObjective (prg : Prog) (m : Stm) (key : List Term) : Except String Bool :=
  let rec go : List Stm → Except String Bool
    | [] => pure false
    | x :: xs =>
      match objectiveKey x with
      | none => go xs
      | some k => do
        if (← potUnifySeq k key) && !minimizeEq x m then pure true else go xs
  go prg

/-- `_get_var(minimize)` for a statement `m` that is `==` the statement of the program it comes from
(`bodyChanged = false`) or differs from it in its body (`bodyChanged = true`: then that statement itself is in
`unsafe`, its tuple unifies with itself) -/
def getVar (prg : Prog) (m : Stm) (bodyChanged : Bool) : Except String (Option Term) :=
  match m with
  | .minimize _ _ w p ts _ => do
    if bodyChanged then pure none
    else if ← unsafeObjective prg m (w :: p :: ts) then pure none
    else
      match w with
      | .var _ => pure (some w)
      | .un .minus (.var n) => pure (some (.var n))
      | _ => pure none
  | _ => .error "assert: minimize.ast_type == ASTType.Minimize"

structure ObjDecision where
  /-- result of `_get_var` -/
  var : Option String
  /-- (index of the trigger literal in the body, trigger_index, predicate) if the objective is rewritten -/
  hit : Option (Nat × Nat × APred)
  deriving Repr, Inhabited

/-- the guard of `_replace_optimize(minimize)` -/
def objectiveDecision (atmost : List APred) (prg : Prog) (m : Stm) (bodyChanged : Bool) :
    Except String ObjDecision :=
  match m with
  | .minimize _ _ _ p ts body => do
    match ← getVar prg m bodyChanged with
    | none => pure ⟨none, none⟩
    | some v =>
      let name := (varName? v).getD ""
      let others := (p :: ts).flatMap Term.vars ++ body.flatMap BLit.vars
      if countName name others != 1 then pure ⟨some name, none⟩
      else
        let hit ← getTrigger atmost v body 0
        pure ⟨some name, hit⟩
  | _ => .error "assert: minimize.ast_type == ASTType.Minimize"

/-! ## C6. the whole pass, decisions only -/

structure StmDecision where
  idx : Nat
  aggs : List AggDecision
  /-- `none` for rules -/
  obj : Option ObjDecision
  deriving Repr, Inhabited

/-- decisions of `execute(prg)` for an object built from `prg` and `inputs`.
`inPlace = false`: the methods applied to the untouched program.
`inPlace = true`: the control flow of `execute`, assuming the calls into `DomainPredicates` do not raise. -/
def decisions (prg : Prog) (inputs : List Pred) (inPlace : Bool) : Except String (List StmDecision) := do
  let (atmost, _) ← calcAtMost prg inputs
  let rec go : List (Nat × Stm) → Except String (List StmDecision)
    | [] => pure []
    | (i, stm) :: rest => do
      match stm with
      | .rule _ _ _ body =>
        let aggs ← bodyDecisions atmost inPlace stm body
        let tail ← go rest
        pure (⟨i, aggs, none⟩ :: tail)
      | .minimize _ _ _ _ _ body =>
        let aggs ← bodyDecisions atmost inPlace stm body
        let changed := inPlace && aggs.any fun a => !a.hits.isEmpty || !a.dropped.isEmpty
        let obj ← objectiveDecision atmost prg stm changed
        let tail ← go rest
        pure (⟨i, aggs, some obj⟩ :: tail)
      | _ => go rest
  go ((List.range prg.length).zip prg)

/-! ## the fragment -/

def stmHasTheory : Stm → Bool
  | .rule _ _ h b => h.hasTheory || b.any BLit.hasTheory
  | .minimize _ _ _ _ _ b => b.any BLit.hasTheory
  | .showTerm _ b => b.any BLit.hasTheory
  | .external _ b _ => b.any BLit.hasTheory
  | _ => false

def stmHasPool (s : Stm) : Bool := s.terms.any termHasPool

end SumAgg
end NgoVerif
